#!/venv/bin/python
"""Write assignments for authors of BREAKING changes (sub-agents that know nothing of /verif).

usage: tools/gen_seed_assign.py <round-number> <n-agents> [--shift K]
Assignments -> /tmp/seed/assign<round>/sK.md, authors write to /tmp/seed/out<round>/<ID>/.
Each property's earlier kept changes (summaries from /verif/seeded/<ID>-*/meta.json) are listed so the new
one has to use a different mechanism.  Only the property text and those one-line summaries leave /verif.
"""
import glob
import json
import os
import sys

V = os.path.dirname(os.path.dirname(os.path.abspath(__file__)))
ORD = {6: "SIXTH", 7: "SEVENTH", 8: "EIGHTH", 9: "NINTH", 10: "TENTH"}

HEAD = """# Assignment for seeder r{rnd}-{k}

You work ONLY inside the git worktree `{wt}` (a checkout of the library tornadoweb/tornado, Python 3.12,
interpreter `/venv/bin/python`) and write your results under `{out}/<PROPERTY_ID>/`.
Do NOT read, list or use anything under `/verif` or `/root` — your work must be independent of it. Do not touch `/repo`.

## Goal
For EACH property below, craft ONE realistic change (a bug a developer could plausibly introduce: a refactor
slip, an off-by-one, a dropped guard, a reordered statement, two sites that each look fine alone) to the
library source under `{wt}/tornado/` such that:

1. the property below is BROKEN by the change;
2. the library still imports and the ENTIRE existing test suite still passes with the change applied
   (run it: `cd {wt} && /venv/bin/python -m pytest -q -p no:cacheprovider --timeout=900 tornado/test 2>&1 | tail -5`
   — about 30-60 s; every test that passed before must still pass);
3. the breakage needs something SPECIFIC to manifest — a particular interleaving/schedule, a crash or fault at a
   particular point, a multi-step sequence of operations, an unusual (but in-domain) input, a boundary value, or two
   cooperating sites — NOT something ordinary use would expose at once (if plain "hello world" usage of the
   feature breaks, the change is too crude; make it subtler);
4. you provide a demonstration `demo.py`: a small standalone program (plain asserts; run as
   `cd {wt} && /venv/bin/python {out}/<ID>/demo.py`) that exits 0 on the UNCHANGED tree and exits non-zero
   (assertion failure) WITH the change applied. It must be deterministic (no sleeps/races deciding the outcome;
   use Tornado's own testing utilities, in-memory objects or loopback sockets as needed) and finish in seconds.
   It must demonstrate a violation of the property AS STATED (not of some other expectation), on an input / schedule /
   history INSIDE the domain the property quantifies over.

NEVER use `git stash` (it is shared with sibling worktrees): toggle your change with `git apply` / `git apply -R` / `git checkout -- .`. Start each demo.py with `import os, sys; sys.path.insert(0, os.getcwd())` so it imports the worktree's tornado. Do not modify tests. Do not add new files to the library. Keep the diff small (typically 1-10 lines).
Prefer changes in the code the property's anchors point to, but any source file is allowed.

## Deliverables per property, in `{out}/<ID>/`
* `patch.diff` — output of `git -C {wt} diff` with only your change applied (must apply cleanly with `git apply` on a clean checkout);
* `demo.py` — as above;
* `meta.json` — `{{"property": "<ID>", "summary": "<one sentence: what was changed>", "needs": "<what specific input/schedule/sequence/fault is needed for it to manifest>", "ran": ["<commands you ran to confirm: demo passes clean, demo fails with patch, test suite passes with patch>"], "suite_result_with_patch": "<tail line of pytest>"}}`.

After finishing a property, restore the worktree with `git -C {wt} checkout -- .` and confirm `git -C {wt} status --short` is
empty before starting the next. When you are done with all properties the worktree must be clean.
If after a serious attempt you cannot find a change satisfying all four conditions for a property, write
`meta.json` with `"failed": "<why>"` for it and move on.

Your final message: for each property, one line: ID, summary of the change, what it needs to manifest, and whether all
four conditions were confirmed.

## Extra rules for this round
* This is a {ordinal} round: for each property several earlier changes already exist (summarised under the property). Yours must
  break the property through a DIFFERENT mechanism / code site / input class — do not produce a variation of an earlier one.
{style}
* The machine may be loaded by other jobs: a few timing-sensitive tests (autoreload_test test_reload*, process_test test_multi_process,
  *linear_performance, netutil ThreadedResolverImportTest, simple_httpclient_test test_request_timeout) can fail even on the clean tree.
  Run the suite without `-x`; a failure counts against your change only if the test passes alone on the clean tree and fails alone
  with your change.

## Properties
"""

STYLES = {
    "lifecycle": """* In this round aim for LIFECYCLE / STATE defects: the change must leave every single operation on a fresh object correct and
  break the property only through what is LEFT BEHIND or CARRIED OVER: state that is not reset between two uses of the same
  object (second request on a kept-alive connection, second message, second render, second start after stop, second fetch through
  the same client, re-parse into the same map, re-entrant call from a callback), a cache / memo / class-level or module-level
  variable shared between instances that should be per instance (or invalidated on change), a resource that is not released on
  one of the ways an operation can end (socket, timer, waiter entry, signal handler, registration, future left pending), or a
  counter / flag that drifts over a long history (off by one per cycle).
* The demo should therefore drive a HISTORY: do the thing once (fine), then again / on a second instance / after an intervening
  different operation, and show the statement broken on the later step.""",
    "boundary": """* In this round aim for BOUNDARY / ENCODING defects: the change must be invisible for ordinary inputs and break the property
  only at an edge of an input class that the statement's domain includes: empty / single-element / maximal values, exact limit
  and limit +- 1, zero and negative numbers where allowed, lengths at encoding thresholds (125/126/65535/65536, 2**31, 2**63,
  4300-digit integers), first and last members of a character class (0x20, 0x21, 0x7e, 0x7f, 0x80, 0xff), non-ASCII and
  non-BMP text, bytes vs str forms, repeated / duplicated elements, percent-escapes of reserved characters, case variants of
  case-insensitive tokens, leading / trailing / doubled separators, values that look like another type ("0", "00", "+1", "1e3").
* Prefer a site where a comparison operator, slice bound, regex character class, default argument, or encode/decode pair decides
  the edge.""",
    "faultpath": """* In this round aim for FAULT-PATH defects: the change must be invisible on every success path and break the property only on an
  error, timeout, cancellation, close/shutdown, retry or limit-exceeded path that the statement's domain includes — or when USER
  code (a handler, callback, delegate method, WSGI app, template expression, overridden hook) raises or misbehaves at a specific
  point, or when the peer misbehaves (disconnects mid-message, sends garbage after valid data, never reads, answers late).
* Good places: `except` / `finally` clauses and what they restore, the order of cleanup steps, flags set before vs after an
  operation that can fail, state that must be reset after a failure so the NEXT operation on the same object still works,
  partial progress that has to be rolled back or reported, errors that must be reported to exactly one place.""",
    "interaction": """* In this round aim for INTERACTION defects: the change must be invisible when the feature is used alone with default settings
  and break the property only when it meets a SECOND feature or a NON-DEFAULT configuration that the statement's domain includes:
  e.g. a constructor/keyword option away from its default (limits, timeouts, chunk sizes, flags, custom subclasses overriding a
  documented hook), an HTTP method/status/version other than the usual GET/200/1.1, compression or streaming switched on, a
  second concurrent user of the same object, reuse of an object after it was closed/stopped/reset once, an operation issued from
  inside a callback of the same object (re-entrancy), or two of the statement's clauses exercised in one history.
* Look for the place where two code paths share a variable, a default, a cache or a cleanup routine, and break the sharing for
  one of them only.""",
    "quiet": """* In this round aim for QUIET defects: the change should alter behaviour only in a narrow corner that the property's statement
  covers but that is easy to forget when testing — a second clause of the statement (re-read it: most statements have several
  clauses; pick the one the earlier changes did NOT attack), an error/cleanup/timeout path, the second of two equivalent APIs
  (callback vs future form, sync vs async variant, client vs server role, v1 vs v2 format, bytes vs str input), a configuration
  option away from its default, or a boundary (0, 1, exactly-at-limit, limit+1, empty, maximal).
* Prefer a code site at least one call away from the obvious function (a helper, a caller, a default value, an initialiser, a
  cleanup path), so that the property breaks only through an interaction.""",
}


def main():
    rnd, n = int(sys.argv[1]), int(sys.argv[2])
    shift = int(sys.argv[sys.argv.index("--shift") + 1]) if "--shift" in sys.argv else 5
    style = STYLES[sys.argv[sys.argv.index("--style") + 1]] if "--style" in sys.argv else STYLES["quiet"]
    props = [json.loads(l) for l in open(os.path.join(V, "properties.jsonl"))]
    adir, out = "/tmp/seed/assign%d" % rnd, "/tmp/seed/out%d" % rnd
    os.makedirs(adir, exist_ok=True)
    os.makedirs(out, exist_ok=True)
    groups = [[] for _ in range(n)]
    for i, p in enumerate(props):
        groups[(i * shift + i // n) % n].append(p)
    for k, g in enumerate(groups, 1):
        wt = "/tmp/seed/s%d" % k
        txt = HEAD.format(rnd=rnd, k=k, wt=wt, out=out, ordinal=ORD.get(rnd, "LATER"), style=style)
        for p in g:
            q = p["quantifier"]
            a = p["anchors"]
            where = "files: " + ", ".join(a.get("files", [])) + "; " + "; ".join(
                "%s (%s)" % (m.get("name"), m.get("where")) for m in a.get("mechanism", []))
            earlier = []
            for d in sorted(glob.glob(os.path.join(V, "seeded", p["id"] + "-*"))):
                mp = os.path.join(d, "meta.json")
                if os.path.exists(mp):
                    sm = (json.load(open(mp)).get("summary") or "").strip()
                    if sm:
                        earlier.append(sm)
            txt += "\n### %s — %s\n\n**Statement.** %s\n\n**Quantified over.** %s\n\n**Why the existing tests cannot settle it.** %s\n\n**Where the mechanism lives.** %s\n\n**Earlier changes (do NOT repeat):** %s\n" % (
                p["id"], p["title"], p["statement"], q.get("text") if isinstance(q, dict) else q, p.get("why_tests_cant", ""), where,
                " ".join("(%d) %s" % (i + 1, e) for i, e in enumerate(earlier)) or "none")
        open(os.path.join(adir, "s%d.md" % k), "w").write(txt)
        print("s%d" % k, [p["id"] for p in g])


if __name__ == "__main__":
    main()
