#!/venv/bin/python
"""Write assignments for 'benign change' authors (sub-agents that know nothing of /verif).

Each author gets the text of a few properties and a scratch worktree and produces changes to
tornado under which the property STILL HOLDS (refactors, changes to unspecified behaviour).
Our checks must stay quiet on every one of them: an alarm is a false alarm of the machinery.

usage: tools/gen_benign_assign.py <round-name> <n-agents> <out-dir>   (assignments -> /tmp/seed/<assign-dir>)
"""
import json
import os
import sys

V = os.path.dirname(os.path.dirname(os.path.abspath(__file__)))

TEMPLATE = """# Assignment for change author {tag}

You work ONLY inside the git worktree `{wt}` (a checkout of the library tornadoweb/tornado, Python 3.12,
interpreter `/venv/bin/python`) and write your results under `{out}/<PROPERTY_ID>-<a|b>/`.
Do NOT read, list or use anything under `/verif` or `/root` — your work must be independent of it. Do not touch `/repo`.

## Goal
For EACH property below, craft TWO different realistic changes (`<ID>-a`, `<ID>-b`) to the library source under
`{wt}/tornado/` of the kind a maintainer could merge tomorrow, such that:

1. the property below STILL HOLDS with the change, for every input / schedule / history it quantifies over, and every
   documented behaviour of the library (docstrings, docs/, the HTTP / WebSocket RFCs it implements) is preserved;
2. the change is NOT a no-op: it visibly alters the code the property's mechanism lives in (or code one call away from it) —
   and, where possible, alters some behaviour that is observable but NOT promised by the property or the documentation.
   Good kinds of change:
   * refactors: rename private attributes / helpers, split or merge functions, replace a loop by a comprehension, change a
     private data structure (deque <-> list, dict <-> two lists), hoist/inline a helper, reorder INDEPENDENT statements,
     turn callbacks into a coroutine or vice versa, add caching that is invalidated correctly;
   * unspecified observable details: wording of log messages and exception messages, logger level of a diagnostic, wording of
     an HTTP reason phrase or error page body, order or capitalisation of emitted headers where nothing specifies it, how output
     bytes are split across write calls / chunk sizes of chunked encoding, internal buffer / read chunk sizes, number of event-loop
     iterations something takes, `repr()` of objects, which of several equally valid exception SUBCLASS messages is used,
     extra (harmless) debug attributes, a stricter-but-documented or more-lenient-but-allowed choice where an RFC leaves it open;
   * performance work: fast paths for common inputs, avoiding copies, precompiled regexes — all with identical results.
3. the library still imports and the ENTIRE existing test suite still passes with the change applied
   (`cd {wt} && /venv/bin/python -m pytest -q -p no:cacheprovider --timeout=900 tornado/test 2>&1 | tail -5` — about 30–60 s;
   every test that passed before must still pass; a few timing tests — autoreload_test test_reload*, process_test
   test_multi_process, *linear_performance, ThreadedResolverImportTest — may fail under machine load even on the clean tree:
   such a failure counts only if the test passes alone on the clean tree and fails alone with your change).
4. BE CAREFUL: the whole point is that the property is NOT broken. Re-read the statement after making the change and convince
   yourself (write the argument down) that no input / schedule / history in the quantified domain can tell the difference as
   far as the property is concerned. Do not change public API names, signatures, documented defaults or documented semantics.
   If in doubt, make the change more conservative.

Make `-a` mainly a refactor of the mechanism (same observable behaviour, different code shape, private names changed) and `-b`
mainly a change of an unspecified observable detail near the mechanism.

NEVER use `git stash` (it is shared with sibling worktrees): toggle your change with `git apply` / `git apply -R` /
`git checkout -- .`. Do not modify tests. Do not add new files. Keep each diff moderate (roughly 5–60 changed lines).

## Deliverables per change, in `{out}/<ID>-a/` and `{out}/<ID>-b/`
* `patch.diff` — output of `git -C {wt} diff` with only that change applied (must apply with `git apply` on a clean checkout);
* `meta.json` — `{{"property": "<ID>", "summary": "<one or two sentences: what was changed>", "observable_difference": "<what, if
  anything, an outside observer could notice>", "why_property_still_holds": "<the argument>", "suite_result_with_patch": "<tail line of pytest>"}}`.

After finishing a change, restore the worktree with `git -C {wt} checkout -- .` and confirm `git -C {wt} status --short` is empty
before starting the next. When you are done the worktree must be clean.

Your final message: one line per change: ID-a/b, summary, observable difference.

## Properties
"""


FREEDOM = """
## Style of this round: use the freedom the statement leaves
In this round do NOT write refactors or message rewordings. For each property write TWO changes (`<ID>-c`, `<ID>-d`; put them in
`{out}/<ID>-c/` and `{out}/<ID>-d/`) that change REAL BEHAVIOUR, but only inside the freedom the property's statement (and the
documentation / RFCs) leaves:
* where the statement allows alternatives ("answers 400 or closes", "either raises or ...", "at most", "only if"), switch the
  implementation from one allowed alternative to another, or make it take the other alternative in some sub-case;
* where the statement is silent about a case (an input class outside its quantified domain, an ordering it does not fix, a value
  it does not constrain, what happens AFTER the point where it stops promising anything), change what happens there;
* where the statement bounds something from one side only ("never more than", "no later than", "accepts only"), move the
  behaviour further to the safe side (stricter limit enforcement, earlier close, rejecting more malformed input that the
  statement lists as rejectable or leaves open) — never to the unsafe side;
* where an RFC the library implements says MAY/SHOULD, take the other permitted option.
The existing test suite must still pass (it pins a lot; read the tests touching your code first). State precisely in meta.json
which sentence of the statement permits the new behaviour ("permitted_by"). If a property leaves no such freedom that the test
suite does not pin, deliver only one change or write meta.json with "failed": "<why>".
"""


TIMING = """
## Style of this round: timing, ordering and formatting freedoms
In this round do NOT write refactors or message rewordings. For each property write TWO changes (`<ID>-e`, `<ID>-f`; put them in
`{out}/<ID>-e/` and `{out}/<ID>-f/`) that change REAL, OBSERVABLE behaviour which neither the statement nor the documentation
fixes, of these two kinds:
* `-e` **timing / ordering**: when something happens rather than what happens — complete synchronously instead of on the next
  loop iteration (or the reverse) where no document promises either; change the number of event-loop iterations, read/write
  system calls, timer registrations or intermediate callbacks an operation takes; coalesce or split writes / reads / chunks;
  change the relative order of INDEPENDENT effects (two log records, two callbacks for different objects, cleanup steps, headers
  for different names, wake-ups of waiters that the statement does not order); batch work; add or remove a yield point.
  The statement's own ordering and exactly-once promises must of course still hold.
* `-f` **formatting / representation of output**: spelling, case, whitespace, quoting, ordering and optional parts of what the
  library EMITS (header names' case and order, optional parameters and their order, hex case, padding, line breaks in generated
  code, default values that are equivalent, equivalent encodings of the same value, extra optional fields a peer must ignore),
  as far as the RFCs / documentation allow and the consumer named in the statement still reads the same thing.
The existing test suite must still pass (it pins a lot; read the tests touching your code first). State precisely in meta.json
which sentence of the statement / docs / RFC leaves this open ("permitted_by"). If a property leaves no such freedom that the test
suite does not pin, deliver only one change or write meta.json with "failed": "<why>".
"""


def main():
    tag, n, outdir = sys.argv[1], int(sys.argv[2]), sys.argv[3]
    only = None
    style = "freedom" if "--freedom" in sys.argv else ("timing" if "--timing" in sys.argv else "refactor")
    props = [json.loads(l) for l in open(os.path.join(V, "properties.jsonl"))]
    if only:
        props = [p for p in props if p["id"] in only]
    adir = "/tmp/seed/assign-%s" % tag
    os.makedirs(adir, exist_ok=True)
    # interleave so one author gets properties of different areas
    groups = [[] for _ in range(n)]
    for i, p in enumerate(props):
        groups[(i * 3 + i // n) % n if style == "freedom" else ((i * 5 + i // n) % n if style == "timing" else i % n)].append(p)
    for k, g in enumerate(groups, 1):
        wt = "/tmp/seed/s%d" % k
        txt = TEMPLATE.format(tag="%s-%d" % (tag, k), wt=wt, out=outdir)
        if style == "freedom":
            txt = txt.replace("## Properties\n", FREEDOM.format(out=outdir) + "\n## Properties\n")
        if style == "timing":
            txt = txt.replace("## Properties\n", TIMING.format(out=outdir) + "\n## Properties\n")
        for p in g:
            anchors = p.get("anchors")
            txt += "\n### %s — %s\n\n**Statement.** %s\n\n**Quantified over.** %s\n\n**Where the mechanism lives.** %s\n" % (
                p["id"], p["title"], p["statement"], (p["quantifier"].get("text") if isinstance(p["quantifier"], dict) else p["quantifier"]), json.dumps(anchors) if not isinstance(anchors, str) else anchors)
        open(os.path.join(adir, "s%d.md" % k), "w").write(txt)
        print(adir, "s%d.md" % k, [p["id"] for p in g])


if __name__ == "__main__":
    main()
