#!/bin/bash
# usage: tools/mutant.sh <PROP> <name> <file> <python-expr-old> <new>   (reads old/new from env OLD/NEW)
# Makes a scratch copy of /repo/tornado, applies a textual replacement, runs the quick check, cleans up.
set -u
PROP=$1; NAME=$2; FILE=$3
D=/var/tmp/mut-$PROP-$NAME-$$
rm -rf $D; mkdir -p $D; cp -r /repo/tornado $D/tornado
/venv/bin/python - "$D/tornado/$FILE" <<'PY'
import os, sys
p=sys.argv[1]; s=open(p).read(); old=os.environ["OLD"]; new=os.environ["NEW"]
assert s.count(old)>=1, "pattern not found"
open(p,"w").write(s.replace(old,new,1))
PY
[ $? -eq 0 ] || { echo "MUTANT $NAME: pattern not found"; rm -rf $D; exit 3; }
VERIF_NO_EVIDENCE=1 VERIF_REPO=$D /verif/check $PROP --tier quick > $D/out.txt 2>&1; rc=$?
echo "MUTANT $PROP/$NAME rc=$rc $(grep -c '^VIOLATION' $D/out.txt) violations; first: $(grep -A1 '^VIOLATION' $D/out.txt | sed -n 2p | cut -c1-160)"
rm -rf $D /verif/replays/_found/$PROP-*
