#!/venv/bin/python
"""Regenerate MANIFEST.json from the check modules present in checks/ (metadata lives in each module)."""
import ast, json, os, re, sys
V = os.path.dirname(os.path.dirname(os.path.abspath(__file__)))
props = [json.loads(l) for l in open(os.path.join(V, "properties.jsonl"))]
NA_FILE = os.path.join(V, "tools", "not_applicable.json")
na_reasons = json.load(open(NA_FILE)) if os.path.exists(NA_FILE) else {}

def module_consts(path):
    tree = ast.parse(open(path).read())
    out = {}
    for node in tree.body:
        if isinstance(node, ast.Assign) and len(node.targets) == 1 and isinstance(node.targets[0], ast.Name):
            try:
                out[node.targets[0].id] = ast.literal_eval(node.value)
            except Exception:
                pass
    return out

mods = {}
for fn in sorted(os.listdir(os.path.join(V, "checks"))):
    m = re.match(r"(c\d+)_.*\.py$", fn)
    if m:
        mods[m.group(1).upper()] = module_consts(os.path.join(V, "checks", fn))

checks, na = [], []
for p in props:
    pid = p["id"]
    c = mods.get(pid)
    if c is None or not c.get("READY", False):
        na.append({"property_id": pid, "reason": na_reasons.get(pid, "check not built yet in this round (design in DESIGN.md section 4, %s); not claimed until its check exists and is quiet on the unchanged tree" % pid)})
        continue
    checks.append({
        "property_id": pid,
        "quick_cmd": "./check %s --tier quick" % pid,
        "thorough_cmd": "./check %s --tier thorough" % pid,
        "evidence_file": "/verif/evidence/%s.json" % pid,
        "replay_cmd_template": "./check %s --replay {path}" % pid,
        "engine": "hypothesis-pbt",
        "level_claimed": {
            "category": c.get("LEVEL", "exploration"),
            "text": c.get("LEVEL_TEXT", "Generated-input search (Hypothesis) against an explicit oracle; holds on every generated case within the stated bounds, no absence claim beyond them."),
            "design_ref": "DESIGN.md section 4, %s" % pid,
        },
        "level_note": c.get("LEVEL_NOTE", "; ".join(c.get("ASSUMPTIONS", [])) or "oracle written in the check is trusted"),
        "technique": c.get("TECHNIQUE", "property-based testing (Hypothesis) with a reference-model oracle"),
    })
manifest = {
    "version": 1,
    "setup_cmd": "/venv/bin/pip install -q --no-index --find-links /opt/veriftools/wheels --target /verif/.deps --upgrade hypothesis atheris",
    "hooks": {
        "guard": "TORNADO_VERIF",
        "enable": "no source hooks are needed: checks import /repo's working tree directly (sys.path) and observe through public API, documented subclassing points and harness-owned objects",
        "baseline_off_cmd": "cd /repo && /venv/bin/python -m pytest -ra -q -p no:cacheprovider --timeout=900 --continue-on-collection-errors",
        "source_commits": [],
        "add_only": True,
    },
    "engines": [
        {"name": "hypothesis-pbt", "path": "/verif/vlib/runner.py", "serves_properties": [c["property_id"] for c in checks],
         "kind_free_text": "Hypothesis 6.168 strategies (op-list histories, grammars, mutations) + finite enumerations, seeded from VERIF_SEED; in-memory transport (vlib/memstream.py) and virtual clock (vlib/vtime.py) make segmentation, schedules, crash points and time generated values; thorough tier shards over 16 processes plus a coverage-guided shard (atheris/libFuzzer mutating the buffer Hypothesis decodes, same strategy and oracle, failures shrunk by Hypothesis and re-confirmed uninstrumented)"},
    ],
    "checks": checks,
    "not_applicable": na,
    "notes": "Single entry point ./check <ID> --tier quick|thorough [--replay FILE]. Exit 0 held / 1 VIOLATION / 2 harness error (inconclusive). known_findings.json is read-only at run time.",
}
json.dump(manifest, open(os.path.join(V, "MANIFEST.json"), "w"), indent=1)
print("claimed:", len(checks), "not_applicable:", len(na))
