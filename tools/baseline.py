#!/venv/bin/python
"""Run the repository's pinned baseline suite (guard off) and compare with /root/.vp/BASELINE.json stable_pass.
usage: tools/baseline.py [pytest-args...]   exit 0 iff every stable_pass test passed."""
import json, os, subprocess, sys, tempfile, xml.etree.ElementTree as ET
base = json.load(open("/root/.vp/BASELINE.json"))
fd, xml = tempfile.mkstemp(suffix=".xml", dir="/var/tmp"); os.close(fd)
env = dict(os.environ); env.pop("TORNADO_VERIF", None)
cwd = "/repo"
if len(sys.argv) > 2 and sys.argv[1] == "--cwd":
    cwd = sys.argv[2]; del sys.argv[1:3]
cmd = ["/venv/bin/python", "-m", "pytest", "-ra", "-q", "-p", "no:cacheprovider", "--timeout=900",
       "--continue-on-collection-errors", "--junitxml=" + xml] + sys.argv[1:]
p = subprocess.run(cmd, cwd=cwd, env=env, stdout=subprocess.PIPE, stderr=subprocess.STDOUT, text=True)
print(p.stdout[-1500:])
passed = set()
for tc in ET.parse(xml).getroot().iter("testcase"):
    if not any(c.tag in ("failure", "error", "skipped") for c in tc):
        passed.add("%s::%s" % (tc.get("classname"), tc.get("name")))
os.unlink(xml)
want = set(base["stable_pass"])
missing = sorted(want - passed)
print("stable_pass=%d passed_now=%d missing=%d" % (len(want), len(passed & want), len(missing)))
for m in missing[:40]:
    print("  MISSING", m)
sys.exit(1 if missing else 0)
