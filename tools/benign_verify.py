#!/venv/bin/python
"""Run our checks against a property-PRESERVING change written by a sub-agent (see gen_benign_assign.py).

usage: tools/benign_verify.py <NAME> --src DIR [--checks C01,C02|all] [--seeds 1,2] [--no-suite] [--keep]

<NAME> is e.g. C07-a (property id = part before '-').  In a scratch worktree of /repo at HEAD:
  1. patch.diff applies
  2. the pinned baseline suite still passes with it (unless --no-suite)
  3. the listed checks (default: the change's own property) are run with VERIF_REPO=<worktree>; every
     one must exit 0 — exit 1 is a FALSE ALARM candidate (to be analysed by hand: either the change does
     break the property after all, or the check demands more than the property states).
The result is recorded under /verif/benign/<NAME>/ (patch.diff, meta.json).
"""
import json
import os
import shutil
import subprocess
import sys
import time

V = os.path.dirname(os.path.dirname(os.path.abspath(__file__)))


def sh(cmd, cwd=None, timeout=3000, env=None):
    p = subprocess.run(cmd, cwd=cwd, stdout=subprocess.PIPE, stderr=subprocess.STDOUT, text=True, timeout=timeout, env=env)
    return p.returncode, p.stdout


def main():
    args = sys.argv[1:]
    name = args[0]
    pid = name.split("-")[0]
    src = None
    checks = [pid]
    seeds = [1, 2]
    suite = True
    i = 1
    while i < len(args):
        if args[i] == "--src":
            src = args[i + 1]; i += 2
        elif args[i] == "--checks":
            checks = args[i + 1].split(","); i += 2
        elif args[i] == "--seeds":
            seeds = [int(x) for x in args[i + 1].split(",")]; i += 2
        elif args[i] == "--no-suite":
            suite = False; i += 1
        else:
            i += 1
    if checks == ["all"]:
        checks = ["C%02d" % k for k in range(1, 49)]
    patch = os.path.join(src, "patch.diff")
    meta = json.load(open(os.path.join(src, "meta.json"))) if os.path.exists(os.path.join(src, "meta.json")) else {}
    wt = "/tmp/seed/bv-%s" % name
    head = sh(["git", "-C", "/repo", "rev-parse", "HEAD"])[1].strip()
    rc, out = sh(["git", "-C", "/repo", "worktree", "add", "-q", "--detach", wt, head])
    if rc:
        print(out); return 2
    result = {"verified_at_repo_commit": head[:7]}
    try:
        rc, out = sh(["git", "-C", wt, "apply", "--whitespace=nowarn", patch])
        result["patch_applies"] = rc == 0
        if rc:
            result["error"] = out[-400:]
        else:
            if suite:
                rcs, outs = sh([os.path.join(V, "tools", "baseline.py"), "--cwd", wt])
                missing = [l.split("MISSING", 1)[1].strip() for l in outs.splitlines() if "MISSING" in l]
                still = []
                for m in missing:
                    cls, tname = m.split("::")
                    mod = cls.rsplit(".", 1)[0].replace(".", "/") + ".py"
                    tid = "%s::%s::%s" % (mod, cls.rsplit(".", 1)[1], tname)
                    if not any(sh(["/venv/bin/python", "-m", "pytest", "-q", "-p", "no:cacheprovider", tid], cwd=wt, timeout=900)[0] == 0
                               for _ in range(3)):
                        still.append(m)
                result["suite_missing_after_rerun"] = still
                result["suite_ok"] = not still
            runs = {}
            alarms = []
            for c in checks:
                for sd in seeds:
                    t0 = time.time()
                    rcc, outc = sh([os.path.join(V, "check"), c, "--tier", "quick"], cwd=V,
                                   env=dict(os.environ, VERIF_REPO=wt, VERIF_NO_EVIDENCE="1", VERIF_SEED=str(sd)))
                    runs["%s@%d" % (c, sd)] = {"rc": rcc, "wall_s": round(time.time() - t0, 1)}
                    if rcc != 0:
                        lines = [l[:400] for l in outc.splitlines() if l.startswith("VIOLATION") or "clause=" in l][:4]
                        alarms.append({"check": c, "seed": sd, "rc": rcc, "lines": lines, "tail": outc[-1200:] if rcc != 1 else ""})
            result["runs"] = runs
            result["alarms"] = alarms
            result["quiet"] = not alarms
    finally:
        sh(["git", "-C", "/repo", "worktree", "remove", "--force", wt])
        fdir = os.path.join(V, "replays", "_found")
        for f in os.listdir(fdir) if os.path.isdir(fdir) else []:
            if any(f.startswith(c + "-") for c in checks):
                try:
                    os.unlink(os.path.join(fdir, f))
                except OSError:
                    pass
    dst = os.path.join(V, "benign", name)
    if result.get("patch_applies"):
        os.makedirs(dst, exist_ok=True)
        old = meta.get("verification", {}) if os.path.abspath(src) == os.path.abspath(dst) else {}
        for k in ("cross_runs", "cross_alarms", "suite_ok", "suite_missing_after_rerun"):
            if k in old and k not in result:
                result[k] = old[k]
        if os.path.abspath(src) != os.path.abspath(dst):
            shutil.copy(patch, os.path.join(dst, "patch.diff"))
        json.dump({"property": pid, "summary": meta.get("summary"), "observable_difference": meta.get("observable_difference"),
                   "why_property_still_holds": meta.get("why_property_still_holds"),
                   **({"alarm_analysis": meta["alarm_analysis"]} if meta.get("alarm_analysis") else {}), "verification": result},
                  open(os.path.join(dst, "meta.json"), "w"), indent=1)
    print(json.dumps(result, indent=1))
    return 0 if result.get("quiet") and result.get("suite_ok", True) else 1


if __name__ == "__main__":
    sys.exit(main())
