#!/bin/bash
# usage: tools/run_thorough.sh C01 C02 ...   (sequential; each check uses its 16 worker processes)
cd /verif; mkdir -p .work/thorough
for p in "$@"; do
  S=$(date +%s); VERIF_NO_EVIDENCE=1 ./check $p --tier thorough > .work/thorough/$p.log 2>&1; rc=$?; E=$(date +%s)
  echo "$p rc=$rc $((E-S))s $(grep -c '^VIOLATION' .work/thorough/$p.log) viol" >> .work/thorough/summary.txt
done
