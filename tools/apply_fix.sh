#!/bin/bash
# usage: tools/apply_fix.sh /tmp/fix/out/<finding-id>   -> applies patch.diff to /repo, runs the baseline, commits with message.txt
set -u
D=$1
cd /repo || exit 2
[ -z "$(git status --porcelain -- tornado)" ] || { echo "repo dirty"; exit 2; }
git apply --3way --whitespace=nowarn "$D/patch.diff" || { echo "APPLY FAILED $D"; git checkout -- .; git reset -q; exit 3; }
git reset -q   # --3way stages; unstage to keep a normal working-tree diff
head -1 "$D/message.txt" | grep -q '^fix: ' || { echo "bad message"; git checkout -- .; exit 4; }
/verif/tools/baseline.py > /tmp/fix/baseline-last.log 2>&1
# any stable_pass test missing from the full run is re-run alone (up to 3 times: the machine is loaded and a few
# tests have hard wall-clock limits); it must pass alone, otherwise the patch is rejected
for t in $(grep MISSING /tmp/fix/baseline-last.log | awk '{print $2}'); do
  cls=${t%%::*}; name=${t##*::}; mod=$(echo ${cls%.*} | tr . /).py
  ok=0
  for k in 1 2 3; do
    if /venv/bin/python -m pytest -q -p no:cacheprovider "$mod::${cls##*.}::$name" > /tmp/fix/rerun.log 2>&1; then ok=1; break; fi
  done
  if [ $ok = 0 ]; then
    # does it also fail on the unpatched HEAD right now (machine load)?  then it says nothing about the patch
    [ -d /tmp/fix/wt-clean ] || git -C /repo worktree add -q --detach /tmp/fix/wt-clean HEAD
    git -C /tmp/fix/wt-clean checkout -q -- . ; git -C /tmp/fix/wt-clean checkout -q --detach $(git -C /repo rev-parse HEAD)
    cleanfail=0
    for k in 1 2; do (cd /tmp/fix/wt-clean && /venv/bin/python -m pytest -q -p no:cacheprovider "$mod::${cls##*.}::$name" > /tmp/fix/rerun-clean.log 2>&1) || cleanfail=$((cleanfail+1)); done
    if [ $cleanfail = 2 ]; then echo "note: $t fails on the unpatched tree too (load-flaky), ignored"; else
      echo "TEST FAILS WITH PATCH: $t"; tail -5 /tmp/fix/rerun.log; git checkout -- .; exit 6; fi
  fi
done
git commit -q -a -F "$D/message.txt" && echo "COMMITTED $(git rev-parse --short HEAD) $(head -1 $D/message.txt)"
