#!/venv/bin/python
"""Fold known_findings.d/*.json into known_findings.json (run before committing)."""
import json, os
V = os.path.dirname(os.path.dirname(os.path.abspath(__file__)))
main = json.load(open(os.path.join(V, "known_findings.json")))
d = os.path.join(V, "known_findings.d")
ids = {f["id"] for f in main["findings"]}
if os.path.isdir(d):
    for fn in sorted(os.listdir(d)):
        if fn.endswith(".json"):
            for f in json.load(open(os.path.join(d, fn))).get("findings", []):
                if f["id"] in ids:
                    main["findings"] = [f if x["id"] == f["id"] else x for x in main["findings"]]
                else:
                    main["findings"].append(f); ids.add(f["id"])
            os.unlink(os.path.join(d, fn))
main["findings"].sort(key=lambda f: (f["property"], f["id"]))
json.dump(main, open(os.path.join(V, "known_findings.json"), "w"), indent=1)
print(len(main["findings"]), "findings")
