#!/venv/bin/python
"""Flip known-finding entries to status=fixed for every /tmp/fix/out/<dir> whose message.txt subject is a commit in /repo."""
import glob, json, os, subprocess
log = subprocess.check_output(["git", "-C", "/repo", "log", "--format=%h\t%s"], text=True).splitlines()
by_subject = {l.split("\t", 1)[1]: l.split("\t", 1)[0] for l in log}
closed = {}
for d in sorted(glob.glob("/tmp/fix/out/*/")):
    try:
        subj = open(d + "message.txt").readline().strip()
        meta = json.load(open(d + "meta.json"))
    except Exception as e:
        print("skip", d, e); continue
    h = by_subject.get(subj)
    if not h:
        continue
    for fid in meta.get("closes", [os.path.basename(d.rstrip("/"))]):
        closed[fid] = h
files = glob.glob("/verif/known_findings.d/*.json") + ["/verif/known_findings.json"]
n = 0
for f in files:
    data = json.load(open(f))
    ch = False
    for x in data["findings"]:
        if x["id"] in closed and x.get("status") == "open":
            x["status"] = "fixed"; x["commit"] = closed[x["id"]]
            w = x["what"]
            for pre in ("open: property=%s " % x["property"], "open: "):
                if w.startswith(pre): w = w[len(pre):]
            x["what"] = "fixed: property=%s %s %s" % (x["property"], closed[x["id"]], w)
            ch = True; n += 1
    if ch:
        tmp = f + ".tmp"; json.dump(data, open(tmp, "w"), indent=1); os.replace(tmp, f)
print("marked fixed:", n, "; closed ids known:", len(closed))
missing = [fid for fid in closed if not any(fid == x["id"] for f in files for x in json.load(open(f))["findings"])]
print("ids without entry:", missing)
