#!/venv/bin/python
"""Verify a seeded change produced by a sub-agent and record it under /verif/seeded/<ID>/.

usage: tools/seeded_verify.py <ID> [--src /tmp/seed/out/<ID>] [--worktree /tmp/seed/sv] [--no-suite] [--tier quick]

Steps (all in a scratch git worktree of /repo, never in /repo itself):
  1. demo.py exits 0 on the clean tree
  2. patch.diff applies; demo.py exits non-zero with it
  3. the pinned baseline suite still passes with it (stable_pass set; known load-flaky tests are re-run alone)
  4. our check for <ID> is run against the patched tree (VERIF_REPO=<worktree>) and the outcome recorded
"""
import json
import os
import shutil
import subprocess
import sys
import time

V = os.path.dirname(os.path.dirname(os.path.abspath(__file__)))


def sh(cmd, cwd=None, timeout=1800, env=None):
    p = subprocess.run(cmd, cwd=cwd, shell=isinstance(cmd, str), stdout=subprocess.PIPE, stderr=subprocess.STDOUT,
                       text=True, timeout=timeout, env=env)
    return p.returncode, p.stdout


def main():
    args = sys.argv[1:]
    pid = args[0]
    src = "/tmp/seed/out/%s" % pid
    wt = "/tmp/seed/sv-%s" % pid
    suite = True
    tier = "quick"
    dstname = None
    seeds = [1]
    also = []
    i = 1
    while i < len(args):
        if args[i] == "--src":
            src = args[i + 1]; i += 2
        elif args[i] == "--worktree":
            wt = args[i + 1]; i += 2
        elif args[i] == "--no-suite":
            suite = False; i += 1
        elif args[i] == "--tier":
            tier = args[i + 1]; i += 2
        elif args[i] == "--dst":
            dstname = args[i + 1]; i += 2
        elif args[i] == "--seeds":
            seeds = [int(x) for x in args[i + 1].split(",")]; i += 2
        elif args[i] == "--also":
            also = args[i + 1].split(","); i += 2
        else:
            i += 1
    patch = os.path.join(src, "patch.diff")
    demo = os.path.join(src, "demo.py")
    meta_path = os.path.join(src, "meta.json")
    meta = json.load(open(meta_path)) if os.path.exists(meta_path) else {}
    if meta.get("failed"):
        print("seeder reported failure:", meta["failed"])
        return 3
    created = False
    if not os.path.isdir(wt):
        rc, out = sh(["git", "-C", "/repo", "worktree", "add", "-q", "--detach", wt, "HEAD"])
        if rc:
            print(out); return 2
        created = True
    result = {"verified_at_repo_commit": sh(["git", "-C", "/repo", "rev-parse", "--short", "HEAD"])[1].strip()}
    try:
        sh(["git", "-C", wt, "checkout", "-q", "--detach", sh(["git", "-C", "/repo", "rev-parse", "HEAD"])[1].strip()])
        sh(["git", "-C", wt, "checkout", "--", "."])
        env = dict(os.environ, PYTHONPATH=wt)
        rc0, out0 = sh(["/venv/bin/python", demo], cwd=wt, timeout=300, env=env)
        result["demo_clean_rc"] = rc0
        rc, out = sh(["git", "-C", wt, "apply", "--whitespace=nowarn", patch])
        result["patch_applies"] = rc == 0
        if rc:
            print("patch does not apply:", out)
            result["error"] = out[-500:]
        else:
            rc1, out1 = sh(["/venv/bin/python", demo], cwd=wt, timeout=300, env=env)
            result["demo_patched_rc"] = rc1
            result["demo_patched_tail"] = out1[-600:]
            if suite:
                rcs, outs = sh([os.path.join(V, "tools", "baseline.py"), "--cwd", wt], timeout=3000)
                missing = [l.split("MISSING", 1)[1].strip() for l in outs.splitlines() if "MISSING" in l]
                still = []
                for m in missing:
                    cls, name = m.split("::")
                    mod = cls.rsplit(".", 1)[0].replace(".", "/") + ".py"
                    tid = "%s::%s::%s" % (mod, cls.rsplit(".", 1)[1], name)
                    ok_alone = False
                    for _try in range(3):
                        r, o = sh(["/venv/bin/python", "-m", "pytest", "-q", "-p", "no:cacheprovider", tid], cwd=wt, timeout=900)
                        if r == 0:
                            ok_alone = True
                            break
                    if not ok_alone:
                        # load-flaky?  compare with the unpatched tree at the same commit, right now
                        clean = "/tmp/seed/sv-clean-%s" % pid
                        sh(["git", "-C", "/repo", "worktree", "add", "-q", "--detach", clean, sh(["git", "-C", wt, "rev-parse", "HEAD"])[1].strip()])
                        fails = sum(1 for _k in range(2) if sh(["/venv/bin/python", "-m", "pytest", "-q", "-p", "no:cacheprovider", tid], cwd=clean, timeout=900)[0] != 0)
                        sh(["git", "-C", "/repo", "worktree", "remove", "--force", clean])
                        # tests with hard wall-clock limits fail at random on a loaded machine: one failure on the clean
                        # tree, right now, is enough to say the failure says nothing about the patch
                        load_flaky = any(x in m for x in ("test_multi_process", "AutoreloadTest::test_reload", "linear_performance",
                                                           "test_request_timeout", "ThreadedResolverImportTest"))
                        if fails == 2 or (load_flaky and fails >= 1):
                            result.setdefault("suite_flaky_on_clean_tree_too", []).append(m)
                        else:
                            still.append(m)
                result["suite_missing_first_run"] = missing
                result["suite_missing_after_rerun"] = still
                result["suite_ok"] = not still
            per_seed = {}
            first = None
            for sd in seeds:
                t0 = time.time()
                rcc, outc = sh([os.path.join(V, "check"), pid, "--tier", tier], cwd=V, timeout=3000,
                               env=dict(os.environ, VERIF_REPO=wt, VERIF_NO_EVIDENCE="1", VERIF_SEED=str(sd)))
                viol = [l for l in outc.splitlines() if l.startswith("VIOLATION") or l.strip().startswith("clause=")]
                per_seed[str(sd)] = {"rc": rcc, "wall_s": round(time.time() - t0, 1)}
                if first is None or (rcc == 1 and first[0] != 1):
                    first = (rcc, viol, outc, round(time.time() - t0, 1))
            rcc, viol, outc, wall = first
            result["check_tier"] = tier
            result["check_rc"] = rcc
            result["check_wall_s"] = wall
            result["check_per_seed"] = per_seed
            result["check_violation_lines"] = [v[:300] for v in viol[:6]]
            result["detected"] = rcc == 1
            result["detected_at_every_seed"] = all(v["rc"] == 1 for v in per_seed.values())
            if rcc not in (0, 1):
                result["check_output_tail"] = outc[-1500:]
            for other in also:
                r2, o2 = sh([os.path.join(V, "check"), other, "--tier", tier], cwd=V, timeout=3000,
                            env=dict(os.environ, VERIF_REPO=wt, VERIF_NO_EVIDENCE="1"))
                result.setdefault("also_checked", {})[other] = {"rc": r2, "lines": [l[:300] for l in o2.splitlines() if "clause=" in l][:2]}
                if r2 == 1:
                    result["detected_by_related_check"] = other
    finally:
        sh(["git", "-C", wt, "checkout", "--", "."])
        # evidence files must come from the unchanged tree: restore by re-running nothing here, caller re-runs checks
        if created:
            sh(["git", "-C", "/repo", "worktree", "remove", "--force", wt])
        for f in os.listdir(os.path.join(V, "replays", "_found")) if os.path.isdir(os.path.join(V, "replays", "_found")) else []:
            if f.startswith(pid + "-"):
                try:
                    os.unlink(os.path.join(V, "replays", "_found", f))
                except OSError:
                    pass
    ok = result.get("demo_clean_rc") == 0 and result.get("patch_applies") and result.get("demo_patched_rc", 0) != 0 and \
        (result.get("suite_ok", True))
    result["confirmed"] = bool(ok)
    dst = os.path.join(V, "seeded", dstname or pid)
    if ok:
        os.makedirs(dst, exist_ok=True)
        if os.path.abspath(src) != os.path.abspath(dst):
            shutil.copy(patch, os.path.join(dst, "patch.diff"))
            shutil.copy(demo, os.path.join(dst, "demo.py"))
        elif not suite and "suite_ok" in meta.get("verification", {}):
            # in-place re-verification without the suite: keep the earlier suite record
            for k in ("suite_ok", "suite_missing_first_run", "suite_missing_after_rerun", "suite_flaky_on_clean_tree_too"):
                if k in meta["verification"]:
                    result.setdefault(k, meta["verification"][k])
        meta_out = {"property": pid, "summary": meta.get("summary"), "needs": meta.get("needs"),
                    "seeder_ran": meta.get("seeder_ran", meta.get("ran")), "verification": result}
        old_dst = os.path.join(dst, "meta.json")
        if os.path.exists(old_dst):  # keep our own annotations across re-verification
            try:
                od = json.load(open(old_dst))
                for k in ("judgement", "obsolete"):
                    if od.get(k) and k not in meta_out:
                        meta_out[k] = od[k]
            except ValueError:
                pass
        json.dump(meta_out, open(os.path.join(dst, "meta.json"), "w"), indent=1)
    print(json.dumps(result, indent=1))
    return 0 if ok else 1


if __name__ == "__main__":
    sys.exit(main())
