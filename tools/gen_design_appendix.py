#!/venv/bin/python
"""Regenerate the generated parts of DESIGN.md (between <!-- GEN:x --> markers): findings table, per-check sensitivity
notes (from module docstrings) and the seeded-change table (from seeded/*/meta.json)."""
import ast, glob, json, os, re, subprocess
V = os.path.dirname(os.path.dirname(os.path.abspath(__file__)))

def findings():
    d = json.load(open(os.path.join(V, "known_findings.json")))["findings"]
    out = ["| id | property | status | commit | what failed (failing input class) | replay |", "|---|---|---|---|---|---|"]
    for f in sorted(d, key=lambda x: (x["property"], x["id"])):
        what = re.sub(r"^(fixed|open): property=\S+ (\S+ )?", "", f["what"]).replace("|", "\\|")
        out.append("| %s | %s | %s | %s | %s | `%s` |" % (f["id"], f["property"], f["status"], f.get("commit", ""), what[:300], f.get("replay", "")))
    n_open = sum(1 for f in d if f["status"] == "open")
    return "%d findings recorded: %d repaired by `fix:` commits, %d open.\n\n" % (len(d), len(d) - n_open, n_open) + "\n".join(out)

def sensitivity():
    out = []
    for fn in sorted(glob.glob(os.path.join(V, "checks", "c*.py"))):
        doc = ast.get_docstring(ast.parse(open(fn).read())) or ""
        m = re.search(r"(?im)^\s*(sensitivity|mutants?)\b.*$", doc)
        pid = os.path.basename(fn)[:3].upper()
        if not m:
            out.append("**%s** — (see module docstring of `checks/%s`)\n" % (pid, os.path.basename(fn)))
            continue
        text = doc[m.start():].strip()
        # cut at next heading-like blank-line-separated block that is not part of the list (keep at most 40 lines)
        text = "".join(c if (c.isprintable() or c in "\n\t") else "\\x%02x" % ord(c) for c in text)
        lines = text.splitlines()[:45]
        out.append("**%s** (`checks/%s`)\n\n```\n%s\n```\n" % (pid, os.path.basename(fn), "\n".join(lines)))
    return "\n".join(out)

def seeded():
    rows = ["| seeded dir | property | change | needs | demo clean/patched | suite | our check (tier) | detected |", "|---|---|---|---|---|---|---|---|"]
    tot = det = 0
    for d in sorted(glob.glob(os.path.join(V, "seeded", "*"))):
        mp = os.path.join(d, "meta.json")
        if not os.path.exists(mp):
            continue
        m = json.load(open(mp)); v = m.get("verification", {})
        if m.get("obsolete"):
            rows.append("| %s | %s | %s | %s | - | - | - | obsolete: %s |" % (os.path.basename(d), m.get("property"), (m.get("summary") or "").replace("|", "\\|")[:260],
                        (m.get("needs") or "").replace("|", "\\|")[:120], m["obsolete"]))
            continue
        tot += 1; det += 1 if (v.get("detected") or v.get("detected_by_related_check")) else 0
        clause = ""
        for l in v.get("check_violation_lines", []):
            mm = re.search(r"clause=(\S+)", l)
            if mm: clause = mm.group(1); break
        rows.append("| %s | %s | %s | %s | %s/%s | %s | %s | %s |" % (
            os.path.basename(d), m.get("property"), (m.get("summary") or "").replace("|", "\\|")[:260], (m.get("needs") or "").replace("|", "\\|")[:220],
            v.get("demo_clean_rc"), v.get("demo_patched_rc"), "pass" if v.get("suite_ok", True) else "FAIL",
            v.get("check_tier"),
            (("yes: `%s`" % clause) + ((" (seeds %s)" % ",".join(k for k, x in v.get("check_per_seed", {}).items() if x.get("rc") == 1)) if v.get("check_per_seed") else ""))
            if v.get("detected") else (("by related check %s" % v["detected_by_related_check"]) if v.get("detected_by_related_check") else ("**no**" + ((" — " + m["judgement"]) if m.get("judgement") else "")))))
    return "%d independently seeded changes kept (confirmed by us: demo passes clean / fails patched, suite green), %d detected by the quick tier of the property's check.\n\n" % (tot, det) + "\n".join(rows)

def benign():
    rows = ["| dir | property | change | observable difference | suite | own check (seeds) | other checks run | alarms |", "|---|---|---|---|---|---|---|---|"]
    tot = quiet = pairs = 0
    for d in sorted(glob.glob(os.path.join(V, "benign", "*"))):
        mp = os.path.join(d, "meta.json")
        if not os.path.exists(mp):
            continue
        m = json.load(open(mp)); v = m.get("verification", {})
        tot += 1
        alarms = list(v.get("alarms", [])) + list(v.get("cross_alarms", []))
        note = m.get("alarm_analysis")
        quiet += 0 if alarms else 1
        pairs += len(v.get("runs", {})) + len(v.get("cross_runs", {}))
        rows.append("| %s | %s | %s | %s | %s | %s | %d | %s |" % (
            os.path.basename(d), m.get("property"), (m.get("summary") or "").replace("|", "\\|").replace("\n", " ")[:240],
            (m.get("observable_difference") or "").replace("|", "\\|").replace("\n", " ")[:160],
            "pass" if v.get("suite_ok", True) else "FAIL",
            ",".join(sorted({k.split("@")[1] for k in v.get("runs", {})})), len(v.get("cross_runs", {})),
            ("none" if not alarms else "; ".join("%s rc=%s" % (a.get("check"), a.get("rc")) for a in alarms)) + ((" — " + note) if note else "")))
    return ("%d property-preserving changes written by sub-agents that saw only the property text; %d check runs against them; "
            "%d changes raised no alarm in any run.\n\n" % (tot, pairs, quiet)) + "\n".join(rows)

def main():
    p = os.path.join(V, "DESIGN.md")
    s = open(p).read()
    for name, fn in (("findings", findings), ("sensitivity", sensitivity), ("seeded", seeded), ("benign", benign)):
        a, b = "<!-- GEN:%s -->" % name, "<!-- /GEN:%s -->" % name
        if a in s and b in s:
            i, j = s.index(a) + len(a), s.index(b)
            s = s[:i] + "\n" + fn() + "\n" + s[j:]
    open(p, "w").write(s)

if __name__ == "__main__":
    main()
