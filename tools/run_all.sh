#!/bin/bash
# usage: tools/run_all.sh [tier] [jobs]  -> summary of every claimed check on the current tree
TIER=${1:-quick}; JOBS=${2:-4}
cd /verif
ls checks/c*.py | sed 's/.*\/c\([0-9]*\)_.*/C\1/' | xargs -P $JOBS -I{} sh -c 'S=$(date +%s); ./check {} --tier '$TIER' > .work/all-{}.log 2>&1; rc=$?; E=$(date +%s); echo "{} rc=$rc $((E-S))s $(grep -c "^VIOLATION" .work/all-{}.log) viol $(grep -c "^KNOWN-FINDING" .work/all-{}.log) known"' | sort
