#!/venv/bin/python
"""Cross-run: every recorded property-preserving change (/verif/benign/<NAME>/patch.diff) against every check
whose property is anchored in a file the change touches (beyond its own check, which benign_verify.py ran).

usage: tools/benign_cross.py [--jobs 10] [--seed 1] [NAME ...]
Appends "cross_runs" / "cross_alarms" to benign/<NAME>/meta.json.  Any rc != 0 is a false-alarm candidate.
"""
import concurrent.futures as cf
import json
import os
import re
import subprocess
import sys

V = os.path.dirname(os.path.dirname(os.path.abspath(__file__)))


CORE = {"tornado/iostream.py", "tornado/http1connection.py", "tornado/httputil.py", "tornado/gen.py", "tornado/concurrent.py",
        "tornado/ioloop.py", "tornado/platform/asyncio.py", "tornado/util.py", "tornado/web.py", "tornado/httpserver.py"}


def sh(cmd, **kw):
    p = subprocess.run(cmd, stdout=subprocess.PIPE, stderr=subprocess.STDOUT, text=True, **kw)
    return p.returncode, p.stdout


def main():
    args = sys.argv[1:]
    jobs, seed, names = 10, 1, []
    i = 0
    while i < len(args):
        if args[i] == "--jobs":
            jobs = int(args[i + 1]); i += 2
        elif args[i] == "--seed":
            seed = int(args[i + 1]); i += 2
        else:
            names.append(args[i]); i += 1
    props = [json.loads(l) for l in open(os.path.join(V, "properties.jsonl"))]
    by_file = {}
    for p in props:
        for f in p["anchors"].get("files", []):
            by_file.setdefault(f, set()).add(p["id"])
    bdir = os.path.join(V, "benign")
    names = names or sorted(os.listdir(bdir))
    head = sh(["git", "-C", "/repo", "rev-parse", "HEAD"])[1].strip()
    plan = []
    for nm in names:
        patch = os.path.join(bdir, nm, "patch.diff")
        if not os.path.exists(patch):
            continue
        touched = set(re.findall(r"^\+\+\+ b/(\S+)", open(patch).read(), re.M))
        rel = set()
        for f in touched:
            rel |= by_file.get(f, set())
            if f in CORE:  # everything is built on these: run every check
                rel |= {p["id"] for p in props}
        rel.discard(nm.split("-")[0])
        wt = "/tmp/seed/bx-%s" % nm
        sh(["git", "-C", "/repo", "worktree", "remove", "--force", wt])
        rc, out = sh(["git", "-C", "/repo", "worktree", "add", "-q", "--detach", wt, head])
        rc, out = sh(["git", "-C", wt, "apply", "--whitespace=nowarn", patch])
        if rc:
            print(nm, "patch does not apply", out[-200:])
            sh(["git", "-C", "/repo", "worktree", "remove", "--force", wt])
            continue
        plan.append((nm, wt, sorted(rel)))

    def run(nm, wt, c):
        rc, out = sh([os.path.join(V, "check"), c, "--tier", "quick"], cwd=V, timeout=3000,
                     env=dict(os.environ, VERIF_REPO=wt, VERIF_NO_EVIDENCE="1", VERIF_SEED=str(seed)))
        lines = [l[:400] for l in out.splitlines() if l.startswith("VIOLATION") or "clause=" in l][:4]
        return nm, c, rc, lines, (out[-1200:] if rc not in (0, 1) else "")

    results = {}
    with cf.ThreadPoolExecutor(jobs) as ex:
        futs = [ex.submit(run, nm, wt, c) for nm, wt, rel in plan for c in rel]
        for f in cf.as_completed(futs):
            nm, c, rc, lines, tail = f.result()
            results.setdefault(nm, {})[c] = {"rc": rc, "lines": lines, "tail": tail}
            if rc != 0:
                print("ALARM", nm, c, rc, lines[:2], tail[-300:], flush=True)
    for nm, wt, rel in plan:
        sh(["git", "-C", "/repo", "worktree", "remove", "--force", wt])
        mp = os.path.join(bdir, nm, "meta.json")
        m = json.load(open(mp))
        r = results.get(nm, {})
        m["verification"]["cross_runs"] = {"%s@%d" % (c, seed): v["rc"] for c, v in sorted(r.items())}
        m["verification"]["cross_alarms"] = [dict(check=c, **v) for c, v in sorted(r.items()) if v["rc"] != 0]
        json.dump(m, open(mp, "w"), indent=1)
    print("pairs run:", sum(len(r) for r in results.values()), "alarms:", sum(1 for r in results.values() for v in r.values() if v["rc"] != 0))


if __name__ == "__main__":
    main()
