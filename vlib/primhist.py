"""Helpers shared by the synchronisation-primitive history checks (C33, C34, C35).

A *history* is a plain-data op list interpreted on the virtual-time loop (vlib/vtime.py) against a real
tornado.locks / tornado.queues object and a sequential reference model.  This module supplies the
pieces that are the same for every primitive:

* timeout specifications (plain data -> the argument handed to Tornado, and the model's deadline);
* future classification without ever awaiting (``fstate``);
* clock control beyond ``vtime.advance``: ``jump`` (time passes while a callback is running: the
  clock moves, the loop does not run, due timers stay unfired) and ``step`` (one loop iteration);
* Hypothesis strategies for timeouts and time steps.  Every duration is a multiple of 0.25 so sums at
  epoch-scale virtual time are exact in binary floating point and "a deadline exactly at the instant
  of a release" is reproducible.
"""
from __future__ import annotations

import asyncio
import datetime

from hypothesis import strategies as st

from tornado.ioloop import IOLoop
from tornado.util import TimeoutError as TornadoTimeoutError

PENDING = "pending"
CANCELLED = "cancelled"
TIMEOUT = "timeout"
RESULT = "result"
ERROR = "error"

NEVER = float("inf")
PAST = float("-inf")

DURATIONS = [-1.0, 0.0, 0.25, 0.5, 1.0, 1.5, 2.0, 3.0]
STEPS = [0.25, 0.5, 1.0, 1.5, 2.0]


def timeout_s(none_weight=1):
    """None | ("abs", d) | ("td", d) | ("zero",)"""
    d = st.sampled_from(DURATIONS)
    alts = [st.none()] * none_weight + [
        st.tuples(st.just("abs"), d),
        st.tuples(st.just("td"), d),
        st.tuples(st.just("abs"), d),
        st.tuples(st.just("td"), d),
        st.just(("zero",)),
    ]
    return st.one_of(*alts)


def some_timeout_s():
    d = st.sampled_from(DURATIONS)
    return st.one_of(st.tuples(st.just("abs"), d), st.tuples(st.just("td"), d), st.just(("zero",)))


def now():
    return asyncio.get_running_loop().time()


def timeout_arg(spec):
    """(argument for Tornado, model deadline) for a timeout spec evaluated at the current virtual time."""
    if spec is None:
        return None, NEVER
    t = IOLoop.current().time()
    if spec[0] == "abs":
        return t + spec[1], t + spec[1]
    if spec[0] == "td":
        return datetime.timedelta(seconds=spec[1]), t + spec[1]
    if spec[0] == "zero":  # the literal 0: an absolute deadline long past ("return or raise immediately")
        return 0, PAST
    raise ValueError(spec)


def is_tie_form(spec):
    return spec is not None and (spec[0] == "zero" or spec[1] <= 0)


def fstate(fut):
    """Classify a future without awaiting it: (PENDING,), (CANCELLED,), (TIMEOUT,), (RESULT, value),
    (ERROR, exception).  Retrieves the exception so nothing is logged at garbage collection."""
    if not fut.done():
        return (PENDING,)
    if fut.cancelled():
        return (CANCELLED,)
    e = fut.exception()
    if e is None:
        return (RESULT, fut.result())
    if isinstance(e, TornadoTimeoutError):
        return (TIMEOUT,)
    return (ERROR, e)


def jump(dt):
    """Time passes while a callback runs: move the clock, do not run the loop (due timers stay unfired)."""
    loop = asyncio.get_running_loop()
    loop._now = loop._now + dt


async def step():
    """One yield to the loop.  Timers that are due may or may not have fired when this returns (the
    harness task's wake-up can be queued ahead of them) - callers treat that as EITHER."""
    await asyncio.sleep(0)


def drain(futs):
    """End of case: retrieve every outcome so asyncio logs nothing."""
    for f in futs:
        if f.done() and not f.cancelled():
            f.exception()
        elif not f.done():
            f.cancel()
