"""Baton scheduler: real threads that run strictly one at a time, switching only at instrumented points.

The harness thread (the "actor") creates a ``Sched``; every other participant is a ``Sched.Thread``
(a ``threading.Thread`` subclass) started by code under test.  Exactly one participant holds the baton
and executes; at an instrumented *point* it parks with a readiness predicate and the scheduler hands
the baton to one of the parked participants whose predicate is true, as told by a generated list of
choices (``schedule``).  Decisions are only taken when every live participant is parked, so a run is a
deterministic function of (program, schedule).

Instrumented primitives built on ``point``:

* ``Sched.Condition()`` — drop-in for ``threading.Condition`` (``with``, ``wait``, ``notify``): acquire is a
  point that is ready while the lock is free; ``wait`` releases, parks until notified *and* the lock is
  free; the owner is tracked so that ``held_by_me()`` can back lock-discipline probes;
* ``Sched.Thread`` — ``start`` registers the new participant and waits until it is parked at its first
  point; ``join`` is a point that is ready when the target has finished;
* ``sched.point(label, ready)`` — anything else (a scripted ``select``, ``call_soon_threadsafe`` ...).

Deadlock = a decision with no ready participant.  It is recorded (``sched.deadlock`` describes who
waits for what), every participant is woken with ``Abort`` (a BaseException) so that all threads unwind,
and the actor sees ``Abort`` too.  ``sched.abort()`` does the same on demand (end of a failed case).
Real-time waits inside the scheduler only guard against harness bugs (``HarnessError``), never decide
an outcome.
"""
from __future__ import annotations

import threading

from vlib.runner import HarnessError

WAIT_S = 60.0


class Abort(BaseException):
    """Unwinds a participant when the run is abandoned (deadlock found or case finished)."""


class Sched:
    def __init__(self, schedule=(), name="actor", tail_policy="stay"):
        self.mu = threading.Condition()
        self.schedule = list(schedule)
        self.tail_policy = tail_policy  # after the schedule is used up: "stay" on the current thread or "switch"
        self.pos = 0
        self.order = []  # participant ids in registration order (actor first)
        self.st = {}  # id -> dict(status, ready, label, name)
        self.me0 = threading.get_ident()
        self._register(self.me0, name, "running")
        self.turn = self.me0
        self.aborting = False
        self.deadlock = None
        self.trace = []  # (participant name, label) in baton order
        self.switches = 0
        self.fair = False  # completion mode: always prefer another ready participant
        self.thread_errors = []
        self.steps = 0
        self.max_steps = 200000
        self._pending_start = None
        outer = self

        class _Thread(threading.Thread):
            """threading.Thread whose body is a participant."""

            def __init__(self, *a, **kw):
                super().__init__(*a, **kw)
                self.finished = False

            def start(self):
                outer._starting(self)
                super().start()
                outer._wait_parked(self)

            def run(self):
                me = threading.get_ident()
                try:
                    outer._first_park(me)
                    super().run()
                except Abort:
                    pass
                except BaseException as e:  # noqa: BLE001 - reported by the check
                    outer.thread_errors.append(repr(e))
                finally:
                    self.finished = True
                    outer._finish(me)

            def join(self, timeout=None):
                outer.point("join", lambda: self.finished)
                threading.Thread.join(self, WAIT_S)
                if self.is_alive():
                    raise HarnessError("instrumented thread finished but did not exit")

        self.Thread = _Thread

    # ------------------------------------------------------------------ participants
    def _register(self, ident, name, status):
        self.order.append(ident)
        self.st[ident] = {"status": status, "ready": None, "label": None, "name": name}

    def name_of(self, ident=None):
        ident = threading.get_ident() if ident is None else ident
        s = self.st.get(ident)
        return s["name"] if s else "thread-%d" % ident

    def is_actor(self):
        return threading.get_ident() == self.me0

    def _starting(self, thread):
        with self.mu:
            self._pending_start = thread

    def _first_park(self, me):
        """Called in the new thread: register, park at 'thread_start' and wait for the baton."""
        with self.mu:
            t = self._pending_start
            self._register(me, t.name or "thread", "parked")
            self.st[me]["ready"] = lambda: True
            self.st[me]["label"] = "thread_start"
            self._pending_start = None
            self.mu.notify_all()
            self._await_turn(me)

    def _wait_parked(self, thread):
        with self.mu:
            while self._pending_start is not None:
                if not self.mu.wait(WAIT_S):
                    raise HarnessError("started thread never reached its first point")

    def _await_turn(self, me):
        while self.turn != me and not self.aborting:
            if not self.mu.wait(WAIT_S):
                raise HarnessError("baton lost: %s waited %.0fs" % (self.name_of(me), WAIT_S))
        if self.aborting and self.turn != me:
            raise Abort()
        self.st[me]["status"] = "running"

    def _ready_list(self):
        out = []
        for ident in self.order:
            s = self.st[ident]
            if s["status"] == "parked" and s["ready"]():
                out.append(ident)
        return out

    def _choose(self, me):
        ready = self._ready_list()
        if not ready:
            return None
        if self.fair:
            others = [r for r in ready if r != me]
            return others[0] if others else ready[0]
        if len(ready) == 1:
            return ready[0]
        if self.pos < len(self.schedule):
            c = self.schedule[self.pos]
            self.pos += 1
            return ready[c % len(ready)]
        if self.tail_policy == "switch":
            others = [r for r in ready if r != me]
            return others[0] if others else ready[0]
        return me if me in ready else ready[0]

    def _describe(self):
        return [{"who": self.st[i]["name"], "status": self.st[i]["status"], "at": self.st[i]["label"]} for i in self.order]

    def _hand_over(self, me):
        """mu held.  Pick the next participant; deadlock if there is none."""
        nxt = self._choose(me)
        if nxt is None:
            if any(self.st[i]["status"] == "parked" for i in self.order):
                self.deadlock = self._describe()
            self.aborting = True
            self.turn = None
            self.mu.notify_all()
            return None
        if nxt != me:
            self.switches += 1
        self.turn = nxt
        self.mu.notify_all()
        return nxt

    # ------------------------------------------------------------------ the primitive
    def point(self, label, ready=None):
        """Park the calling participant at an instrumented point until the scheduler picks it."""
        me = threading.get_ident()
        with self.mu:
            if self.aborting:
                raise Abort()
            if self.turn != me:
                raise HarnessError("point(%s) reached by %s without the baton" % (label, self.name_of(me)))
            self.steps += 1
            if self.steps > self.max_steps:
                raise HarnessError("scheduler step budget exceeded")
            s = self.st[me]
            s["status"], s["ready"], s["label"] = "parked", (ready or (lambda: True)), label
            self.trace.append((s["name"], label))
            if self._hand_over(me) is None:
                raise Abort()
            self._await_turn(me)

    def _finish(self, me):
        with self.mu:
            s = self.st.get(me)
            if s is None:
                return
            s["status"] = "finished"
            self.trace.append((s["name"], "thread_exit"))
            if self.aborting:
                self.mu.notify_all()
                return
            if self.turn == me:
                self._hand_over(me)

    def others_ready(self):
        """True if a participant other than the caller could run now."""
        me = threading.get_ident()
        with self.mu:
            return any(i != me for i in self._ready_list())

    def live_others(self):
        me = threading.get_ident()
        return [self.st[i] for i in self.order if i != me and self.st[i]["status"] != "finished"]

    def abort(self):
        """Wake every parked participant with Abort (the actor keeps running)."""
        with self.mu:
            self.aborting = True
            self.mu.notify_all()

    def drain_threads(self, threads):
        for t in threads:
            threading.Thread.join(t, WAIT_S)
            if t.is_alive():
                raise HarnessError("participant thread did not unwind after abort")

    # ------------------------------------------------------------------ condition variable
    def Condition(self):
        return _Cond(self)


class _Cond:
    """threading.Condition look-alike driven by the baton scheduler."""

    def __init__(self, sched):
        self.sched = sched
        self.owner = None
        self.waiters = []  # [ident, notified]
        self.log = []

    def held_by_me(self):
        return self.owner == threading.get_ident()

    def acquire(self, blocking=True, timeout=-1):
        self.sched.point("cond_acquire", lambda: self.owner is None)
        if self.owner is not None:
            raise HarnessError("instrumented lock granted while held")
        self.owner = threading.get_ident()
        return True

    def release(self):
        if self.owner != threading.get_ident():
            raise RuntimeError("cannot release un-acquired lock")
        self.owner = None

    def __enter__(self):
        self.acquire()
        return self

    def __exit__(self, *exc):
        if self.owner == threading.get_ident():
            self.owner = None
        return False

    def wait(self, timeout=None):
        me = threading.get_ident()
        if self.owner != me:
            raise RuntimeError("cannot wait on un-acquired lock")
        w = [me, False]
        self.waiters.append(w)
        self.owner = None
        self.sched.point("cond_wait", lambda: w[1] and self.owner is None)
        self.owner = me
        return True

    def notify(self, n=1):
        if self.owner != threading.get_ident():
            raise RuntimeError("cannot notify on un-acquired lock")
        for w in self.waiters[:n]:
            w[1] = True
        del self.waiters[:n]

    def notify_all(self):
        self.notify(len(self.waiters))

    def waiting(self):
        return [w[0] for w in self.waiters]
