"""Independent WebSocket reference: RFC 6455 framing + RFC 7692 permessage-deflate.

Written from the RFC text with ``struct``/``zlib``/``hashlib`` only (no Tornado code).  Two halves:

* **encoder** -- ``encode_frame`` (any header bits, any length form, optional mask) and
  ``encode_message`` (generated fragmentation, RSV1 on the first fragment only, per-message
  compression through a ``Deflater`` that models context takeover / window bits);
* **strict decoder** -- ``Decoder.feed(bytes)`` turns a byte stream into ``frames`` and ``events``
  (messages, pings, pongs, close) and stops at the first protocol violation with a verdict string in
  ``Decoder.error`` (RFC 6455 5.2 header rules incl. minimal length encoding, 5.4 fragmentation,
  5.5 control frames, 8.1 UTF-8, RFC 7692 6/7 RSV1 rules and inflate errors).

Base framing (RFC 6455 5.2)::

     byte 0:  FIN | RSV1 | RSV2 | RSV3 | opcode(4)
     byte 1:  MASK | len7        len7 == 126 -> 16-bit length follows, 127 -> 64-bit (MSB 0)
     [4-byte masking key]  payload (XOR key[i mod 4])
"""
from __future__ import annotations

import base64
import hashlib
import struct
import zlib

OP_CONT, OP_TEXT, OP_BINARY, OP_CLOSE, OP_PING, OP_PONG = 0x0, 0x1, 0x2, 0x8, 0x9, 0xA
DATA_OPCODES = (OP_TEXT, OP_BINARY)
CONTROL_OPCODES = (OP_CLOSE, OP_PING, OP_PONG)
GUID = "258EAFA5-E914-47DA-95CA-C5AB0DC85B11"  # RFC 6455 1.3
TAIL = b"\x00\x00\xff\xff"  # RFC 7692 7.2.1: the empty stored block removed from / re-appended to each message


class RefError(Exception):
    pass


# --------------------------------------------------------------------------- handshake
def accept_value(key: str) -> str:
    """RFC 6455 4.2.2 step 5.4: base64(SHA-1(key as sent ++ GUID))."""
    if isinstance(key, bytes):
        key = key.decode("latin-1")
    return base64.b64encode(hashlib.sha1((key + GUID).encode("latin-1")).digest()).decode("ascii")


def valid_key(key: str) -> bool:
    """A |Sec-WebSocket-Key| is a base64-encoded 16-byte value (RFC 6455 4.1 / 4.2.1 item 5)."""
    try:
        raw = base64.b64decode(key.encode("ascii"), validate=True)
    except Exception:
        return False
    return len(raw) == 16 and base64.b64encode(raw).decode() == key


# --------------------------------------------------------------------------- masking
def apply_mask(mask: bytes, data: bytes) -> bytes:
    """RFC 6455 5.3: transformed[i] = original[i] XOR key[i mod 4] (self-inverse)."""
    n = len(data)
    if n == 0:
        return b""
    if len(mask) != 4:
        raise RefError("mask must be 4 bytes")
    key = (mask * (n // 4 + 1))[:n]
    return (int.from_bytes(data, "big") ^ int.from_bytes(key, "big")).to_bytes(n, "big")


# --------------------------------------------------------------------------- frames
class Frame:
    __slots__ = ("fin", "rsv1", "rsv2", "rsv3", "opcode", "masked", "mask", "payload", "len_form", "start", "end")

    def __init__(self, fin, rsv1, rsv2, rsv3, opcode, masked, mask, payload, len_form, start=0, end=0):
        self.fin, self.rsv1, self.rsv2, self.rsv3 = fin, rsv1, rsv2, rsv3
        self.opcode, self.masked, self.mask, self.payload = opcode, masked, mask, payload
        self.len_form = len_form  # 7, 16 or 64: which length encoding was used
        self.start, self.end = start, end  # byte offsets in the decoded stream

    def brief(self):
        return {
            "fin": int(self.fin), "rsv": (int(self.rsv1) << 2) | (int(self.rsv2) << 1) | int(self.rsv3),
            "op": self.opcode, "masked": int(self.masked), "len": len(self.payload), "len_form": self.len_form,
            "head": bytes(self.payload[:16]),
        }

    def __repr__(self):
        return "<Frame %r>" % (self.brief(),)


def minimal_len_form(n: int) -> int:
    return 7 if n <= 125 else (16 if n <= 0xFFFF else 64)


def encode_frame(opcode, payload=b"", fin=True, rsv1=False, rsv2=False, rsv3=False, mask=None, len_form=None) -> bytes:
    """Serialise one frame.  `mask` None -> unmasked; `len_form` 16/64 forces a (possibly non-minimal)
    extended length encoding.  Nothing is validated: violations are built with this too."""
    payload = bytes(payload)
    n = len(payload)
    b0 = (0x80 if fin else 0) | (0x40 if rsv1 else 0) | (0x20 if rsv2 else 0) | (0x10 if rsv3 else 0) | (opcode & 0x0F)
    if len_form is None:
        len_form = minimal_len_form(n)
    mbit = 0x80 if mask is not None else 0
    if len_form == 7:
        if n > 125:
            raise RefError("7-bit length form cannot carry %d bytes" % n)
        head = struct.pack("!BB", b0, mbit | n)
    elif len_form == 16:
        if n > 0xFFFF:
            raise RefError("16-bit length form cannot carry %d bytes" % n)
        head = struct.pack("!BBH", b0, mbit | 126, n)
    elif len_form == 64:
        head = struct.pack("!BBQ", b0, mbit | 127, n)
    else:
        raise RefError("bad len_form")
    if mask is not None:
        return head + bytes(mask) + apply_mask(bytes(mask), payload)
    return head + payload


def close_payload(code=None, reason=b"") -> bytes:
    """RFC 6455 5.5.1: empty, or 2-byte code followed by UTF-8 reason."""
    if code is None:
        return b""
    if isinstance(reason, str):
        reason = reason.encode("utf-8")
    return struct.pack("!H", code) + reason


def split_at(data: bytes, cuts) -> list:
    """Fragments of `data` at the given offsets (sorted, clipped; repeated offsets give empty fragments)."""
    pts = sorted(min(max(int(c), 0), len(data)) for c in cuts)
    out, prev = [], 0
    for p in pts:
        out.append(data[prev:p])
        prev = p
    out.append(data[prev:])
    return out


# --------------------------------------------------------------------------- permessage-deflate
class Deflater:
    """Sender side of RFC 7692 7.2.1.  One LZ77 context for the connection unless
    `no_context_takeover`; window = 2**wbits (9..15)."""

    def __init__(self, no_context_takeover=False, wbits=15, level=6, mem_level=8, flush="sync"):
        if not 9 <= wbits <= 15:
            raise RefError("reference deflater supports window bits 9..15")
        self.nct, self.wbits, self.level, self.mem_level = no_context_takeover, wbits, level, mem_level
        self.flush = flush
        self._z = None

    def _new(self):
        return zlib.compressobj(self.level, zlib.DEFLATED, -self.wbits, self.mem_level)

    def snapshot(self):
        """LZ77 context as of now (to undo a compress_message whose output is not sent after all)."""
        return self._z.copy() if self._z is not None else None

    def restore(self, snap):
        self._z = snap

    def reset(self):
        """Drop the LZ77 context: the next message starts from an empty window (always legal for a sender)."""
        self._z = None

    def compress_message(self, data: bytes, flush=None) -> bytes:
        """1. compress the whole message with DEFLATE; 2. end with an empty stored block (sync/full
        flush); 3. remove the trailing 0x00 0x00 0xff 0xff."""
        if self._z is None or self.nct:
            self._z = self._new()
        mode = {"sync": zlib.Z_SYNC_FLUSH, "full": zlib.Z_FULL_FLUSH}[flush or self.flush]
        out = self._z.compress(bytes(data)) + self._z.flush(mode)
        if not out.endswith(TAIL):
            raise RefError("deflate output does not end in an empty stored block")
        return out[:-4]


class Inflater:
    """Receiver side of RFC 7692 7.2.2: append 0x00 0x00 0xff 0xff and inflate; the LZ77 window is kept
    between messages unless the *sender* agreed to no_context_takeover.  `wbits` is the sender's
    negotiated maximum, so back-references beyond it are errors (they prove the sender ignored it)."""

    def __init__(self, no_context_takeover=False, wbits=15):
        self.nct, self.wbits = no_context_takeover, wbits
        self._z = None

    def decompress_message(self, data: bytes, max_size=None) -> bytes:
        if self._z is None or self.nct:
            self._z = zlib.decompressobj(-max(self.wbits, 8))
        try:
            if max_size is None:
                out = self._z.decompress(bytes(data) + TAIL)
            else:
                out = self._z.decompress(bytes(data) + TAIL, max_size + 1)
                if len(out) > max_size or self._z.unconsumed_tail:
                    raise RefError("too_big_after_inflate")
        except zlib.error as e:
            raise RefError("inflate_error: %s" % e)
        if self._z.eof:
            # a BFINAL block ended the stream: later messages need a fresh stream (7.2.3.5/6)
            self._z = None
        return out


class DeflateParams:
    """Agreed parameters of one permessage-deflate negotiation (RFC 7692 7.1)."""

    def __init__(self, server_nct=False, client_nct=False, server_wbits=15, client_wbits=15):
        self.server_nct, self.client_nct = server_nct, client_nct
        self.server_wbits, self.client_wbits = server_wbits, client_wbits

    def deflater(self, role, **kw):
        """Deflater for messages SENT by `role` ('client' / 'server')."""
        if role == "client":
            return Deflater(self.client_nct, self.client_wbits, **kw)
        return Deflater(self.server_nct, self.server_wbits, **kw)

    def inflater(self, sender_role):
        """Inflater for messages sent by `sender_role`."""
        if sender_role == "client":
            return Inflater(self.client_nct, self.client_wbits)
        return Inflater(self.server_nct, self.server_wbits)

    def as_dict(self):
        return {"server_nct": self.server_nct, "client_nct": self.client_nct,
                "server_wbits": self.server_wbits, "client_wbits": self.client_wbits}


# --------------------------------------------------------------------------- extension header grammar
TOKEN_CHARS = set("!#$%&'*+-.^_`|~0123456789abcdefghijklmnopqrstuvwxyzABCDEFGHIJKLMNOPQRSTUVWXYZ")


def _is_token(s):
    return len(s) > 0 and all(c in TOKEN_CHARS for c in s)


def parse_extensions(value: str):
    """Sec-WebSocket-Extensions (RFC 6455 9.1): extension *( "," extension ); extension = token
    *( ";" token [ "=" (token | quoted-string) ] ).  -> list of (name, [(param, value|None), ...]).
    Raises RefError if it does not match the grammar."""
    out = []
    for item in _split_outside_quotes(value, ","):
        item = item.strip(" \t")
        if not item:
            continue  # empty list elements are tolerated by the list rule
        parts = _split_outside_quotes(item, ";")
        name = parts[0].strip(" \t")
        if not _is_token(name):
            raise RefError("extension name is not a token: %r" % name)
        params = []
        for p in parts[1:]:
            p = p.strip(" \t")
            if "=" in p:
                k, v = p.split("=", 1)
                k, v = k.strip(" \t"), v.strip(" \t")
                if len(v) >= 2 and v[0] == '"' and v[-1] == '"':
                    v = v[1:-1].replace('\\"', '"').replace("\\\\", "\\")
                if not _is_token(k) or not _is_token(v):
                    raise RefError("bad extension parameter %r" % p)
                params.append((k, v))
            else:
                if not _is_token(p):
                    raise RefError("bad extension parameter %r" % p)
                params.append((p, None))
        out.append((name, params))
    return out


def _split_outside_quotes(s, sep):
    out, cur, q, i = [], [], False, 0
    while i < len(s):
        c = s[i]
        if q:
            cur.append(c)
            if c == "\\" and i + 1 < len(s):
                cur.append(s[i + 1])
                i += 1
            elif c == '"':
                q = False
        elif c == '"':
            q = True
            cur.append(c)
        elif c == sep:
            out.append("".join(cur))
            cur = []
        else:
            cur.append(c)
        i += 1
    out.append("".join(cur))
    return out


def deflate_params_from(params) -> DeflateParams:
    """Interpret an agreed permessage-deflate parameter list (RFC 7692 7.1); RefError if a parameter
    is unknown, repeated or has an invalid value (7.1: such a response MUST fail the connection)."""
    seen = set()
    dp = DeflateParams()
    for k, v in params:
        if k in seen:
            raise RefError("repeated parameter %s" % k)
        seen.add(k)
        if k in ("server_no_context_takeover", "client_no_context_takeover"):
            if v is not None:
                raise RefError("%s takes no value" % k)
            setattr(dp, k.split("_")[0] + "_nct", True)
        elif k in ("server_max_window_bits", "client_max_window_bits"):
            if v is None or not (v.isascii() and v.isdigit()) or (len(v) > 1 and v[0] == "0") or not 8 <= int(v) <= 15:
                raise RefError("bad %s=%r" % (k, v))
            setattr(dp, k.split("_")[0] + "_wbits", int(v))
        else:
            raise RefError("unknown parameter %s" % k)
    return dp


# --------------------------------------------------------------------------- message encoder
def encode_message(opcode, data: bytes, cuts=(), masks=None, deflater=None, compress=True, flush=None):
    """Frames (list of bytes) carrying one message: payload = compressed data when a deflater is given
    and `compress`; split at `cuts` (offsets into the on-wire payload); first frame has the message
    opcode and RSV1 iff compressed, the others opcode 0; FIN on the last.  `masks`: None (server
    role) or an iterable yielding one 4-byte key per frame (client role)."""
    compressed = deflater is not None and compress
    payload = deflater.compress_message(data, flush) if compressed else bytes(data)
    frags = split_at(payload, cuts)
    it = iter(masks) if masks is not None else None
    out = []
    for i, frag in enumerate(frags):
        out.append(encode_frame(
            opcode if i == 0 else OP_CONT, frag, fin=(i == len(frags) - 1),
            rsv1=(compressed and i == 0), mask=(next(it) if it is not None else None)))
    return out


def is_valid_utf8(b: bytes) -> bool:
    try:
        b.decode("utf-8")  # Python's strict decoder rejects overlongs, surrogates and > U+10FFFF
        return True
    except UnicodeDecodeError:
        return False


def close_code_ok_on_wire(code: int) -> bool:
    """RFC 6455 7.4: codes an endpoint may put in a Close frame."""
    return code in (1000, 1001, 1002, 1003, 1007, 1008, 1009, 1010, 1011, 1012, 1013, 1014) or 3000 <= code <= 4999


# --------------------------------------------------------------------------- strict decoder
class Decoder:
    """Strict incremental decoder of the frames sent by one endpoint.

    expect_masked: True (frames from a client MUST be masked, 5.1), False (from a server MUST NOT), None (don't care)
    inflater:      Inflater when permessage-deflate was negotiated, else None (then RSV1 is an error)
    max_message:   optional limit on the (decompressed) message size -> error 'too_big'
    strict_minimal: non-minimal length encodings are an error (5.2 "minimal number of bytes MUST be used")
    """

    def __init__(self, expect_masked=None, inflater=None, max_message=None, strict_minimal=True,
                 control_after_close_ok=False):
        self.expect_masked, self.inflater, self.max_message = expect_masked, inflater, max_message
        self.strict_minimal = strict_minimal
        # RFC 6455 5.5.1 only forbids *data* frames after a Close frame; with this flag ping/pong frames
        # after it are decoded (a second Close frame or a data frame is still an error)
        self.control_after_close_ok = control_after_close_ok
        self.buf = bytearray()
        self.pos = 0  # absolute offset of buf[0]
        self.frames = []
        self.events = []  # ("text", str) ("binary", bytes) ("ping", bytes) ("pong", bytes) ("close", code, reason)
        self.event_frame = []  # index of the frame that completed each event
        self.error = None  # verdict: None = everything so far is valid
        self.error_frame = None
        self.closed = False  # a Close frame was decoded
        self._msg_opcode = None
        self._msg_parts = None
        self._msg_compressed = False

    # -- public
    def feed(self, data: bytes):
        self.buf += data
        while self.error is None:
            fr = self._next_frame()
            if fr is None:
                break
            self.frames.append(fr)
            self._handle(fr, len(self.frames) - 1)
        return self

    @property
    def leftover(self) -> int:
        """Bytes of an incomplete trailing frame (0 = the stream ends on a frame boundary)."""
        return len(self.buf)

    @property
    def in_message(self) -> bool:
        return self._msg_parts is not None

    def messages(self):
        return [e for e in self.events if e[0] in ("text", "binary")]

    def verdict(self):
        return "ok" if self.error is None else self.error

    # -- internals
    def _fail(self, why, idx=None):
        self.error = why
        self.error_frame = len(self.frames) if idx is None else idx

    def _next_frame(self):
        b = self.buf
        if len(b) < 2:
            return None
        b0, b1 = b[0], b[1]
        masked = bool(b1 & 0x80)
        n = b1 & 0x7F
        off = 2
        form = 7
        if n == 126:
            if len(b) < 4:
                return None
            n = struct.unpack_from("!H", b, 2)[0]
            off, form = 4, 16
        elif n == 127:
            if len(b) < 10:
                return None
            n = struct.unpack_from("!Q", b, 2)[0]
            off, form = 10, 64
            if n >> 63:
                self._fail("len64_msb_set")
                return None
        opcode = b0 & 0x0F
        # header-only checks come first so that a bad header is reported without waiting for a payload
        if b0 & 0x30:
            self._fail("rsv2_rsv3_set")
            return None
        if (b0 & 0x40) and self.inflater is None:
            self._fail("rsv1_without_extension")
            return None
        if opcode not in (OP_CONT,) + DATA_OPCODES + CONTROL_OPCODES:
            self._fail("unknown_opcode_%x" % opcode)
            return None
        if opcode & 0x8:
            if form != 7:
                self._fail("control_too_long")
                return None
            if not (b0 & 0x80):
                self._fail("control_fragmented")
                return None
            if b0 & 0x40:
                self._fail("rsv1_on_control")
                return None
        if opcode == OP_CONT and (b0 & 0x40):
            self._fail("rsv1_on_continuation")
            return None
        if self.strict_minimal and form != minimal_len_form(n):
            self._fail("nonminimal_length")
            return None
        if self.expect_masked is not None and masked != self.expect_masked:
            self._fail("mask_bit_%s" % ("missing" if self.expect_masked else "set"))
            return None
        if opcode == OP_CONT and self._msg_parts is None:
            self._fail("continuation_without_start")
            return None
        if opcode in DATA_OPCODES and self._msg_parts is not None:
            self._fail("data_frame_inside_fragmented_message")
            return None
        if self.max_message is not None and not (opcode & 0x8):
            # the limit applies to the payload as carried (before inflating) and again after inflating
            have = sum(len(p) for p in self._msg_parts) if self._msg_parts is not None else 0
            if have + n > self.max_message:
                self._fail("too_big")
                return None
        need = off + (4 if masked else 0) + n
        if len(b) < need:
            return None
        mask = bytes(b[off:off + 4]) if masked else None
        if masked:
            off += 4
        payload = bytes(b[off:off + n])
        if masked:
            payload = apply_mask(mask, payload)
        fr = Frame(bool(b0 & 0x80), bool(b0 & 0x40), False, False, opcode, masked, mask, payload, form,
                   self.pos, self.pos + need)
        del b[:need]
        self.pos += need
        return fr

    def _emit(self, ev, idx):
        self.events.append(ev)
        self.event_frame.append(idx)

    def _handle(self, fr, idx):
        if self.closed:
            # 5.5.1: after sending a Close frame an endpoint MUST NOT send any more data frames
            # (and nothing at all is expected after it)
            if not (self.control_after_close_ok and fr.opcode in (OP_PING, OP_PONG)):
                self._fail("second_close_frame" if fr.opcode == OP_CLOSE else
                           ("frame_after_close" if fr.opcode in (OP_PING, OP_PONG) else "data_frame_after_close"), idx)
                return
        op = fr.opcode
        if op == OP_PING:
            self._emit(("ping", fr.payload), idx)
        elif op == OP_PONG:
            self._emit(("pong", fr.payload), idx)
        elif op == OP_CLOSE:
            p = fr.payload
            if len(p) == 1:
                self._fail("close_payload_one_byte", idx)
                return
            code = reason = None
            if len(p) >= 2:
                code = struct.unpack("!H", p[:2])[0]
                if not is_valid_utf8(p[2:]):
                    self._fail("close_reason_not_utf8", idx)
                    return
                reason = p[2:].decode("utf-8")
            self.closed = True
            self._emit(("close", code, reason), idx)
        else:
            if op in DATA_OPCODES:
                self._msg_opcode = op
                self._msg_parts = []
                self._msg_compressed = fr.rsv1
            self._msg_parts.append(fr.payload)
            if fr.fin:
                data = b"".join(self._msg_parts)
                opc, comp = self._msg_opcode, self._msg_compressed
                self._msg_parts = None
                if comp:
                    try:
                        data = self.inflater.decompress_message(data, self.max_message)
                    except RefError as e:
                        self._fail(str(e).split(":")[0], idx)
                        return
                elif self.max_message is not None and len(data) > self.max_message:
                    self._fail("too_big", idx)
                    return
                if opc == OP_TEXT:
                    if not is_valid_utf8(data):
                        self._fail("text_not_utf8", idx)
                        return
                    self._emit(("text", data.decode("utf-8")), idx)
                else:
                    self._emit(("binary", data), idx)


def decode_all(data: bytes, **kw) -> Decoder:
    return Decoder(**kw).feed(data)
