"""tmplgen -- generator of template *programs* for C19/C20.

A case is plain data::

    {"files": [{"name": str, "extends": [parent_name_as_written, quote] | None, "body": [node, ...]}, ...],
     "loader": {"autoescape": "default" | None | name, "whitespace": None | mode},
     "profile": "c19" | "c20", "tagstyle": 0..2,
     "mutation": None | [kind, file_index, selector, variant]}

Nodes (lists, JSON-able)::

    ["text", s]  ["esc", "{{"|"{%"|"{#"]  ["expr", e, style]  ["bexpr", k, m, e]  ["raw", e]
    ["set", stmt]  ["import", stmt]
    ["if", [[cond, body], ...], else_body|None]
    ["for", head, body, else_body|None]   ["while", bound, body, else_body|None]
    ["try", body, [[spec, body], ...], else_body|None, finally_body|None]
    ["apply", fn, body]  ["comment", style, text]  ["autoescape", name]  ["whitespace", mode]
    ["block", name, body]  ["include", name_as_written, quote]  ["break"]  ["continue"]

`render_file` turns a body into template source and records where every tag, every ``{% end %}`` and
every gap between two nodes lies (offset, innermost enclosing directive, loop context), which is what
the named ill-forming mutations (`mutate`) select from.
"""
from __future__ import annotations

import posixpath

from hypothesis import strategies as st

# ------------------------------------------------------------------------------------------ pools
LOCALS = ["v0", "v1", "v2"]

VALUE_SAFE = [
    "n", "n + 1", "s", "u", "b", "none", "items[0]", "items[1]", "d['k']", "obj", "obj.name", "obj.greet(n)",
    "s.upper()", "len(items)", "f", "t", "'lit\"q'", '"{" + s + "}"', "escape(s)", "json_encode(d)", "url_escape(s)",
    "squeeze('a   b')", "[x * 2 for x in range(3)]", "'%s-%s' % (n, s)", "n if t else z", "str(b, 'utf8')",
    "escape(s) + u", "xhtml_escape(s) + str(b, 'utf8').strip()", "escape(s) if not z else str(n)", "linkify(s)",
    "url_escape(u) + s", "'%s|%s' % (obj, s)", "xhtml_escape(items[1])", "escape(s) + items[1]",
    "(n +\n z)", "d", "items", "u * 2", "s[1:3]", "'%'", "'#' + s", "n % 2", "({'a': 1}['a'])",
]
VALUE_LOCAL = ["v0", "v1", "v2", "v0 + 1", "i0", "k0", "x0", "ch", "math.floor(f)", "floor(f)", "type(ex).__name__"]
VALUE_RAISE = ["items[5]", 'd["missing"]', "n / z", "obj.nope", "undefined_name", "int('x')", "obj.boom()"]
VALUE_EXPRS = VALUE_SAFE * 2 + VALUE_LOCAL + VALUE_RAISE
SET_STMTS = [
    "v0 = 1", "v1 = s", "v0 = 1", "v1 = s", "v2 = u", "v2 = u", "v0, v1 = 1, 2", "v1 = [n, z]", "v1 = obj", "v0 = n",
    "v0 = v0 + 1", "v2 = items[5]", "v2 = d['missing']", "v0 += 1", "v2 = v1",
]
IMPORT_STMTS = ["import math", "from math import floor", "import os.path as osp", "from math import floor as fl"]
CONDS = [
    "t", "z", "n > 2", "none", "items", "empty", "s == 'x'", "True", "False", "not z", "d.get('k')", "n == 3",
    "t", "z", "n > 2", "none", "items", "empty", "s == 'x'", "True", "False", "not z", "d.get('k')", "n == 3",
    "n / z", "v0", "i0 == 1", "undefined_name", "v0 == 1", "x0 == '<y>'",
]
FOR_HEADS = [
    "i0 in range(3)", "i0 in range(2)", "x0 in items", "ch in 'ab'", "k0, x0 in pairs",
    "i0 in range(3)", "i0 in range(n)", "x0 in items", "k0, x0 in sorted(d.items())", "k0, x0 in pairs",
    "x0 in empty", "x0 in none", "ch in 'ab'", "i0 in [1]", "x0 in d",
]
EXCEPT_SPECS = [
    "", "KeyError", "ZeroDivisionError", "(KeyError, IndexError)", "Exception", "Exception as ex",
    "NameError", "LookupError as ex", "undefined_exc", "TypeError", "AttributeError as ex",
]
APPLY_FNS = ["up", "wrap", "ident", "rev", "up", "wrap", "ident", "rev", "xhtml_escape", "up", "wrap", "ident", "rev", "xhtml_escape", "url_escape", "boom", "undefined_fn", "linkify"]
AUTOESCAPES = ["xhtml_escape", "None", "url_escape", "myesc", "None", "xhtml_escape", "None", "url_escape", "myesc", "up", "undefined_fn", "escape"]
WS_MODES = ["all", "single", "oneline"]
BLOCK_NAMES = ["b0", "b1", "b2"]

ENTRY_NAMES = ["page.html", "page.txt", "sub/page.txt"]
SLOT_NAMES = [
    ENTRY_NAMES,
    ["base.txt", "base.html", "sub/base.txt"],
    ["inc.txt", "sub/inc.html", "inc.js"],
    ["sub/deep/leaf.txt", "leaf.html", "leaf.txt"],
]
# (extends edges child->parent, include edges file->[targets]) over slots 0..3
TOPOLOGIES = [
    ({}, {}, 1),
    ({}, {0: [1]}, 2),
    ({0: 1}, {}, 2),
    ({0: 1}, {1: [2]}, 3),
    ({0: 1}, {0: [2], 2: [3]}, 4),
    ({0: 1, 1: 3}, {}, 4),
    ({0: 1, 1: 3}, {0: [2], 1: [2]}, 4),
    ({}, {0: [2], 2: [3]}, 4),
    ({}, {0: [1, 2]}, 3),
    ({0: 1}, {0: [2], 1: [2]}, 3),
]


class Obj:
    def __init__(self, name):
        self.name = name

    def __str__(self):
        return "Obj<%s&>" % self.name

    def greet(self, x):
        return "hi '%s'" % (x,)

    def boom(self):
        raise RuntimeError("boom")


def _text_of(v):
    return v.decode("utf-8") if isinstance(v, bytes) else v


def fn_up(v):
    return _text_of(v).upper()


def fn_wrap(v):
    return b"[" + (v if isinstance(v, bytes) else v.encode("utf-8")) + b"]"


def fn_ident(v):
    return v


def fn_rev(v):
    return _text_of(v)[::-1]


def fn_boom(v):
    raise ValueError("boom")


def fn_myesc(v):
    """custom escaping function: replaces every special character by '_' + hex (type-agnostic)."""
    return "".join(c if c.isalnum() or c in " \n" else "_%x_" % ord(c) for c in _text_of(v))


def fn_bresc(v):
    """custom escaping function that must be *called* for every value, numbers included: the escaped
    text is wrapped in brackets."""
    return "[" + fn_myesc(v) + "]"


def loader_namespace():
    return {
        "bresc": fn_bresc,
        "up": fn_up, "wrap": fn_wrap, "ident": fn_ident, "rev": fn_rev, "boom": fn_boom, "myesc": fn_myesc,
        "fns": {"up": fn_up},
    }


def c19_kwargs():
    return dict(
        n=3, z=0, s="a<b>&\"c'", u="h\u00e9llo \u2713", b=b"by<tes\xc3\xa9", none=None,
        items=["x", "<y>", 3], d={"k": "v&w", "n": 1}, obj=Obj("o"), f=1.5, t=True, empty=[],
        pairs=[(1, "a"), (2, "b")],
    )


# ------------------------------------------------------------------------------------------- text
C19_ALPHABET = "abXY01 \n\t'\"\\{}%#!<>&=:/.-\u00e9\u2713\u4e2d\U0001F600\r\u00a0\u2028$|~`^*+,;?@[]()"
C20_ALPHABET = "abcXYZ019 \n"


def sanitize_text(s):
    """Remove accidental tag openers: a '{' is never followed by '{', '%' or '#' and never ends the text."""
    out = []
    for c in s:
        if out and out[-1] == "{" and c in "{%#":
            continue
        out.append(c)
    if out and out[-1] == "{":
        out.append(".")
    return "".join(out)


def text_strategy(profile):
    if profile == "c20":
        return st.text(C20_ALPHABET, min_size=1, max_size=8)
    frag = st.one_of(
        st.text(C19_ALPHABET, min_size=1, max_size=10),
        st.sampled_from(["{", "}", "}}", "%}", "#}", "{!", "}}}", "{ {", "\\", "\\n", "'''", '"""', "\n", "  \n  ",
                         " \t ", "<pre>", "#", "%", "!", "{}", "\n\n", "x y", "\r\n", "\r", "a\r\nb", "\x85", "\x0c", "\x1c", "\r\r\n"]),
        st.text(st.characters(exclude_categories=("Cs",)), min_size=1, max_size=4),
    )
    return st.lists(frag, min_size=1, max_size=4).map(lambda fs: sanitize_text("".join(fs)))


def comment_text(profile):
    alpha = C20_ALPHABET if profile == "c20" else "ab {}%#!{{x}}\n'\""
    return st.text(alpha, max_size=8).map(lambda s: s.replace("#}", "# }").replace("%}", "% }").rstrip("#%"))


# -------------------------------------------------------------------------------------- strategies
def relname(frm, to):
    return posixpath.relpath(to, posixpath.dirname(frm) or ".")


@st.composite
def body_strategy(draw, cfg, depth, in_loop, budget, in_child_top=False):
    """cfg: dict(profile, value_exprs, includes [names as written], blocks (mutable list of free names),
    state (mutable: autoescape_used))"""
    n = draw(st.integers(0, 4 if depth else 5))
    out = []
    for _ in range(n):
        if budget[0] <= 0:
            break
        budget[0] -= 1
        out.append(draw(node_strategy(cfg, depth, in_loop)))
    return out


KINDS_LEAF = ["text", "text", "text", "expr", "expr", "expr", "raw", "set", "esc", "bexpr", "comment", "import",
              "whitespace", "autoescape", "include", "jump"]
KINDS_LEAF_C20 = ["text", "text", "expr", "expr", "expr", "expr", "expr", "expr", "raw", "set", "comment", "autoescape",
                  "include", "include", "jump"]
KINDS_NEST_C20 = ["if", "for", "for", "while", "try", "apply", "apply", "apply", "block", "block", "block"]
KINDS_NEST = ["if", "if", "for", "for", "while", "try", "try", "apply", "apply", "block", "block"]


@st.composite
def node_strategy(draw, cfg, depth, in_loop):
    profile = cfg["profile"]
    if profile == "c20":
        kinds = KINDS_LEAF_C20 + (KINDS_NEST_C20 if depth < cfg["max_depth"] else [])
    else:
        kinds = KINDS_LEAF + (KINDS_NEST if depth < cfg["max_depth"] else [])
    kind = draw(st.sampled_from(kinds))
    exprs = cfg["value_exprs"]
    budget = cfg["budget"]

    def sub(loop):
        return draw(body_strategy(cfg, depth + 1, loop, budget))

    if kind == "jump":
        if in_loop:
            return [draw(st.sampled_from(["break", "continue"]))]
        kind = "text"
    if kind == "include":
        if cfg["includes"]:
            return ["include", draw(st.sampled_from(cfg["includes"])), draw(st.integers(0, 2))]
        kind = "expr"
    if kind == "autoescape":
        if not cfg["state"]["autoescape_used"] and cfg["allow_autoescape"]:
            cfg["state"]["autoescape_used"] = True
            return ["autoescape", draw(st.sampled_from(cfg["autoescapes"]))]
        kind = "expr"
    if kind == "whitespace":
        if profile == "c19":
            return ["whitespace", draw(st.sampled_from(WS_MODES))]
        kind = "text"
    if kind == "block":
        free = cfg["blocks"]
        if free:
            name = draw(st.sampled_from(sorted(free)))
            free.discard(name)
            return ["block", name, sub(in_loop)]
        kind = "text"
    if kind == "text":
        return ["text", draw(text_strategy(profile))]
    if kind == "esc":
        return ["esc", draw(st.sampled_from(["{{", "{%", "{#"]))]
    if kind == "expr":
        return ["expr", draw(st.sampled_from(exprs)), draw(st.integers(0, 2))]
    if kind == "bexpr":
        if profile == "c20":
            return ["expr", draw(st.sampled_from(exprs)), 0]
        return ["bexpr", draw(st.integers(1, 3)), draw(st.integers(0, 3)), draw(st.sampled_from(exprs))]
    if kind == "raw":
        return ["raw", draw(st.sampled_from(exprs))]
    if kind == "set":
        return ["set", draw(st.sampled_from(cfg["set_stmts"]))]
    if kind == "import":
        if profile == "c20":
            return ["set", draw(st.sampled_from(cfg["set_stmts"]))]
        return ["import", draw(st.sampled_from(IMPORT_STMTS))]
    if kind == "comment":
        return ["comment", draw(st.integers(0, 1)), draw(comment_text(profile))]
    if kind == "if":
        nb = draw(st.integers(1, 3))
        branches = [[draw(st.sampled_from(cfg["conds"])), sub(in_loop)] for _ in range(nb)]
        orelse = sub(in_loop) if draw(st.booleans()) else None
        return ["if", branches, orelse]
    if kind == "for":
        head = draw(st.sampled_from(cfg["for_heads"]))
        body = sub(True)
        orelse = sub(False if not in_loop else None) if draw(st.integers(0, 3)) == 0 else None
        return ["for", head, body, orelse]
    if kind == "while":
        bound = draw(st.integers(0, 3))
        body = sub(True)
        orelse = sub(False if not in_loop else None) if draw(st.integers(0, 3)) == 0 else None
        return ["while", bound, body, orelse]
    if kind == "try":
        body = sub(in_loop)
        nh = draw(st.integers(0, 2))
        handlers = []
        for _ in range(nh):
            spec = draw(st.sampled_from(cfg["except_specs"]))
            handlers.append([spec, sub(in_loop)])
            if spec == "":
                break  # a bare except must be the last handler
        orelse = sub(in_loop) if handlers and draw(st.booleans()) else None
        final = sub(in_loop) if (not handlers or draw(st.booleans())) else None
        return ["try", body, handlers, orelse, final]
    if kind == "apply":
        return ["apply", draw(st.sampled_from(cfg["apply_fns"])), sub(False)]
    raise AssertionError(kind)


def _strip_jumps(nodes):
    """Remove break/continue that are not inside a loop of their own (used for loop-else bodies)."""
    out = []
    for nd in nodes:
        k = nd[0]
        if k in ("break", "continue"):
            continue
        if k == "if":
            nd = ["if", [[c, _strip_jumps(b)] for c, b in nd[1]], None if nd[2] is None else _strip_jumps(nd[2])]
        elif k == "try":
            nd = ["try", _strip_jumps(nd[1]), [[s, _strip_jumps(b)] for s, b in nd[2]],
                  None if nd[3] is None else _strip_jumps(nd[3]), None if nd[4] is None else _strip_jumps(nd[4])]
        elif k == "block":
            nd = ["block", nd[1], _strip_jumps(nd[2])]
        elif k in ("for", "while"):
            nd = [k, nd[1], nd[2], None if nd[3] is None else _strip_jumps(nd[3])]
        out.append(nd)
    return out


def fix_loop_else(nodes):
    out = []
    for nd in nodes:
        k = nd[0]
        if k in ("for", "while"):
            nd = [k, nd[1], fix_loop_else(nd[2]), None if nd[3] is None else _strip_jumps(fix_loop_else(nd[3]))]
        elif k == "if":
            nd = ["if", [[c, fix_loop_else(b)] for c, b in nd[1]], None if nd[2] is None else fix_loop_else(nd[2])]
        elif k == "try":
            nd = ["try", fix_loop_else(nd[1]), [[s, fix_loop_else(b)] for s, b in nd[2]],
                  None if nd[3] is None else fix_loop_else(nd[3]), None if nd[4] is None else fix_loop_else(nd[4])]
        elif k in ("block", "apply"):
            nd = [k, nd[1], fix_loop_else(nd[2])]
        out.append(nd)
    return out


MUTATION_KINDS = [
    "del_end", "add_end_top", "add_end_nested", "unterminated", "empty_tag", "unknown_operator",
    "intermediate", "intermediate_in_apply", "intermediate_in_apply", "jump", "jump_in_apply_in_loop", "jump_in_apply_in_loop", "no_name", "missing_arg", "opener_no_name", "bad_whitespace", "autoescape_empty",
    "python_level", "unterminated_block_tail", "unterminated_block_tail", "unterminated_block_tail",
]


@st.composite
def case_strategy(draw, profile="c19", pools=None, mutate_prob=(0, 3)):
    """pools: optional overrides {value_exprs, conds, for_heads, set_stmts, apply_fns, autoescapes, except_specs}."""
    pools = pools or {}
    ext, inc, nfiles = draw(st.sampled_from(TOPOLOGIES))
    names = [draw(st.sampled_from(SLOT_NAMES[i])) for i in range(4)]
    if profile == "c20":
        # whitespace filtering is C19's business: names that default to mode "all"
        names = [n if n.endswith(".txt") else n.rsplit(".", 1)[0] + ".txt" for n in names]
    used = sorted(set([0]) | set(ext) | set(ext.values()) | set(inc) | {t for ts in inc.values() for t in ts})
    files = []
    root_slots = set(ext.values())
    for slot in used:
        name = names[slot]
        in_chain = slot in ext or slot in root_slots
        cfg = {
            "profile": profile,
            "max_depth": 3,
            "budget": [14 if slot == 0 else 9],
            "value_exprs": pools.get("value_exprs", VALUE_EXPRS),
            "conds": pools.get("conds", CONDS),
            "for_heads": pools.get("for_heads", FOR_HEADS),
            "set_stmts": pools.get("set_stmts", SET_STMTS),
            "apply_fns": pools.get("apply_fns", APPLY_FNS),
            "autoescapes": pools.get("autoescapes", AUTOESCAPES),
            "except_specs": pools.get("except_specs", EXCEPT_SPECS),
            "includes": [relname(name, names[t]) for t in inc.get(slot, [])],
            "blocks": set(BLOCK_NAMES) if in_chain else {"i%db0" % slot, "i%db1" % slot},
            "state": {"autoescape_used": False},
            "allow_autoescape": True,
        }
        body = draw(body_strategy(cfg, 0, False, cfg["budget"]))
        # every include edge of the topology is present at least once (reachability of every file)
        for t in inc.get(slot, []):
            ref = relname(name, names[t])
            if not _mentions_include(body, ref):
                node = ["include", ref, draw(st.integers(0, 2))]
                if slot in ext:
                    free = cfg["blocks"]
                    bname = sorted(free)[0] if free else None
                    if bname and draw(st.booleans()):
                        free.discard(bname)
                        node = ["block", bname, [node]]
                body.insert(draw(st.integers(0, len(body))), node)
        # inheritance is only interesting with blocks: chain files get at least one most of the time
        if in_chain and cfg["blocks"] and draw(st.integers(0, 3)) > 0:
            bname = draw(st.sampled_from(sorted(cfg["blocks"])))
            cfg["blocks"].discard(bname)
            cfg["budget"][0] = 4
            inner = draw(body_strategy(cfg, 1, False, cfg["budget"]))
            body.insert(draw(st.integers(0, len(body))), ["block", bname, inner])
        if profile == "c20" and not cfg["state"]["autoescape_used"] and draw(st.booleans()):
            body.insert(draw(st.integers(0, len(body))), ["autoescape", draw(st.sampled_from(cfg["autoescapes"]))])
        # locals that later expressions read are usually defined first
        if draw(st.booleans()):
            body[0:0] = [["set", st_] for st_ in pools.get("prelude", ["v0, v1 = 1, 2", "v2 = u"])]
        body = fix_loop_else(body)
        extends = None
        if slot in ext:
            extends = [relname(name, names[ext[slot]]), draw(st.integers(0, 2)), draw(st.integers(0, len(body)))]
        files.append({"name": name, "extends": extends, "body": body})
    loader = {
        "autoescape": draw(st.sampled_from(pools.get(
            "loader_autoescapes", ["default", "default", "xhtml_escape", None, "myesc", "url_escape"]))),
        "whitespace": draw(st.sampled_from([None, None, "all", "single", "oneline"])) if profile == "c19" else None,
    }
    mutation = None
    if mutate_prob[1] and draw(st.integers(0, mutate_prob[1])) <= mutate_prob[0]:
        mutation = [draw(st.sampled_from(MUTATION_KINDS)), draw(st.integers(0, len(files) - 1)),
                    draw(st.integers(0, 63)), draw(st.integers(0, 7))]
    return {"files": files, "loader": loader, "profile": profile, "tagstyle": draw(st.integers(0, 2)),
            "mutation": mutation}


def sub_bodies(nd):
    """The bodies directly contained in a node."""
    k = nd[0]
    if k == "if":
        return [b for _, b in nd[1]] + ([nd[2]] if nd[2] is not None else [])
    if k in ("for", "while"):
        return [nd[2]] + ([nd[3]] if nd[3] is not None else [])
    if k == "try":
        return [nd[1]] + [b for _, b in nd[2]] + [x for x in (nd[3], nd[4]) if x is not None]
    if k in ("apply", "block"):
        return [nd[2]]
    return []


def walk_nodes(body):
    for nd in body:
        yield nd
        for b in sub_bodies(nd):
            yield from walk_nodes(b)


def _mentions_include(body, ref):
    return any(nd[0] == "include" and nd[1] == ref for nd in walk_nodes(body))


ALL_KINDS = {"text", "esc", "expr", "bexpr", "raw", "set", "import", "if", "for", "while", "try", "apply", "comment",
             "autoescape", "whitespace", "block", "include", "break", "continue"}


# ----------------------------------------------------------------------------------------- render
class Rendered:
    def __init__(self):
        self.parts = []
        self.off = 0
        self.ends = []  # (offset_of_end_tag, length, opener_offset, opener_kind)
        self.points = []  # (offset, innermost_kind|None, in_loop True/False/None, depth, opener_offset|None)
        self.tags = []  # (kind, start, end)
        self.features = set()
        self.counter = 0

    @property
    def source(self):
        return "".join(self.parts)

    def w(self, s):
        self.parts.append(s)
        self.off += len(s)


def _tag(style, contents):
    if style == 1:
        return "{%" + contents + "%}"
    if style == 2:
        return "{%  " + contents + "  %}"
    return "{% " + contents + " %}"


def _quote(name, q):
    return ['"%s"' % name, "'%s'" % name, name][q]


def render_file(fdesc, tagstyle=0, slot=0):
    r = Rendered()
    ts = tagstyle

    ail = [False]  # inside an {% apply %} that itself sits in a loop (of this file)

    def point(kind, in_loop, depth, opener):
        r.points.append((r.off, kind, in_loop, depth, opener, ail[0]))

    def tag(kind, contents):
        start = r.off
        r.w(_tag(ts, contents))
        r.tags.append((kind, start, r.off))
        return start

    def end(opener_off, opener_kind):
        start = r.off
        r.w(_tag(ts, "end"))
        r.ends.append((start, r.off - start, opener_off, opener_kind))

    def body(nodes, kind, in_loop, depth, opener, extends=None):
        point(kind, in_loop, depth, opener)
        for idx, nd in enumerate(nodes):
            if extends is not None and extends[2] == idx:
                tag("extends", "extends " + _quote(extends[0], extends[1]))
                point(kind, in_loop, depth, opener)
            node(nd, kind, in_loop, depth, opener)
            point(kind, in_loop, depth, opener)
        if extends is not None and extends[2] >= len(nodes):
            tag("extends", "extends " + _quote(extends[0], extends[1]))
            point(kind, in_loop, depth, opener)

    def node(nd, kind, in_loop, depth, opener):
        k = nd[0]
        if depth >= 1:
            r.features.add("nested")
        if depth >= 2:
            r.features.add("nested2")
        if k == "text":
            r.w(nd[1])
        elif k == "esc":
            prev = r.parts[-1] if r.parts else ""
            if prev.endswith("{") or prev.endswith("}"):
                r.features.add("esc_adjacent_brace")
            r.features.add("escape_seq")
            r.w(nd[1] + "!")
        elif k == "expr":
            e, style = nd[1], nd[2]
            start = r.off
            r.w(["{{ %s }}", "{{%s}}", "{{  %s\t}}"][style] % e)
            r.tags.append(("expr", start, r.off))
        elif k == "bexpr":
            r.features.add("brace_run")
            r.w("{" * nd[1])
            start = r.off
            r.w("{{ %s }}" % nd[3])
            r.tags.append(("expr", start, r.off))
            r.w("}" * nd[2])
        elif k == "raw":
            tag("raw", "raw " + nd[1])
        elif k == "set":
            tag("set", "set " + nd[1])
        elif k == "import":
            tag("import", nd[1])
        elif k == "comment":
            start = r.off
            if nd[1] == 0:
                r.w("{# " + nd[2] + " #}")
            else:
                r.w("{% comment " + nd[2] + " %}")
            r.tags.append(("comment", start, r.off))
        elif k == "autoescape":
            r.features.add("autoescape_directive")
            tag("autoescape", "autoescape " + nd[1])
        elif k == "whitespace":
            r.features.add("whitespace_directive")
            tag("whitespace", "whitespace " + nd[1])
        elif k == "include":
            r.features.add("include")
            tag("include", "include " + _quote(nd[1], nd[2]))
        elif k in ("break", "continue"):
            r.features.add("jump")
            tag(k, k)
        elif k == "if":
            o = tag("if", "if " + nd[1][0][0])
            body(nd[1][0][1], "if", in_loop, depth + 1, o)
            for cond, b in nd[1][1:]:
                tag("elif", "elif " + cond)
                body(b, "if", in_loop, depth + 1, o)
            if nd[2] is not None:
                tag("else", "else")
                body(nd[2], "if", in_loop, depth + 1, o)
            end(o, "if")
        elif k == "for":
            o = tag("for", "for " + nd[1])
            body(nd[2], "for", True, depth + 1, o)
            if nd[3] is not None:
                r.features.add("loop_else")
                tag("else", "else")
                body(nd[3], "for", None, depth + 1, o)
            end(o, "for")
        elif k == "while":
            r.counter += 1
            c = "c%d_%d" % (slot, r.counter)
            tag("set", "set %s = 0" % c)
            o = tag("while", "while %s < %d" % (c, nd[1]))
            point("while", None, depth + 1, o)  # before the increment: not an insertion point for jumps
            tag("set", "set %s = %s + 1" % (c, c))
            body(nd[2], "while", True, depth + 1, o)
            if nd[3] is not None:
                r.features.add("loop_else")
                tag("else", "else")
                body(nd[3], "while", None, depth + 1, o)
            end(o, "while")
        elif k == "try":
            o = tag("try", "try")
            body(nd[1], "try", in_loop, depth + 1, o)
            for spec, b in nd[2]:
                tag("except", ("except " + spec).strip())
                body(b, "try", in_loop, depth + 1, o)
            if nd[3] is not None:
                tag("else", "else")
                body(nd[3], "try", in_loop, depth + 1, o)
            if nd[4] is not None:
                r.features.add("try_finally")
                tag("finally", "finally")
                body(nd[4], "try", in_loop, depth + 1, o)
            end(o, "try")
        elif k == "apply":
            r.features.add("apply")
            o = tag("apply", "apply " + nd[1])
            saved = ail[0]
            ail[0] = saved or in_loop is True
            body(nd[2], "apply", False, depth + 1, o)
            ail[0] = saved
            end(o, "apply")
        elif k == "block":
            r.features.add("block")
            o = tag("block", "block " + nd[1])
            body(nd[2], "block", in_loop, depth + 1, o)
            end(o, "block")
        else:
            raise AssertionError(nd)

    body(fdesc["body"], None, False, 0, None, extends=fdesc.get("extends"))
    if fdesc.get("extends"):
        r.features.add("extends")
    return r


def line_of(src, off):
    return 1 + src.count("\n", 0, off)


# ---------------------------------------------------------------------------------------- mutation
_INTERMEDIATE_ALLOWED = {"else": ("if", "for", "while", "try"), "elif": ("if",), "except": ("try",), "finally": ("try",)}


def mutate(src, r, kind, selector, variant):
    """Apply a named ill-forming mutation to rendered source.  Returns None when the mutation has no
    candidate position in this file, else a dict:
      src      mutated source
      expect   'exact' (lineno must equal line) | 'range' (lo <= lineno <= hi) | 'python_level'
      line/lo/hi, kind (RefParseError kind(s) expected), label
    """
    last_line = lambda s: 1 + s.count("\n")

    def insert_at(off, snippet):
        return src[:off] + snippet + src[off:]

    def pick(cands):
        return cands[selector % len(cands)] if cands else None

    if kind == "del_end":
        c = pick(r.ends)
        if c is None:
            return None
        off, ln, opener_off, opener_kind = c
        new = src[:off] + src[off + ln:]
        return {"src": new, "expect": "range", "lo": line_of(src, opener_off), "hi": last_line(new),
                "label": "ill_del_end", "kinds": None}
    if kind == "add_end_top":
        c = pick([p for p in r.points if p[3] == 0])
        snippet = ["{% end %}", "{%end%}", "{% end if %}"][variant % 3]
        new = insert_at(c[0], snippet)
        return {"src": new, "expect": "exact", "line": line_of(src, c[0]), "label": "ill_extra_end", "kinds": ("extra_end",)}
    if kind == "add_end_nested":
        c = pick([p for p in r.points if p[3] >= 1])
        if c is None:
            return None
        new = insert_at(c[0], "{% end %}")
        return {"src": new, "expect": "range", "lo": line_of(src, c[0]), "hi": last_line(new),
                "label": "ill_extra_end_nested", "kinds": None}
    if kind == "unterminated":
        c = pick(r.points)
        opener = ["{{", "{%", "{#"][variant % 3]
        tail = [" n", " if t", " note"][variant % 3]
        rest = src[c[0]:]
        closer = {"{{": "}}", "{%": "%}", "{#": "#}"}[opener]
        # the opener is unterminated only if its closer occurs nowhere after it: cut the file at the
        # first later closer (keeping everything before it)
        cut = rest.find(closer)
        if cut >= 0:
            rest = rest[:cut]
        if src[:c[0]].endswith("{"):
            return None
        new = src[:c[0]] + opener + tail + rest
        return {"src": new, "expect": "exact", "line": line_of(src, c[0]), "label": "ill_unterminated",
                "kinds": ("unterminated_expr", "unterminated_block", "unterminated_comment")}
    simple = {
        "empty_tag": (["{% %}", "{%%}", "{{ }}", "{{}}", "{%  \t %}", "{{   }}"], ("empty_block", "empty_expr"), "ill_empty_tag"),
        "unknown_operator": (["{% frob x %}", "{% endif %}", "{% elseif t %}", "{% End %}", "{% if\tt %}", "{% 1 %}",
                              "{% endfor %}", "{% . %}"], ("unknown_operator",), "ill_unknown_operator"),
        "no_name": (["{% extends %}", "{% include %}", '{% include "" %}', "{% extends '' %}", "{%include%}", "{%  extends  %}"],
                    ("extends_no_name", "include_no_name"), "ill_no_name"),
        "missing_arg": (["{% set %}", "{% import %}", "{% from %}", "{%set%}"], ("set_no_statement", "import_no_statement"),
                        "ill_missing_arg"),
        "bad_whitespace": (["{% whitespace bogus %}", "{% whitespace %}", "{% whitespace ALL %}", "{% whitespace single line %}"],
                           ("bad_whitespace_mode",), "ill_bad_whitespace"),
        "autoescape_empty": (["{% autoescape %}", "{%autoescape%}", "{% autoescape  %}"], ("autoescape_no_function",),
                             "ill_autoescape_empty"),
    }
    if kind in simple:
        snippets, kinds, label = simple[kind]
        c = pick(r.points)
        if src[:c[0]].endswith("{"):
            return None
        new = insert_at(c[0], snippets[variant % len(snippets)])
        return {"src": new, "expect": "exact", "line": line_of(src, c[0]), "label": label, "kinds": kinds,
                "snippet": snippets[variant % len(snippets)]}
    if kind in ("intermediate", "intermediate_in_apply"):
        ops = ["else", "elif t", "except", "finally", "except KeyError", "elif z"]
        snippet_op = ops[variant % len(ops)]
        op = snippet_op.split(" ")[0]
        cands = [p for p in r.points if p[1] not in _INTERMEDIATE_ALLOWED[op]]
        if kind == "intermediate_in_apply":
            cands = [p for p in cands if p[1] == "apply"]
            if not cands:
                # no apply in this file: bring one along (an if around it makes the tag look attachable)
                c = pick(r.points)
                if src[:c[0]].endswith("{"):
                    return None
                wrap = [("if t", "else"), ("if t", "elif z"), ("try", "except"), ("try", "finally"),
                        ("for i0 in range(2)", "else"), ("if z", "else")][variant % 6]
                snippet = "{%% %s %%}a{%% apply up %%}b{%% %s %%}c{%% end %%}d{%% end %%}" % wrap
                return {"src": insert_at(c[0], snippet), "expect": "exact", "line": line_of(src, c[0]),
                        "label": "ill_intermediate_in_apply", "kinds": ("intermediate_wrong_parent",), "parent": "apply"}
        c = pick(cands)
        if c is None or src[:c[0]].endswith("{"):
            return None
        new = insert_at(c[0], "{% " + snippet_op + " %}")
        lab = "ill_intermediate_outside" if c[1] is None else "ill_intermediate_in_%s" % c[1]
        return {"src": new, "expect": "exact", "line": line_of(src, c[0]), "label": lab,
                "kinds": ("intermediate_outside", "intermediate_wrong_parent"), "parent": c[1]}
    if kind in ("jump", "jump_in_apply_in_loop"):
        cands = [p for p in r.points if p[2] is False]
        if kind == "jump_in_apply_in_loop":
            cands = [p for p in cands if p[5]]
            if not cands:
                c = pick(r.points)
                if src[:c[0]].endswith("{"):
                    return None
                loop = ["for i0 in range(2)", "while False", "for x0 in items"][variant % 3]
                jump = ["break", "continue"][(variant // 3) % 2]
                snippet = "{%% %s %%}a{%% apply up %%}b{%% if t %%}{%% %s %%}{%% end %%}{%% end %%}{%% end %%}" % (loop, jump)
                return {"src": insert_at(c[0], snippet), "expect": "exact", "line": line_of(src, c[0]),
                        "label": "ill_jump_in_apply_in_loop", "kinds": ("jump_outside_loop",), "parent": "apply"}
        c = pick(cands)
        if c is None or src[:c[0]].endswith("{"):
            return None
        snippet = ["{% break %}", "{% continue %}", "{%break%}"][variant % 3]
        new = insert_at(c[0], snippet)
        lab = "ill_jump_in_apply_in_loop" if c[5] else ("ill_jump_in_apply" if c[1] == "apply" else "ill_jump_outside_loop")
        return {"src": new, "expect": "exact", "line": line_of(src, c[0]), "label": lab, "kinds": ("jump_outside_loop",),
                "parent": c[1]}
    if kind == "opener_no_name":
        c = pick(r.points)
        if src[:c[0]].endswith("{"):
            return None
        op = ["block", "apply"][variant % 2]
        multi = (variant // 2) % 2
        snippet = "{%% %s %%}%sx%s{%% end %%}" % (op, "\n" if multi else "", "\n" if multi else "")
        new = insert_at(c[0], snippet)
        return {"src": new, "expect": "exact", "line": line_of(src, c[0]),
                "label": "ill_%s_no_name%s" % (op, "_multiline" if multi else ""), "kinds": (op + "_no_name",),
                "multiline": bool(multi), "op": op}
    if kind == "unterminated_block_tail":
        # every kind of block left open at the end of the file x every kind of text tail: the file is cut at
        # a generated position, an opener + body is written there and nothing closes it
        c = pick(r.points)
        if src[:c[0]].endswith("{"):
            return None
        opener = ["if t", "for i0 in range(2)", "while False", "block zz9", "apply up", "try"][variant % 6]
        tails = ["", "{", " {", "x{", "\n{", "}{", "{{!", "{%!", "{#!", "{{! {", "{%!{", "x\n\n {", "{ ", "{}", "{{ n", "{% if t", "{# c",
                 "{{", "{%", "{#"]
        tail = tails[(selector // 3) % len(tails)]
        body_text = ["body ", "", "a\nb ", "{{ n }}"][selector % 4]
        head = src[:c[0]] + "{% " + opener + " %}" + body_text
        new = head + tail
        lo = line_of(src, c[0])
        tail_kind = "lone_brace" if tail.rstrip(" ").endswith("{") and not tail.endswith(("{{", "{{ ")) else "other"
        if tail in ("{{ n", "{% if t", "{# c", "{{", "{%", "{#"):
            return {"src": new, "expect": "exact", "line": line_of(new, len(head)), "label": "ill_open_block_unterminated_tag_tail",
                    "kinds": ("unterminated_expr", "unterminated_block", "unterminated_comment")}
        label = {"": "ill_open_block_empty_tail"}.get(tail, "ill_open_block_escape_tail" if "!" in tail else
                                                       ("ill_open_block_lone_brace_tail" if tail.rstrip(" ").endswith("{") else "ill_open_block_text_tail"))
        return {"src": new, "expect": "range", "lo": lo, "hi": 1 + new.count("\n"), "label": label, "kinds": ("missing_end",)}
    if kind == "python_level":
        # not well-formed at the level of the Python statement the directive maps to: the documentation
        # promises "the same as the python statement" / "random Python errors" -> ParseError or SyntaxError
        c = pick(r.points)
        if src[:c[0]].endswith("{"):
            return None
        snippets = ["{% raw %}", "{% if %}x{% end %}", "{% if t %}a{% else %}b{% else %}c{% end %}", "{% try %}x{% end %}",
                    "{% try %}x{% else %}y{% end %}", "{% if t %}a{% else %}b{% elif z %}c{% end %}", "{% for %}x{% end %}",
                    "{% while %}x{% end %}"]
        new = insert_at(c[0], snippets[variant % len(snippets)])
        return {"src": new, "expect": "python_level", "line": line_of(src, c[0]), "label": "either_python_level_error",
                "kinds": None}
    raise AssertionError(kind)


# --------------------------------------------------------------------- directory-structured sets
def _cfg(profile, pools, includes, blocks, budget):
    return {
        "profile": profile, "max_depth": 2, "budget": [budget],
        "value_exprs": pools.get("value_exprs", VALUE_EXPRS), "conds": pools.get("conds", CONDS),
        "for_heads": pools.get("for_heads", FOR_HEADS), "set_stmts": pools.get("set_stmts", SET_STMTS),
        "apply_fns": pools.get("apply_fns", APPLY_FNS), "autoescapes": pools.get("autoescapes", AUTOESCAPES),
        "except_specs": pools.get("except_specs", EXCEPT_SPECS), "includes": includes, "blocks": blocks,
        "state": {"autoescape_used": False}, "allow_autoescape": True,
    }


@st.composite
def dirs_case_strategy(draw, profile="c19", pools=None):
    """Template sets spread over 2-3 directories ('a', 'b', root) in which the SAME relative name
    ('part.EXT', 'base.EXT', '../x/part.EXT') written in different directories means different files,
    plus a history of entry points loaded through ONE loader (so its cache is warm).

    Every file starts with a marker naming it, so that a mixed-up file is visible in the output.
    Result: the usual case dict + "history": [entry names]; files[0] is the first entry."""
    pools = pools or {}
    dirs = draw(st.sampled_from([["a", "b"], ["a", ""], ["", "b"], ["a", "b", ""], ["b", "a", ""], ["a", "a/c"], ["a/c", "a", ""]]))
    ext = ".txt" if profile == "c20" else draw(st.sampled_from([".html", ".txt", ".js"]))
    has_base = draw(st.booleans())
    cross = draw(st.booleans())
    join = lambda d, n: (d + "/" + n) if d else n
    files = []
    pages, parts = [], []
    for di, d in enumerate(dirs):
        part = join(d, "part" + ext)
        page = join(d, "page" + ext)
        parts.append(part)
        pages.append(page)
        # part: a leaf
        cfg = _cfg(profile, pools, [], set(), 5)
        body = [["text", "P%s " % part.replace("/", " ").replace(".", " ")]] + draw(body_strategy(cfg, 0, False, cfg["budget"]))
        files.append({"name": part, "extends": None, "body": fix_loop_else(body)})
        if has_base:
            base = join(d, "base" + ext)
            cfg = _cfg(profile, pools, [], set(BLOCK_NAMES), 6)
            body = [["text", "B%s " % base.replace("/", " ").replace(".", " ")]] + draw(body_strategy(cfg, 0, False, cfg["budget"]))
            if not any(nd[0] == "block" for nd in walk_nodes(body)):
                body.append(["block", "b0", [["text", "dflt"]]])
            files.append({"name": base, "extends": None, "body": fix_loop_else(body)})
        # page: includes its sibling 'part.EXT' by the bare relative name, maybe another directory's part
        incs = ["part" + ext]
        if cross:
            other = dirs[(di + 1) % len(dirs)]
            incs.append(relname(page, join(other, "part" + ext)))
        cfg = _cfg(profile, pools, incs, set(BLOCK_NAMES) if has_base else set(), 7)
        inner = draw(body_strategy(cfg, 0, False, cfg["budget"]))
        q = draw(st.integers(0, 2))
        forced = [["include", i, q] for i in incs if not _mentions_include(inner, i)]
        inner = [["text", "G%s " % page.replace("/", " ").replace(".", " ")]] + inner + forced
        if has_base:
            used = {nd[1] for nd in walk_nodes(inner) if nd[0] == "block"}
            free = [b for b in BLOCK_NAMES if b not in used]
            if free and draw(st.integers(0, 3)) > 0:
                # the page's own content goes into a block of its directory's base
                inner = [["block", free[0], inner]]
            body = inner
            extends = ["base" + ext, draw(st.integers(0, 2)), draw(st.integers(0, len(body)))]
        else:
            body = inner
            extends = None
        files.append({"name": page, "extends": extends, "body": fix_loop_else(body)})
    entries = list(pages) + parts
    if not has_base:
        # an index at the root that includes every directory's page by path
        index = "index" + ext
        q = draw(st.integers(0, 2))
        body = [["text", "I "]] + [["include", p, q] for p in draw(st.permutations(pages))]
        files.append({"name": index, "extends": None, "body": body})
        entries.append(index)
    first = draw(st.permutations(pages))
    more = draw(st.lists(st.sampled_from(entries), min_size=0, max_size=3))
    history = list(first) + more if draw(st.booleans()) else more[:1] + list(first) + more[1:]
    # files[0] = first entry (the single-entry code paths use it)
    files.sort(key=lambda fd: fd["name"] != history[0])
    loader = {
        "autoescape": draw(st.sampled_from(pools.get(
            "loader_autoescapes", ["default", "default", "xhtml_escape", None, "myesc", "url_escape"]))),
        "whitespace": draw(st.sampled_from([None, None, "all", "single", "oneline"])) if profile == "c19" else None,
    }
    return {"files": files, "loader": loader, "profile": profile, "tagstyle": draw(st.integers(0, 2)),
            "mutation": None, "history": history}


# ----------------------------------------------------------- deterministic nesting family (C19/C20)
def nest_layouts(e, settings, stride=3):
    """Composition nested two and three levels deep through a loader, every file with a DIFFERENT
    autoescape policy and an expression after every inner construct returns.  e = five expression
    sources; settings = names to permute.  Yields lists of file descriptions."""
    import itertools

    def ex(i):
        return ["expr", e[i % len(e)], 0]

    def au(p):
        return ["autoescape", p]

    layouts = []
    # L1: include in include (+ the same through a loop and an apply)
    layouts.append(lambda p: [
        {"name": "page.txt", "extends": None, "body": [au(p[0]), ex(0), ["include", "inc.txt", 0], ex(1)]},
        {"name": "inc.txt", "extends": None, "body": [au(p[1]), ex(2), ["include", "sub/deep/leaf.txt", 1], ex(3)]},
        {"name": "sub/deep/leaf.txt", "extends": None, "body": [au(p[2]), ex(4)]},
    ])
    layouts.append(lambda p: [
        {"name": "page.txt", "extends": None, "body": [au(p[0]), ["for", "i0 in range(2)", [["include", "sub/inc.txt", 0], ex(1)], None], ex(0)]},
        {"name": "sub/inc.txt", "extends": None, "body": [ex(2), ["apply", "ident", [["include", "deep/leaf.txt", 2], ex(3)]], ex(4), au(p[1])]},
        {"name": "sub/deep/leaf.txt", "extends": None, "body": [ex(4), au(p[2])]},
    ])
    # L2: three-level extends chain, include inside the innermost overriding block
    layouts.append(lambda p: [
        {"name": "page.txt", "extends": ["base.txt", 0, 0], "body": [au(p[2]), ["block", "b1", [ex(4), ["include", "inc.txt", 0], ex(0)]]]},
        {"name": "base.txt", "extends": ["root.txt", 1, 0], "body": [au(p[1]), ["block", "b0", [ex(2), ["block", "b1", [["text", "m"]]], ex(3)]]]},
        {"name": "root.txt", "extends": None, "body": [au(p[0]), ex(0), ["block", "b0", [["text", "r"]]], ex(1)]},
        {"name": "inc.txt", "extends": None, "body": [au(p[3]), ex(1)]},
    ])
    # L3: two-level extends, include in the overriding block, include in that include
    layouts.append(lambda p: [
        {"name": "sub/page.txt", "extends": ["../base.txt", 0, 0], "body": [au(p[1]), ["block", "b0", [ex(2), ["include", "inc.txt", 0], ex(3)]]]},
        {"name": "base.txt", "extends": None, "body": [au(p[0]), ex(0), ["block", "b0", []], ex(1)]},
        {"name": "sub/inc.txt", "extends": None, "body": [au(p[2]), ex(4), ["include", "deep/leaf.txt", 0], ex(0)]},
        {"name": "sub/deep/leaf.txt", "extends": None, "body": [au(p[3]), ex(1)]},
    ])
    # L4: block of the parent (not overridden) containing an include, after which the parent goes on
    layouts.append(lambda p: [
        {"name": "page.txt", "extends": ["base.txt", 0, 0], "body": [au(p[1]), ["block", "b1", [ex(3)]]]},
        {"name": "base.txt", "extends": None, "body": [au(p[0]), ["block", "b0", [["include", "inc.txt", 0], ex(0)]], ex(1),
                                                       ["block", "b1", []], ex(2)]},
        {"name": "inc.txt", "extends": None, "body": [au(p[2]), ["include", "leaf.txt", 0], ex(4)]},
        {"name": "leaf.txt", "extends": None, "body": [au(p[3]), ex(2)]},
    ])
    perms = list(itertools.permutations(settings, 4))
    for li, lay in enumerate(layouts):
        for p in perms[li % stride::stride]:
            yield lay(p)
