"""Independent strict HTTP/1.x readers used as oracles (written from RFC 9110/9112, no Tornado code).

Response side:  parse_responses(wire, methods, closed) -> list[Response]   (raises RefError)
Request side:   read_requests(data) -> (list[Request], verdict)   verdict in {"complete","incomplete","reject","either"}
"""
from __future__ import annotations

import zlib

TCHAR = set(b"!#$%&'*+-.^_`|~0123456789abcdefghijklmnopqrstuvwxyzABCDEFGHIJKLMNOPQRSTUVWXYZ")
DIGITS = set(b"0123456789")
HEXD = set(b"0123456789abcdefABCDEF")


class RefError(Exception):
    pass


class Response:
    def __init__(self):
        self.version = None
        self.code = None
        self.reason = None
        self.headers = []  # list of (name, value) str latin-1
        self.body = b""
        self.framing = None  # none | cl | chunked | close
        self.header_block = b""
        self.end = 0  # offset in the wire after this response

    def get(self, name, default=None):
        vals = [v for n, v in self.headers if n.lower() == name.lower()]
        return vals[0] if vals else default

    def get_all(self, name):
        return [v for n, v in self.headers if n.lower() == name.lower()]

    def __repr__(self):
        return "<Response %s %r %s body=%d %s>" % (self.code, self.reason, self.headers, len(self.body), self.framing)


def is_token(b: bytes) -> bool:
    return len(b) > 0 and all(c in TCHAR for c in b)


def is_field_value(b: bytes) -> bool:
    """field-value = *field-content; no CTLs except HTAB; no leading/trailing whitespace (already trimmed)."""
    for c in b:
        if c == 0x09 or 0x20 <= c <= 0x7E or c >= 0x80:
            continue
        return False
    return True


def _read_header_block(wire: bytes, pos: int, what: str):
    """Strict: lines end in CRLF, no obs-fold, no bare CR/LF.  Returns (lines, newpos)."""
    end = wire.find(b"\r\n\r\n", pos)
    if end < 0:
        raise RefError("%s: header block not terminated by CRLFCRLF" % what)
    block = wire[pos:end]
    lines = block.split(b"\r\n")
    for ln in lines:
        if b"\r" in ln or b"\n" in ln:
            raise RefError("%s: bare CR or LF inside header block: %r" % (what, ln))
        if b"\0" in ln:
            raise RefError("%s: NUL in header block" % what)
    return lines, end + 4


def _parse_fields(lines, what):
    out = []
    for ln in lines:
        if not ln:
            raise RefError("%s: empty header line" % what)
        if ln[:1] in (b" ", b"\t"):
            raise RefError("%s: obs-fold / leading whitespace line %r" % (what, ln))
        if b":" not in ln:
            raise RefError("%s: header line without colon %r" % (what, ln))
        name, _, value = ln.partition(b":")
        if not is_token(name):
            raise RefError("%s: invalid field name %r" % (what, name))
        value = value.strip(b" \t")
        if not is_field_value(value):
            raise RefError("%s: invalid field value %r" % (what, value))
        out.append((name.decode("latin-1"), value.decode("latin-1")))
    return out


def _content_length(headers, what):
    vals = [v for n, v in headers if n.lower() == "content-length"]
    if not vals:
        return None
    items = []
    for v in vals:
        items.extend(x.strip(" \t") for x in v.split(","))
    for it in items:
        if not it or any(ord(c) not in DIGITS for c in it):
            raise RefError("%s: invalid Content-Length %r" % (what, vals))
    if len(set(int(i) for i in items)) != 1 or len(set(items)) != 1:
        raise RefError("%s: conflicting Content-Length %r" % (what, vals))
    return int(items[0])


def _read_chunked(wire, pos, what, allow_ext=False):
    body = bytearray()
    while True:
        eol = wire.find(b"\r\n", pos)
        if eol < 0:
            raise RefError("%s: chunk-size line not terminated" % what)
        line = wire[pos:eol]
        size_part = line
        if b";" in line:
            if not allow_ext:
                raise RefError("%s: chunk extension %r" % (what, line))
            size_part = line.split(b";", 1)[0].rstrip(b" \t")
        if not size_part or any(c not in HEXD for c in size_part):
            raise RefError("%s: bad chunk size %r" % (what, line))
        n = int(size_part, 16)
        pos = eol + 2
        if n == 0:
            # trailer section: only the empty one is accepted by this strict reader
            if wire[pos : pos + 2] != b"\r\n":
                raise RefError("%s: last chunk not followed by CRLF (trailers unsupported): %r" % (what, wire[pos : pos + 20]))
            return bytes(body), pos + 2
        if len(wire) < pos + n + 2:
            raise RefError("%s: truncated chunk data" % what)
        body += wire[pos : pos + n]
        if wire[pos + n : pos + n + 2] != b"\r\n":
            raise RefError("%s: chunk data not followed by CRLF" % what)
        pos += n + 2


def parse_status_line(line: bytes, what="response"):
    # status-line = HTTP-version SP status-code SP [reason-phrase]
    if len(line) < 13 or line[:5] != b"HTTP/" or line[5] not in DIGITS or line[6:7] != b"." or line[7] not in DIGITS:
        raise RefError("%s: bad status line %r" % (what, line))
    if line[8:9] != b" " or any(c not in DIGITS for c in line[9:12]) or line[12:13] != b" ":
        raise RefError("%s: bad status line %r" % (what, line))
    reason = line[13:]
    for c in reason:
        if not (c == 0x09 or 0x20 <= c <= 0x7E or c >= 0x80):
            raise RefError("%s: bad reason phrase %r" % (what, reason))
    return line[:8].decode(), int(line[9:12]), reason.decode("latin-1")


def parse_responses(wire: bytes, methods, closed: bool, max_responses=None, strict_204=False):
    """Parse the server->client byte stream as a sequence of responses to requests with the given
    methods (interim 1xx responses are returned too, flagged by their code).  `closed` tells whether
    the server closed the connection after these bytes (needed for close-delimited bodies).
    Raises RefError if the stream is not a well-framed sequence; trailing garbage is an error."""
    out = []
    pos = 0
    mi = 0
    while pos < len(wire):
        if max_responses is not None and len(out) >= max_responses:
            break
        if mi >= len(methods):
            raise RefError("bytes after the last expected response: %r" % wire[pos : pos + 80])
        what = "response#%d" % len(out)
        lines, hend = _read_header_block(wire, pos, what)
        r = Response()
        r.header_block = wire[pos:hend]
        r.version, r.code, r.reason = parse_status_line(lines[0], what)
        r.headers = _parse_fields(lines[1:], what)
        te = [v for n, v in r.headers if n.lower() == "transfer-encoding"]
        cl = _content_length(r.headers, what)
        method = methods[mi]
        if 100 <= r.code < 200:
            if te or cl is not None:
                raise RefError("%s: 1xx with Content-Length/Transfer-Encoding" % what)
            r.framing = "none"
            r.end = pos = hend
            out.append(r)
            if r.code == 101:
                break
            continue  # same request, next response
        if method == "HEAD" or r.code in (204, 304):
            if strict_204 and r.code == 204 and (te or cl not in (None,)):
                # RFC 9110: a server MUST NOT send Content-Length / TE in a 204
                raise RefError("%s: 204 with Content-Length/Transfer-Encoding" % what)
            r.framing = "none"
            pos = hend
        elif te:
            if cl is not None:
                raise RefError("%s: both Transfer-Encoding and Content-Length" % what)
            if len(te) != 1 or te[0].lower() != "chunked":
                raise RefError("%s: unsupported Transfer-Encoding %r" % (what, te))
            r.body, pos = _read_chunked(wire, hend, what)
            r.framing = "chunked"
        elif cl is not None:
            if len(wire) < hend + cl:
                raise RefError("%s: body shorter than Content-Length (%d < %d)" % (what, len(wire) - hend, cl))
            r.body = wire[hend : hend + cl]
            pos = hend + cl
            r.framing = "cl"
        else:
            if not closed:
                raise RefError("%s: body delimited by neither Content-Length nor chunking and the connection stays open" % what)
            r.body = wire[hend:]
            pos = len(wire)
            r.framing = "close"
        r.end = pos
        out.append(r)
        mi += 1
    return out


def gunzip_strict(data: bytes) -> bytes:
    """Decode a complete gzip stream (one or more members) with zlib; raises on truncation/garbage."""
    out = bytearray()
    while data:
        d = zlib.decompressobj(16 + zlib.MAX_WBITS)
        out += d.decompress(data)
        if not d.eof:
            raise RefError("truncated gzip stream")
        data = d.unused_data
    return bytes(out)
