"""Independent strict HTTP/1.x readers used as oracles (written from RFC 9110/9112, no Tornado code).

Response side:  parse_responses(wire, methods, closed) -> list[Response]   (raises RefError)
Request side:   read_requests(data) -> (list[Request], verdict)   verdict in {"complete","incomplete","reject","either"}
"""
from __future__ import annotations

import zlib

TCHAR = set(b"!#$%&'*+-.^_`|~0123456789abcdefghijklmnopqrstuvwxyzABCDEFGHIJKLMNOPQRSTUVWXYZ")
DIGITS = set(b"0123456789")
HEXD = set(b"0123456789abcdefABCDEF")


class RefError(Exception):
    pass


class Response:
    def __init__(self):
        self.version = None
        self.code = None
        self.reason = None
        self.headers = []  # list of (name, value) str latin-1
        self.body = b""
        self.framing = None  # none | cl | chunked | close
        self.header_block = b""
        self.end = 0  # offset in the wire after this response

    def get(self, name, default=None):
        vals = [v for n, v in self.headers if n.lower() == name.lower()]
        return vals[0] if vals else default

    def get_all(self, name):
        return [v for n, v in self.headers if n.lower() == name.lower()]

    def __repr__(self):
        return "<Response %s %r %s body=%d %s>" % (self.code, self.reason, self.headers, len(self.body), self.framing)


def is_token(b: bytes) -> bool:
    return len(b) > 0 and all(c in TCHAR for c in b)


def is_field_value(b: bytes) -> bool:
    """field-value = *field-content; no CTLs except HTAB; no leading/trailing whitespace (already trimmed)."""
    for c in b:
        if c == 0x09 or 0x20 <= c <= 0x7E or c >= 0x80:
            continue
        return False
    return True


def _read_header_block(wire: bytes, pos: int, what: str):
    """Strict: lines end in CRLF, no obs-fold, no bare CR/LF.  Returns (lines, newpos)."""
    end = wire.find(b"\r\n\r\n", pos)
    if end < 0:
        raise RefError("%s: header block not terminated by CRLFCRLF" % what)
    block = wire[pos:end]
    lines = block.split(b"\r\n")
    for ln in lines:
        if b"\r" in ln or b"\n" in ln:
            raise RefError("%s: bare CR or LF inside header block: %r" % (what, ln))
        if b"\0" in ln:
            raise RefError("%s: NUL in header block" % what)
    return lines, end + 4


def _parse_fields(lines, what):
    out = []
    for ln in lines:
        if not ln:
            raise RefError("%s: empty header line" % what)
        if ln[:1] in (b" ", b"\t"):
            raise RefError("%s: obs-fold / leading whitespace line %r" % (what, ln))
        if b":" not in ln:
            raise RefError("%s: header line without colon %r" % (what, ln))
        name, _, value = ln.partition(b":")
        if not is_token(name):
            raise RefError("%s: invalid field name %r" % (what, name))
        value = value.strip(b" \t")
        if not is_field_value(value):
            raise RefError("%s: invalid field value %r" % (what, value))
        out.append((name.decode("latin-1"), value.decode("latin-1")))
    return out


def _content_length(headers, what):
    vals = [v for n, v in headers if n.lower() == "content-length"]
    if not vals:
        return None
    items = []
    for v in vals:
        items.extend(x.strip(" \t") for x in v.split(","))
    for it in items:
        if not it or any(ord(c) not in DIGITS for c in it):
            raise RefError("%s: invalid Content-Length %r" % (what, vals))
    if len(set(int(i) for i in items)) != 1 or len(set(items)) != 1:
        raise RefError("%s: conflicting Content-Length %r" % (what, vals))
    return int(items[0])


def _read_chunked(wire, pos, what, allow_ext=False):
    body = bytearray()
    while True:
        eol = wire.find(b"\r\n", pos)
        if eol < 0:
            raise RefError("%s: chunk-size line not terminated" % what)
        line = wire[pos:eol]
        size_part = line
        if b";" in line:
            if not allow_ext:
                raise RefError("%s: chunk extension %r" % (what, line))
            size_part = line.split(b";", 1)[0].rstrip(b" \t")
        if not size_part or any(c not in HEXD for c in size_part):
            raise RefError("%s: bad chunk size %r" % (what, line))
        n = int(size_part, 16)
        pos = eol + 2
        if n == 0:
            # trailer section: only the empty one is accepted by this strict reader
            if wire[pos : pos + 2] != b"\r\n":
                raise RefError("%s: last chunk not followed by CRLF (trailers unsupported): %r" % (what, wire[pos : pos + 20]))
            return bytes(body), pos + 2
        if len(wire) < pos + n + 2:
            raise RefError("%s: truncated chunk data" % what)
        body += wire[pos : pos + n]
        if wire[pos + n : pos + n + 2] != b"\r\n":
            raise RefError("%s: chunk data not followed by CRLF" % what)
        pos += n + 2


def parse_status_line(line: bytes, what="response"):
    # status-line = HTTP-version SP status-code SP [reason-phrase]
    if len(line) < 13 or line[:5] != b"HTTP/" or line[5] not in DIGITS or line[6:7] != b"." or line[7] not in DIGITS:
        raise RefError("%s: bad status line %r" % (what, line))
    if line[8:9] != b" " or any(c not in DIGITS for c in line[9:12]) or line[12:13] != b" ":
        raise RefError("%s: bad status line %r" % (what, line))
    reason = line[13:]
    for c in reason:
        if not (c == 0x09 or 0x20 <= c <= 0x7E or c >= 0x80):
            raise RefError("%s: bad reason phrase %r" % (what, reason))
    return line[:8].decode(), int(line[9:12]), reason.decode("latin-1")


def parse_responses(wire: bytes, methods, closed: bool, max_responses=None, strict_204=False):
    """Parse the server->client byte stream as a sequence of responses to requests with the given
    methods (interim 1xx responses are returned too, flagged by their code).  `closed` tells whether
    the server closed the connection after these bytes (needed for close-delimited bodies).
    Raises RefError if the stream is not a well-framed sequence; trailing garbage is an error."""
    out = []
    pos = 0
    mi = 0
    while pos < len(wire):
        if max_responses is not None and len(out) >= max_responses:
            break
        if mi >= len(methods):
            raise RefError("bytes after the last expected response: %r" % wire[pos : pos + 80])
        what = "response#%d" % len(out)
        lines, hend = _read_header_block(wire, pos, what)
        r = Response()
        r.header_block = wire[pos:hend]
        r.version, r.code, r.reason = parse_status_line(lines[0], what)
        r.headers = _parse_fields(lines[1:], what)
        te = [v for n, v in r.headers if n.lower() == "transfer-encoding"]
        cl = _content_length(r.headers, what)
        method = methods[mi]
        if 100 <= r.code < 200:
            if te or cl is not None:
                raise RefError("%s: 1xx with Content-Length/Transfer-Encoding" % what)
            r.framing = "none"
            r.end = pos = hend
            out.append(r)
            if r.code == 101:
                break
            continue  # same request, next response
        if method == "HEAD" or r.code in (204, 304):
            if strict_204 and r.code == 204 and (te or cl not in (None,)):
                # RFC 9110: a server MUST NOT send Content-Length / TE in a 204
                raise RefError("%s: 204 with Content-Length/Transfer-Encoding" % what)
            r.framing = "none"
            pos = hend
        elif te:
            if cl is not None:
                raise RefError("%s: both Transfer-Encoding and Content-Length" % what)
            if len(te) != 1 or te[0].lower() != "chunked":
                raise RefError("%s: unsupported Transfer-Encoding %r" % (what, te))
            r.body, pos = _read_chunked(wire, hend, what)
            r.framing = "chunked"
        elif cl is not None:
            if len(wire) < hend + cl:
                raise RefError("%s: body shorter than Content-Length (%d < %d)" % (what, len(wire) - hend, cl))
            r.body = wire[hend : hend + cl]
            pos = hend + cl
            r.framing = "cl"
        else:
            if not closed:
                raise RefError("%s: body delimited by neither Content-Length nor chunking and the connection stays open" % what)
            r.body = wire[hend:]
            pos = len(wire)
            r.framing = "close"
        r.end = pos
        out.append(r)
        mi += 1
    return out


def gunzip_strict(data: bytes) -> bytes:
    """Decode a complete gzip stream (one or more members) with zlib; raises on truncation/garbage."""
    out = bytearray()
    while data:
        d = zlib.decompressobj(16 + zlib.MAX_WBITS)
        out += d.decompress(data)
        if not d.eof:
            raise RefError("truncated gzip stream")
        data = d.unused_data
    return bytes(out)


# =========================================================================== request side
# Reference reader for a client->server byte stream: strict RFC 9112 plus the leniencies Tornado
# documents (bare-LF line ends, obs-fold continuation lines, one leading blank line).  Three-valued:
# every message is ACCEPT (fully determined), REJECT, or EITHER (RFC and Tornado's documented
# behaviour legitimately differ / the property statement is silent).

HOST_CHARS = set(b"ABCDEFGHIJKLMNOPQRSTUVWXYZabcdefghijklmnopqrstuvwxyz0123456789-._~!$&'()*+;=[]:")


class Request:
    def __init__(self):
        self.method = self.target = self.version = None
        self.headers = []  # (name, value) latin-1 str, in order, obs-fold unfolded
        self.body = b""
        self.framing = "none"
        self.persistent = True
        self.expect_continue = False
        self.start = self.end = 0

    def as_tuple(self):
        return (self.method, self.target, self.version, [(n.lower(), v) for n, v in self.headers], self.body)

    def __repr__(self):
        return "<Request %s %s %s %s body=%r>" % (self.method, self.target, self.version, self.headers, self.body[:40])


class Verdict:
    """state: end | incomplete | reject | either ; why: short reason"""

    def __init__(self, state, why="", pos=0):
        self.state, self.why, self.pos = state, why, pos

    def __repr__(self):
        return "<%s %s @%d>" % (self.state, self.why, self.pos)


def valid_host(v: bytes) -> bool:
    i = 0
    while i < len(v):
        c = v[i]
        if c == 0x25:  # %
            if len(v) < i + 3 or v[i + 1] not in HEXD or v[i + 2] not in HEXD:
                return False
            i += 3
            continue
        if c not in HOST_CHARS:
            return False
        i += 1
    return True


def _find_head_end(data, pos):
    """Earliest end of a header block: LF followed by LF or CRLF.  Returns (idx_of_first_LF, idx_after)."""
    i = data.find(b"\n", pos)
    while i >= 0:
        if data[i + 1 : i + 2] == b"\n":
            return i, i + 2
        if data[i + 1 : i + 3] == b"\r\n":
            return i, i + 3
        if i + 1 >= len(data) or (data[i + 1 : i + 2] == b"\r" and i + 2 >= len(data)):
            return None
        i = data.find(b"\n", i + 1)
    return None


def read_requests(data: bytes, host_check=True, max_chunk_line=64):
    """-> (list[Request], Verdict).  The verdict describes what follows the accepted requests."""
    out = []
    pos = 0
    n = len(data)
    while True:
        if pos >= n:
            return out, Verdict("end", "", pos)
        start = pos
        # --- leading blank lines
        blanks = 0
        p = pos
        while True:
            if data[p : p + 2] == b"\r\n":
                p += 2
                blanks += 1
            elif data[p : p + 1] == b"\n":
                p += 1
                blanks += 1
            else:
                break
        if blanks >= 2:
            return out, Verdict("either", "two or more leading blank lines", pos)
        if data[p : p + 1] == b"\r":
            # stray CR(s) in front of the request line: neither a blank line nor part of the request line
            q = p
            while data[q : q + 1] in (b"\r", b"\n"):
                q += 1
            if q < n or True:
                if q >= n:
                    return out, Verdict("incomplete", "only CR/LF so far", pos)
                return out, Verdict("either", "stray CR before the request line", pos)
        if p >= n:
            return out, Verdict("incomplete", "only blank line so far", pos)
        if data[p : p + 1] == b"\r" and p + 1 >= n:
            return out, Verdict("incomplete", "dangling CR", pos)
        he = _find_head_end(data, p)
        if he is None:
            return out, Verdict("incomplete", "header block not complete", pos)
        first_lf, after = he
        raw_lines = data[p : first_lf + 1].split(b"\n")[:-1]
        lines = [ln[:-1] if ln.endswith(b"\r") else ln for ln in raw_lines]
        r = Request()
        r.start = start
        # --- request line
        rl = lines[0]
        if rl.endswith(b"\r"):
            # "request-line CR CR LF": a strict reader rejects the stray CR, Tornado's documented start-line
            # handling strips trailing CRs; the statement does not decide it
            return out, Verdict("either", "stray CR at the end of the request line", pos)
        parts = rl.split(b" ")
        if len(parts) != 3:
            return out, Verdict("reject", "request line does not have three SP-separated parts", pos)
        m, t, v = parts
        if not is_token(m):
            return out, Verdict("reject", "method is not a token", pos)
        if not t or any(not (0x21 <= c <= 0x7E or c >= 0x80) for c in t):
            return out, Verdict("reject", "request-target has control/whitespace or is empty", pos)
        if len(v) != 8 or v[:5] != b"HTTP/" or v[5] not in DIGITS or v[6:7] != b"." or v[7] not in DIGITS:
            return out, Verdict("reject", "malformed HTTP-version", pos)
        if v[5:6] != b"1":
            return out, Verdict("reject", "unsupported major version", pos)
        # HTTP/1.x with x >= 2: a recipient processes it as the highest minor version it implements (1.1),
        # so everything that makes an HTTP/1.1 message invalid (missing Host, bad framing) still rejects it;
        # whether an otherwise valid one is accepted, and its persistence, is left open (EITHER).
        other_minor = v not in (b"HTTP/1.0", b"HTTP/1.1")
        r.method, r.target, r.version = m.decode("latin-1"), t.decode("latin-1"), v.decode()
        if other_minor:
            r.version = "HTTP/1.1"
        # --- header fields
        fields = []
        for ln in lines[1:]:
            if ln[:1] in (b" ", b"\t"):
                if not fields:
                    return out, Verdict("reject", "first header line starts with whitespace", pos)
                cont = ln.strip(b" \t")
                if not is_field_value(cont):
                    return out, Verdict("reject", "invalid continuation content", pos)
                name, val = fields[-1]
                fields[-1] = (name, (val + b" " + cont).strip(b" \t"))
                continue
            if b":" not in ln:
                return out, Verdict("reject", "header line without colon", pos)
            name, _, val = ln.partition(b":")
            if not is_token(name):
                return out, Verdict("reject", "field name is not a token", pos)
            val = val.strip(b" \t")
            if not is_field_value(val):
                return out, Verdict("reject", "invalid field value", pos)
            fields.append((name, val))
        r.headers = [(a.decode("latin-1"), b.decode("latin-1")) for a, b in fields]

        def vals(nm):
            return [b for a, b in fields if a.lower() == nm]

        # --- Host
        if host_check:
            hosts = vals(b"host")
            if r.version == "HTTP/1.1" and not hosts:
                return out, Verdict("reject", "missing Host", pos)
            if len(hosts) > 1:
                return out, Verdict("reject", "multiple Host", pos)
            if hosts:
                if b"," in hosts[0]:
                    return out, Verdict("reject", "comma in Host", pos)
                hv = hosts[0]
                hostpart = hv
                if not valid_host(hostpart):
                    return out, Verdict("reject", "invalid Host", pos)
        # --- framing
        te = vals(b"transfer-encoding")
        cls = vals(b"content-length")
        cl = None
        if cls:
            items = []
            for x in cls:
                items.extend(x.split(b","))
            stripped = [i.strip(b" \t") for i in items]
            if any(i != j.lstrip(b" \t") for i, j in zip(stripped, items)):
                # OWS before a comma: legal list syntax that Tornado treats as unequal
                weird = True
            else:
                weird = False
            for it in stripped:
                if not it or any(c not in DIGITS for c in it):
                    return out, Verdict("reject", "non-numeric Content-Length", pos)
            if len(set(stripped)) != 1:
                return out, Verdict("reject", "conflicting Content-Length", pos)
            if weird:
                return out, Verdict("either", "Content-Length list with OWS before comma", pos)
            if len(stripped[0]) > 9:
                return out, Verdict("either", "Content-Length beyond any configured body limit", pos)
            cl = int(stripped[0])
        if te:
            if cls:
                return out, Verdict("reject", "Content-Length together with Transfer-Encoding", pos)
            tev = b",".join(te)
            if tev.lower() != b"chunked":
                return out, Verdict("reject", "transfer coding other than chunked", pos)
            if r.version == "HTTP/1.0":
                return out, Verdict("either", "Transfer-Encoding in an HTTP/1.0 message", pos)
        if other_minor:
            return out, Verdict("either", "HTTP/1.x minor version other than 0/1", pos)
        exp = vals(b"expect")
        r.expect_continue = any(e.lower() == b"100-continue" for e in exp)
        body_pos = after
        if te:
            r.framing = "chunked"
            body = bytearray()
            q = body_pos
            while True:
                eol = data.find(b"\r\n", q)
                lf = data.find(b"\n", q)
                if lf >= 0 and (eol < 0 or lf < eol):
                    return out, Verdict("reject", "chunk-size line terminated by bare LF", pos)
                if eol < 0:
                    if n - q > max_chunk_line:
                        return out, Verdict("either", "over-long unterminated chunk-size line", pos)
                    return out, Verdict("incomplete", "chunk-size line not complete", pos)
                line = data[q:eol]
                if b";" in line:
                    return out, Verdict("either", "chunk extension", pos)
                if not line or any(c not in HEXD for c in line):
                    return out, Verdict("reject", "malformed chunk size", pos)
                if len(line) + 2 > max_chunk_line:
                    return out, Verdict("either", "chunk-size line longer than the reader's line limit", pos)
                size = int(line, 16)
                q = eol + 2
                if size == 0:
                    if n < q + 2:
                        if data[q:n] in (b"", b"\r"):
                            return out, Verdict("incomplete", "final CRLF not complete", pos)
                    if data[q : q + 2] == b"\r\n":
                        q += 2
                        break
                    if n < q + 2:
                        return out, Verdict("either", "trailer section (incomplete)", pos)
                    return out, Verdict("either", "trailer section or malformed terminator", pos)
                if n < q + size:
                    body += data[q:n]
                    return out, Verdict("incomplete", "chunk data not complete", pos)
                body += data[q : q + size]
                q += size
                if n < q + 2:
                    if data[q:n] in (b"", b"\r"):
                        return out, Verdict("incomplete", "chunk terminator not complete", pos)
                    return out, Verdict("reject", "malformed chunk terminator", pos)
                if data[q : q + 2] != b"\r\n":
                    return out, Verdict("reject", "malformed chunk terminator", pos)
                q += 2
            r.body = bytes(body)
            pos = q
        elif cl is not None:
            r.framing = "cl"
            if n < body_pos + cl:
                return out, Verdict("incomplete", "Content-Length body not complete", pos)
            r.body = data[body_pos : body_pos + cl]
            pos = body_pos + cl
        else:
            pos = body_pos
        # --- persistence (RFC 9112 section 9.3 as Tornado documents it: whole-value comparison)
        conn = [c.lower() for c in vals(b"connection")]
        connv = b",".join(conn)
        if r.version == "HTTP/1.1":
            r.persistent = connv != b"close"
            r.persistence_either = (b"close" in connv and connv != b"close")
        else:
            r.persistent = connv == b"keep-alive" and (r.framing != "none" or r.method in ("GET", "HEAD"))
            r.persistence_either = (b"keep-alive" in connv and connv != b"keep-alive")
        r.end = pos
        out.append(r)
        if r.persistence_either:
            return out, Verdict("either", "multi-token Connection header", pos)
        if not r.persistent:
            return out, Verdict("end", "connection not persistent after this request", pos)
