"""Static-file fixtures for C26 / C27: a directory tree built once per process under a fresh
``tempfile.mkdtemp()`` and removed at exit.  Nothing pre-existing in /tmp is relied upon.

    fx = staticfix.tree()      # C26 tree (root + prefix-sharing siblings), see TREE below
    fx.base, fx.root, fx.content[abs_path] -> bytes

    staticfix.range_file(n)    # C27: (root_dir, file_name, content) for a file of n bytes
"""
from __future__ import annotations

import atexit
import os
import shutil
import tempfile

MARK = b"<<MARK:"

# relative to base; every file's content is unique and starts with MARK
TREE = [
    "root/a.txt",
    "root/sub/b.txt",
    "root/sub/index.html",
    "root/sub/deep/c.txt",
    "root/noindex/d.txt",
    "root/café.txt",
    "root_secret/s.txt",
    "root_secret/index.html",
    "rootx",
    "roo/r.txt",
    "outside.txt",
    "abs/path/to/secret",
    # siblings that differ from the root ("root") only in letter case (the fixture lives on a case-sensitive filesystem)
    "Root/cs.txt",
    "ROOT/index.html",
    "ROOT/up.txt",
    "rOOt",
]
EMPTY_DIRS = ["root/emptydir"]

_dirs = []


def _cleanup():
    for d in _dirs:
        shutil.rmtree(d, ignore_errors=True)


atexit.register(_cleanup)


def _mkdtemp(prefix):
    d = os.path.realpath(tempfile.mkdtemp(prefix=prefix))
    _dirs.append(d)
    return d


class Tree:
    def __init__(self):
        self.base = _mkdtemp("verif-static-")
        self.root = os.path.join(self.base, "root")
        self.content = {}
        for rel in TREE:
            p = os.path.join(self.base, rel)
            os.makedirs(os.path.dirname(p), exist_ok=True)
            data = MARK + rel.encode("utf-8") + b">>" + bytes((len(rel) * 7 + i) % 251 for i in range(40))
            with open(p, "wb") as f:
                f.write(data)
            self.content[p] = data
        for rel in EMPTY_DIRS:
            os.makedirs(os.path.join(self.base, rel), exist_ok=True)
        # the letter-case siblings only mean something on a case-sensitive filesystem
        self.case_sensitive = not os.path.samefile(self.root, os.path.join(self.base, "Root"))


_tree = None


def tree() -> Tree:
    global _tree
    if _tree is None:
        _tree = Tree()
    return _tree


_range_root = None
_range_files = {}


def range_content(n: int) -> bytes:
    return bytes((i * 7) % 251 for i in range(n))


def range_file(n: int):
    """(root_dir, file_name, content, mtime) of the n-byte fixture file (created on first use).
    The mtime is pinned to a fixed second so conditional-request cases replay identically."""
    global _range_root
    if _range_root is None:
        _range_root = _mkdtemp("verif-range-")
    if n not in _range_files:
        name = "f%d.bin" % n
        p = os.path.join(_range_root, name)
        data = range_content(n)
        with open(p, "wb") as f:
            f.write(data)
        os.utime(p, (RANGE_MTIME, RANGE_MTIME))
        _range_files[n] = (name, data)
    name, data = _range_files[n]
    return _range_root, name, data, RANGE_MTIME


RANGE_MTIME = 1_600_000_000  # Sun, 13 Sep 2020 12:26:40 GMT
