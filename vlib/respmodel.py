"""Handler programs for the response-side properties (C02, C03, C29).

A *handler program* is a plain-data list of ops interpreted by a generic RequestHandler
(`ProgramHandler`) and, independently, by a small pure-Python model (`predict`) that says what the
HTTP response has to look like according to the documented RequestHandler contract:

    ("status", code, reason|None)            set_status
    ("set_header"|"add_header", name, value) value: str | bytes | int
    ("clear_header", name)
    ("set_cl", delta)                        set_header("Content-Length", <bytes the program writes> + delta)
    ("write", chunk)                         chunk: bytes | str | dict | ("fill", n, k)
    ("flush", awaited)                       awaited: bool
    ("finish", chunk|None)
    ("redirect", url, permanent, status|None)
    ("raise_http", code) / ("raise_finish", chunk|None) / ("raise_value",)

The model deliberately knows nothing about wire framing (chunking, Connection header ...); it knows
which operations RequestHandler rejects, what status/headers/body the response carries, and when
Tornado tears the connection down instead (Content-Length guard).  Framing is judged by the strict
reader in vlib/httpref.py.
"""
from __future__ import annotations

import hashlib
import http.client
import json

from tornado.web import Application, Finish, HTTPError, RequestHandler, stream_request_body

DEFAULT_CT = "text/html; charset=UTF-8"
SECOND_REQUEST = b"GET /second HTTP/1.1\r\nHost: x\r\n\r\n"
SECOND_BODY = b"second"
REPRESENTATION_HEADERS = ("content-encoding", "content-language", "content-type")


# ----------------------------------------------------------------------------- chunks
def materialise(chunk):
    """Case-level chunk -> the object handed to RequestHandler.write."""
    if isinstance(chunk, (tuple, list)):
        kind, n, k = chunk
        if kind == "rand":
            # n incompressible bytes: SHA-256 in counter mode, keyed by k (deterministic)
            out = bytearray()
            i = 0
            while len(out) < n:
                out += hashlib.sha256(b"%d:%d" % (k, i)).digest()
                i += 1
            return bytes(out[:n])
        assert kind == "fill"
        return bytes(((i * k) + (i >> 8) + k) & 0xFF for i in range(n))
    return chunk


def chunk_bytes(chunk):
    """The bytes a written chunk contributes to the body (bytes as is, str as UTF-8, dict as JSON)."""
    c = materialise(chunk)
    if isinstance(c, bytes):
        return c
    if isinstance(c, str):
        return c.encode("utf-8")
    if isinstance(c, dict):
        # tornado.escape.json_encode is documented as json.dumps with "</" escaped
        return json.dumps(c).replace("</", "<\\/").encode("utf-8")
    raise TypeError(c)


def planned_length(prog):
    """Number of body bytes the program writes up to and including its first terminal op."""
    n = 0
    for op in prog:
        k = op[0]
        if k == "write":
            n += len(chunk_bytes(op[1]))
        elif k in ("finish", "raise_finish"):
            if op[1] is not None:
                n += len(chunk_bytes(op[1]))
            break
        elif k in ("redirect", "raise_http", "raise_value"):
            break
    return n


def resolve_prog(prog):
    """Replace symbolic ops (set_cl) by concrete ones."""
    total = planned_length(prog)
    out = []
    for op in prog:
        if op[0] == "set_cl":
            out.append(("set_header", "Content-Length", max(0, total + op[1])))
        else:
            out.append(tuple(op))
    return out


# ----------------------------------------------------------------------------- real handler
def _interpret(handler, prog):
    async def run():
        for op in prog:
            k = op[0]
            if k == "status":
                if op[2] is None:
                    handler.set_status(op[1])
                else:
                    handler.set_status(op[1], op[2])
            elif k == "set_header":
                handler.set_header(op[1], op[2])
            elif k == "add_header":
                handler.add_header(op[1], op[2])
            elif k == "clear_header":
                handler.clear_header(op[1])
            elif k == "write":
                handler.write(materialise(op[1]))
            elif k == "flush":
                fut = handler.flush()
                if op[1]:
                    await fut
            elif k == "finish":
                if op[1] is None:
                    handler.finish()
                else:
                    handler.finish(materialise(op[1]))
            elif k == "redirect":
                handler.redirect(op[1], permanent=op[2], status=op[3])
            elif k == "raise_http":
                raise HTTPError(op[1])
            elif k == "raise_finish":
                if op[1] is None:
                    raise Finish()
                raise Finish(materialise(op[1]))
            elif k == "raise_value":
                raise ValueError("program raised")
            else:
                raise AssertionError("unknown op %r" % (op,))

    return run()


class ProgramHandler(RequestHandler):
    SUPPORTED_METHODS = ("GET", "HEAD", "POST")

    async def get(self):
        await _interpret(self, self.settings["prog"])

    head = get
    post = get


@stream_request_body
class EarlyHandler(RequestHandler):
    """Replies from prepare(), i.e. before the request body has been read."""

    SUPPORTED_METHODS = ("GET", "HEAD", "POST")

    async def prepare(self):
        await _interpret(self, self.settings["prog"])

    def data_received(self, chunk):
        pass

    def get(self):
        pass

    head = get
    post = get


@stream_request_body
class SplitHandler(RequestHandler):
    """Runs the first part of the program in prepare(), i.e. BEFORE the request body is read (output ops
    there happen during HTTPMessageDelegate.headers_received), and the rest in the method, after it."""

    SUPPORTED_METHODS = ("GET", "HEAD", "POST")

    async def prepare(self):
        await _interpret(self, self.settings["prog_pre"])

    def data_received(self, chunk):
        pass

    async def get(self):
        await _interpret(self, self.settings["prog"])

    head = get
    post = get


TERMINAL_OPS = ("finish", "redirect", "raise_http", "raise_finish", "raise_value")


def split_index(prog, k):
    """Number of leading ops that may run in prepare(): at most k, and none at or after a terminal op."""
    for i, op in enumerate(prog):
        if op[0] in TERMINAL_OPS:
            return min(k, i)
    return min(k, len(prog))


class PreambleHandler(RequestHandler):
    """Answers GET /pre: an earlier request on the SAME connection running its own program (settings
    "prog0"), so that the request under test is not the first use of the connection / server / application."""

    async def get(self):
        await _interpret(self, self.settings["prog0"])


PREAMBLE_PATH = "/pre"


class SecondHandler(RequestHandler):
    def get(self):
        self.write(SECOND_BODY)


def make_app(prog, early=False, pre=None, prog0=None, **settings):
    """pre=k: stream_request_body handler running the first k ops (see split_index) in prepare().
    prog0: program of the preamble request (GET /pre) that may precede the request under test."""
    resolved = resolve_prog(prog)
    routes = [(PREAMBLE_PATH, PreambleHandler), ("/second", SecondHandler)]
    settings["prog0"] = resolve_prog(prog0 or [])
    if pre is not None:
        k = split_index(resolved, pre)
        return Application(
            [("/", SplitHandler)] + routes,
            prog_pre=resolved[:k], prog=resolved[k:], **settings,
        )
    return Application(
        [("/", EarlyHandler if early else ProgramHandler)] + routes,
        prog=resolved,
        **settings,
    )


def build_request(method, version, conn=None, extra_headers=(), body=None, body_framing="cl", path="/"):
    """First request of a case (the caller appends SECOND_REQUEST).  body_framing: cl | chunked | none."""
    lines = ["%s %s HTTP/%s" % (method, path, version), "Host: x"]
    if conn is not None:
        lines.append("Connection: " + conn)
    for n, v in extra_headers:
        lines.append("%s: %s" % (n, v))
    payload = b""
    if body is not None and body_framing == "cl":
        lines.append("Content-Length: %d" % len(body))
        payload = body
    elif body is not None and body_framing == "chunked":
        lines.append("Transfer-Encoding: chunked")
        payload = b""
        if body:
            payload += b"%x\r\n%s\r\n" % (len(body), body)
        payload += b"0\r\n\r\n"
    return "\r\n".join(lines).encode("latin-1") + b"\r\n\r\n" + payload


# ----------------------------------------------------------------------------- model
class _Raise(Exception):
    """An exception leaving the handler body: kind = http | finish | other."""

    def __init__(self, kind, arg=None, why=""):
        self.kind, self.arg, self.why = kind, arg, why


def header_value_text(value):
    """str form of a header value, or None when set_header/add_header must reject it."""
    if isinstance(value, bool):
        return None
    if isinstance(value, int):
        return str(value)
    if isinstance(value, bytes):
        value = value.decode("latin-1")
    if not isinstance(value, str):
        return None
    for ch in value:
        o = ord(ch)
        if not (o == 0x09 or 0x20 <= o <= 0x7E or 0x80 <= o <= 0xFF):
            return None
    if value[:1] in (" ", "\t") or value[-1:] in (" ", "\t"):
        return None
    return value


def reason_is_plain(reason):
    """Reason phrases whose verbatim appearance in the status line is unproblematic."""
    return bool(reason) and all(0x20 <= ord(c) <= 0x7E for c in reason) and "<" not in reason


def etag_matches(inm, etag):
    """RFC 9110 If-None-Match weak comparison; `inm` is the request header value (str) or None."""
    if not inm:
        return False
    if inm.strip() == "*":
        return True

    def strip_w(x):
        return x[2:] if x.startswith("W/") else x

    import re

    tags = re.findall(r'(?:W/)?"[^"]*"', inm)
    return any(strip_w(t) == strip_w(etag) for t in tags)


class Expect:
    """What the model says about the response to the first request."""

    def __init__(self):
        self.outcome = None  # normal | abort | hang
        self.status = None  # status on the wire (None: header block never sent)
        self.reason = None  # reason to compare, or None when not compared
        self.headers = None  # lower name -> [values] at the time the header block was sent
        self.body = b""  # bytes a GET/POST would carry (all chunks handed to the connection)
        self.emitted = b""  # body bytes put on the wire for this method (HEAD: none)
        self.error_page = False  # body is Tornado's error page (not compared)
        self.app_cl = False  # Content-Length in the header block was set by the program
        self.auto_etag = None  # ETag computed by Tornado (str) when it applies
        self.own_etag = None  # Etag set by the program itself, on a response eligible for the 304 check
        self.body_at_error = None  # len(body) already handed to the connection when an exception left the
        #                            handler after the header block had been sent (None: no such exception)
        self.flushed_early = False  # header block sent by flush() before finish()
        self.bodyless_status = False  # 1xx / 204 / 304
        self.body_on_bodyless = False  # program forced body bytes behind a 1xx/204 header block
        self.rejected = []  # reasons of rejected operations
        self.labels = set()
        self.touched = set()  # lower header names the program operated on


class ProgModel:
    def __init__(self, method, inm=None, own_etag_304=False):
        self.method = method
        self.inm = inm
        # Whether the automatic If-None-Match check also applies to an Etag header the program set itself
        # is unspecified (EITHER, label own_etag_match): the current tree skips it, the statement allows it.
        self.own_etag_304 = own_etag_304
        self.e = Expect()
        self._reset_headers()
        self.status, self.reason, self.reason_cmp = 200, "OK", True
        self.buf = []
        self.hw = False
        self.fin = False
        self.remaining = None
        self.stream_closed = False
        self.body = bytearray()
        self.emitted = bytearray()
        self.error_page = False

    # -- RequestHandler surface
    def _reset_headers(self):
        self.h = {"content-type": [DEFAULT_CT]}

    def set_status(self, code, reason=None):
        self.status = code
        if reason is not None:
            if reason_is_plain(reason):
                self.reason, self.reason_cmp = reason, True
            else:
                self.reason, self.reason_cmp = None, False  # replaced by something harmless; not compared
                self.e.labels.add("unsafe_reason")
        else:
            self.reason, self.reason_cmp = http.client.responses.get(code, "Unknown"), True

    def _hv(self, value):
        v = header_value_text(value)
        if v is None:
            self.e.labels.add("illegal_header_value")
            raise _Raise("other", why="illegal header value")
        return v

    def set_header(self, name, value):
        self.e.touched.add(name.lower())
        self.h[name.lower()] = [self._hv(value)]

    def add_header(self, name, value):
        self.e.touched.add(name.lower())
        self.h.setdefault(name.lower(), []).append(self._hv(value))

    def clear_header(self, name):
        self.e.touched.add(name.lower())
        self.h.pop(name.lower(), None)

    def write(self, chunk):
        if self.fin:
            raise _Raise("other", why="write after finish")
        c = materialise(chunk)
        if isinstance(c, dict):
            self.h["content-type"] = ["application/json; charset=UTF-8"]
        self.buf.append(chunk_bytes(chunk))

    def _guard_close(self, why):
        self.stream_closed = True
        self.e.labels.add("content_length_guard")
        raise _Raise("other", why=why)

    def flush(self, awaited=False):
        chunk = b"".join(self.buf)
        self.buf = []
        if not self.hw:
            self.hw = True
            e = self.e
            e.flushed_early = not self._in_finish
            if self.method == "HEAD" or self.status == 304:
                self.remaining = 0
            elif "content-length" in self.h:
                self.remaining = int(self.h["content-length"][0])
            else:
                self.remaining = None
            send = b"" if self.method == "HEAD" else chunk
            if send and self.remaining is not None:
                self.remaining -= len(send)
                if self.remaining < 0:
                    # the header block is not sent either
                    self._guard_close("more than Content-Length")
            e.status, e.reason = self.status, (self.reason if self.reason_cmp else None)
            e.headers = {k: list(v) for k, v in self.h.items()}
            e.app_cl = "content-length" in self.h and not self._auto_cl
            e.error_page = self.error_page
            self.emitted += send
            self.body += chunk
            return
        if self.fin:
            # flush after finish: nothing is buffered, nothing reaches the wire (an awaited flush may raise
            # StreamClosedError when the connection is already gone; that is only logged)
            self.e.labels.add("flush_after_finish")
            return
        self.body += chunk
        if self.method == "HEAD":
            return
        if self.stream_closed:
            if awaited:
                raise _Raise("other", why="stream closed")
            return
        if self.remaining is not None:
            self.remaining -= len(chunk)
            if self.remaining < 0:
                self.body = self.body[: len(self.body) - len(chunk)]
                self._guard_close("more than Content-Length")
        self.emitted += chunk

    _in_finish = False
    _auto_cl = False

    def finish(self, chunk=None):
        if self.fin:
            raise _Raise("other", why="finish twice")
        if chunk is not None:
            self.write(chunk)
        if not self.hw:
            if self.status == 200 and self.method in ("GET", "HEAD") and "etag" not in self.h:
                etag = '"%s"' % hashlib.sha1(b"".join(self.buf)).hexdigest()
                self.h["etag"] = [etag]
                self.e.auto_etag = etag
                self.full_body_len = len(b"".join(self.buf))
                if etag_matches(self.inm, etag):
                    self.buf = []
                    self.set_status(304)
                    self.e.labels.add("etag_304")
            elif self.status == 200 and self.method in ("GET", "HEAD"):
                own = self.h["etag"]
                self.e.own_etag = own[0] if own else None
                if any(etag_matches(self.inm, v) for v in own + [",".join(own)]):
                    self.e.labels.add("own_etag_match")
                    if self.own_etag_304:
                        self.buf = []
                        self.set_status(304)
                        self.e.labels.add("etag_304")
            if self.status in (204, 304) or 100 <= self.status < 200:
                if self.buf:  # even an empty chunk counts
                    raise _Raise("other", why="body with %d" % self.status)
                for n in REPRESENTATION_HEADERS:
                    self.h.pop(n, None)
            elif "content-length" not in self.h:
                self.h["content-length"] = [str(len(b"".join(self.buf)))]
                self._auto_cl = True
        self._in_finish = True
        try:
            self.flush()
        finally:
            self._in_finish = False
        if self.remaining not in (None, 0) and not self.stream_closed:
            ws = self.e.status  # status of the header block that was sent
            if ws is not None and (ws == 204 or 100 <= ws < 200):
                # program-set Content-Length on a status that never has a body: whether the length
                # guard applies is unspecified (EITHER: torn down, or sent as is)
                self.e.labels.add("bodyless_cl_guard")
            self._guard_close("less than Content-Length")
        self.fin = True

    def redirect(self, url, permanent, status):
        if self.hw:
            raise _Raise("other", why="redirect after headers")
        if status is None:
            status = 301 if permanent else 302
        self.set_status(status)
        self.set_header("Location", url.encode("utf-8"))
        self.finish()

    # -- _execute / exception handling
    def run(self, prog):
        e = self.e
        try:
            try:
                for op in prog:
                    k = op[0]
                    if k == "status":
                        self.set_status(op[1], op[2])
                    elif k == "set_header":
                        self.set_header(op[1], op[2])
                    elif k == "add_header":
                        self.add_header(op[1], op[2])
                    elif k == "clear_header":
                        self.clear_header(op[1])
                    elif k == "write":
                        self.write(op[1])
                    elif k == "flush":
                        self.flush(op[1])
                    elif k == "finish":
                        self.finish(op[1])
                    elif k == "redirect":
                        self.redirect(op[1], op[2], op[3])
                    elif k == "raise_http":
                        raise _Raise("http", op[1], "HTTPError")
                    elif k == "raise_finish":
                        raise _Raise("finish", op[1], "Finish")
                    elif k == "raise_value":
                        raise _Raise("other", why="ValueError")
                    else:
                        raise AssertionError(op)
                if not self.fin:
                    self.finish()
            except _Raise as r:
                if r.kind != "finish":
                    e.rejected.append(r.why)
                self._handle(r)
        except _Raise as r2:
            # "Exception in exception handler": nothing finishes the request any more
            e.rejected.append("in exception handler: " + r2.why)
        if self.fin and not self.stream_closed:
            e.outcome = "normal"
        elif self.stream_closed:
            e.outcome = "abort"
        else:
            e.outcome = "hang"
        e.body = bytes(self.body)
        e.emitted = bytes(self.emitted)
        st_ = e.status
        e.bodyless_status = st_ is not None and (st_ in (204, 304) or 100 <= st_ < 200)
        e.body_on_bodyless = bool(e.bodyless_status and e.emitted)
        return e

    def _handle(self, r):
        if r.kind == "finish":
            if not self.fin:
                self.finish(r.arg)
            return
        if self.fin:
            return
        code = r.arg if r.kind == "http" else 500
        # send_error
        if self.hw:
            self.e.body_at_error = len(self.body)
            try:
                self.finish()
            except _Raise:
                pass
            return
        self._reset_headers()
        self.buf = []
        self._auto_cl = False
        self.set_status(code)
        self.error_page = True
        try:
            if code != 304:
                self.finish(b"<error page>")
        except _Raise:
            pass
        if not self.fin:
            self.finish()


def predict(prog, method, inm=None, own_etag_304=False):
    return ProgModel(method, inm, own_etag_304).run(resolve_prog(prog))


# ----------------------------------------------------------------------------- slow transport
def preamble_request(extra_headers=()):
    """HTTP/1.1 keep-alive GET for the preamble program (see PreambleHandler)."""
    return build_request("GET", "1.1", None, extra_headers, path=PREAMBLE_PATH)


def strip_preamble(wire, what="preamble"):
    """-> (first response as parsed by the strict reader, remaining wire).  Raises httpref.RefError."""
    from . import httpref

    rs = httpref.parse_responses(wire, ["GET"], True, max_responses=1)
    if not rs:
        raise httpref.RefError("%s: no response" % what)
    if rs[0].framing == "close":
        raise httpref.RefError("%s: response delimited by close on a connection that must persist" % what)
    return rs[0], wire[rs[0].end:]


def roundtrip_slow(app, data, segments=None, server_kwargs=None, grants=(), after=None):
    """Like httpharness.roundtrip, but the transport accepts output only as far as write credit was
    granted: the request is fed with zero credit, then every entry of `grants` (cumulative byte counts,
    ascending) raises the total credit to that value and lets the loop go quiescent; finally the credit
    becomes unlimited (then `after(session)` runs, if given).  Returns (wire, closed, logs, trace) where trace[i] = (total credit, bytes on the
    wire, closed) after step i.  What the client finally receives must not depend on the schedule."""
    from . import httpharness, vtime

    async def scenario():
        s = httpharness.ServerSession(app, **(server_kwargs or {}))
        s.stream.write_credit = 0
        granted = 0
        trace = []
        await s.send(data, segments)
        trace.append((0, len(s.stream.wire), s.closed))
        for target in grants:
            if target > granted and not s.closed:
                s.stream.write_credit += target - granted
                granted = target
                await s.settle()
                trace.append((granted, len(s.stream.wire), s.closed))
        s.stream.write_credit = None
        await s.settle()
        if after is not None:
            await after(s)  # e.g. let virtual time pass, then send another request on the same connection
        wire, closed = s.wire, s.closed
        trace.append((None, len(wire), closed))
        if not s.closed:
            s.stream.close()
            await s.settle()
        return wire, closed, trace

    with httpharness.LogCapture() as logs:
        wire, closed, trace = vtime.run(scenario)
    return wire, closed, logs, trace
