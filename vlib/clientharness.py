"""Run SimpleAsyncHTTPClient with no sockets: a fake ``tcp_client`` hands out MemoryIOStreams.

Used by C08/C09.  The harness keeps a handle on every connect() call (``fake.calls``); with
``gated=True`` each connect first awaits a harness-controlled future (``call.gate``) so slow and
failed connects can be scheduled by the case.  Nothing here awaits application futures.
"""
from __future__ import annotations

from tornado.concurrent import Future
from tornado.simple_httpclient import SimpleAsyncHTTPClient

from . import vtime
from .memstream import MemoryIOStream


class ConnectCall:
    def __init__(self, index, host, port, kwargs):
        self.index = index
        self.host = host
        self.port = port
        self.kwargs = kwargs
        self.ssl = kwargs.get("ssl_options") is not None
        self.gate = None  # Future the connect awaits (gated mode)
        self.stream = None  # MemoryIOStream once the connect returned
        self.returned = False
        self.failed = None
        self.tag = None  # free for the check's use

    def allow(self):
        """Let the connect succeed (gated mode)."""
        if self.gate is not None and not self.gate.done():
            self.gate.set_result(None)

    def fail(self, exc):
        if self.gate is not None and not self.gate.done():
            self.gate.set_exception(exc)


class FakeTCPClient:
    """Stand-in for tornado.tcpclient.TCPClient as used by simple_httpclient._HTTPConnection.run."""

    def __init__(self, gated=False, stream_kwargs=None):
        self.gated = gated
        self.calls = []
        self.closed = 0
        self.stream_kwargs = stream_kwargs or {}

    async def connect(self, host, port, af=None, ssl_options=None, max_buffer_size=None,
                      source_ip=None, source_port=None, timeout=None):
        call = ConnectCall(len(self.calls), host, port,
                           dict(af=af, ssl_options=ssl_options, max_buffer_size=max_buffer_size,
                                source_ip=source_ip, source_port=source_port, timeout=timeout))
        self.calls.append(call)
        if self.gated:
            call.gate = Future()
            try:
                await call.gate
            except BaseException as e:
                call.failed = e
                raise
        call.stream = MemoryIOStream(max_buffer_size=max_buffer_size, **self.stream_kwargs)
        call.returned = True
        return call.stream

    def close(self):
        self.closed += 1

    # ---- harness side
    def pump(self):
        did = False
        for c in self.calls:
            if c.stream is not None and c.stream.pump_once():
                did = True
        return did

    def in_progress(self):
        """Connect calls whose request is still being served: gate pending, or stream open."""
        n = 0
        for c in self.calls:
            if c.stream is None:
                if c.failed is None:
                    n += 1
            elif not c.stream.closed():
                n += 1
        return n


def make_client(fake, **kwargs):
    """Create a private SimpleAsyncHTTPClient on the current (virtual) loop using `fake` as its tcp_client."""
    client = SimpleAsyncHTTPClient(force_instance=True, **kwargs)
    real = client.tcp_client
    client.tcp_client = fake
    try:
        real.close()
    except Exception:
        pass
    return client


async def settle(fake):
    return await vtime.settle(pump=fake.pump)


async def advance(fake, dt):
    return await vtime.advance(dt, pump=fake.pump)


class DoneCounter:
    """Counts done-callback invocations of a future (exactly-once oracle)."""

    def __init__(self, fut):
        self.fut = fut
        self.count = 0
        fut.add_done_callback(self._cb)

    def _cb(self, f):
        self.count += 1


def outcome(fut):
    """-> ('pending',) | ('response', HTTPResponse) | ('error', exc)"""
    if not fut.done():
        return ("pending",)
    if fut.cancelled():
        return ("error", RuntimeError("cancelled"))
    e = fut.exception()
    if e is not None:
        return ("error", e)
    return ("response", fut.result())


# --------------------------------------------------------------------------- strict request-head reader
TCHAR = set(b"!#$%&'*+-.^_`|~0123456789abcdefghijklmnopqrstuvwxyzABCDEFGHIJKLMNOPQRSTUVWXYZ")


class ReqError(Exception):
    pass


class ParsedRequest:
    def __init__(self):
        self.method = None
        self.target = None
        self.version = None
        self.headers = []  # (name, value) as sent, latin-1
        self.body = b""
        self.framing = "none"

    def get_all(self, name):
        return [v for n, v in self.headers if n.lower() == name.lower()]

    def has(self, name):
        return bool(self.get_all(name))

    def __repr__(self):
        return "<Req %s %s %r body=%r>" % (self.method, self.target, self.headers, self.body)


def parse_request(wire: bytes) -> ParsedRequest:
    """Strict reader for exactly one client request (what a server would see on this connection).
    Raises ReqError unless the bytes are exactly one well-formed, completely framed request."""
    end = wire.find(b"\r\n\r\n")
    if end < 0:
        raise ReqError("request head not terminated: %r" % wire[:200])
    lines = wire[:end].split(b"\r\n")
    for ln in lines:
        if b"\r" in ln or b"\n" in ln or b"\0" in ln:
            raise ReqError("bare CR/LF/NUL in request head line %r" % ln)
    parts = lines[0].split(b" ")
    if len(parts) != 3:
        raise ReqError("bad request line %r" % lines[0])
    m, target, version = parts
    if not m or any(c not in TCHAR for c in m):
        raise ReqError("bad method %r" % m)
    if not target or any(c <= 0x20 or c == 0x7F for c in target):
        raise ReqError("bad request target %r" % target)
    if version != b"HTTP/1.1":
        raise ReqError("bad version %r" % version)
    r = ParsedRequest()
    r.method, r.target, r.version = m.decode("latin-1"), target.decode("latin-1"), version.decode()
    for ln in lines[1:]:
        if not ln or ln[:1] in b" \t" or b":" not in ln:
            raise ReqError("bad header line %r" % ln)
        n, _, v = ln.partition(b":")
        if not n or any(c not in TCHAR for c in n):
            raise ReqError("bad field name %r" % n)
        v = v.strip(b" \t")
        for c in v:
            if not (c == 9 or 0x20 <= c <= 0x7E or c >= 0x80):
                raise ReqError("bad field value %r" % v)
        r.headers.append((n.decode("latin-1"), v.decode("latin-1")))
    rest = wire[end + 4:]
    te = r.get_all("Transfer-Encoding")
    cl = r.get_all("Content-Length")
    if te and cl:
        raise ReqError("both Transfer-Encoding and Content-Length")
    if te:
        if [t.lower() for t in te] != ["chunked"]:
            raise ReqError("unsupported Transfer-Encoding %r" % te)
        body = bytearray()
        pos = 0
        while True:
            eol = rest.find(b"\r\n", pos)
            if eol < 0:
                raise ReqError("unterminated chunk size line")
            size = rest[pos:eol]
            if not size or any(c not in b"0123456789abcdefABCDEF" for c in size):
                raise ReqError("bad chunk size %r" % size)
            k = int(size, 16)
            pos = eol + 2
            if k == 0:
                if rest[pos:pos + 2] != b"\r\n":
                    raise ReqError("bad last chunk")
                pos += 2
                break
            if rest[pos + k:pos + k + 2] != b"\r\n" or len(rest) < pos + k + 2:
                raise ReqError("bad chunk terminator")
            body += rest[pos:pos + k]
            pos += k + 2
        if pos != len(rest):
            raise ReqError("bytes after chunked request body: %r" % rest[pos:pos + 50])
        r.body = bytes(body)
        r.framing = "chunked"
    elif cl:
        if len(set(cl)) != 1 or not cl[0] or any(ch not in "0123456789" for ch in cl[0]):
            raise ReqError("bad Content-Length %r" % cl)
        k = int(cl[0])
        if len(rest) != k:
            raise ReqError("request body length %d != Content-Length %d" % (len(rest), k))
        r.body = rest
        r.framing = "cl"
    else:
        if rest:
            raise ReqError("bytes after a request without body framing: %r" % rest[:50])
    return r
