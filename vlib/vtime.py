"""Virtual-time event loop: asyncio SelectorEventLoop whose clock is owned by the harness.

``VLoop.time()`` returns a virtual clock that only moves when the harness calls ``advance``.
``VirtualIOLoop`` is the Tornado IOLoop bound to it whose ``time()`` is the same clock, so
``IOLoop.add_timeout/call_later/call_at`` and asyncio timers agree.

Typical use::

    with virtual_loop() as (loop, io_loop):
        loop.run_until_complete(scenario())          # scenario uses `await settle()` / `await advance(dt)`

Inside the scenario coroutine the harness never awaits application futures directly; it calls
``await settle()`` (run until no callbacks are ready) and then inspects state, so an application
that hangs shows up as a pending future at quiescence rather than as a wall-clock timeout.
"""
from __future__ import annotations

import asyncio
import contextlib
import math
import selectors

from tornado.ioloop import IOLoop
from tornado.platform.asyncio import AsyncIOLoop

START = 1_700_000_000.0


class WouldBlock(RuntimeError):
    pass


class _NoSleepSelector:
    """Wraps the real selector: never sleeps.  If asyncio asks to wait (timeout None or >0) with
    nothing ready, the harness coroutine is blocked on something that will never happen in virtual
    time; unless blocking is allowed (real threads involved) that is a harness error."""

    def __init__(self, inner, loop):
        self._inner = inner
        self._loop = loop

    def select(self, timeout=None):
        ev = self._inner.select(0)
        if ev:
            return ev
        if timeout is None or timeout > 0:
            if self._loop.allow_block:
                return self._inner.select(0.005 if timeout is None else min(timeout, 0.005))
            if self._loop.auto_advance and timeout is not None:
                self._loop._now += timeout
                return []
            raise WouldBlock("virtual loop would block (timeout=%r): harness awaited a never-ready future" % (timeout,))
        return ev

    def __getattr__(self, name):
        return getattr(self._inner, name)


class VLoop(asyncio.SelectorEventLoop):
    def __init__(self, start=START):
        self._now = float(start)
        super().__init__(selectors.DefaultSelector())
        self.allow_block = False
        self.auto_advance = False
        self._selector = _NoSleepSelector(self._selector, self)

    def time(self):
        return self._now

    # asyncio fires timers with when < time() + _clock_resolution.  At epoch-scale virtual times the
    # default 1e-9 is below one ulp, so a timer exactly at `now` would never fire; one ulp makes
    # "when <= now" fire and nothing later.
    @property
    def _clock_resolution(self):
        return math.ulp(self._now)

    @_clock_resolution.setter
    def _clock_resolution(self, value):
        pass

    # ---- harness helpers
    def next_timer(self):
        """when-value of the earliest non-cancelled timer, or None."""
        best = None
        for h in self._scheduled:
            if not h._cancelled and (best is None or h._when < best):
                best = h._when
        return best

    def ready_count(self):
        return sum(1 for h in self._ready if not h._cancelled)

    def pending_timers(self):
        return sum(1 for h in self._scheduled if not h._cancelled)


class VirtualIOLoop(AsyncIOLoop):
    def time(self):
        return self.asyncio_loop.time()


async def settle(max_iters=100000, pump=None):
    """Run the loop until nothing is ready (timers do not fire unless due at the current virtual time).
    `pump` is an optional callable performing harness-side I/O dispatch; it returns True if it did
    something."""
    loop = asyncio.get_running_loop()
    idle = 0
    for _ in range(max_iters):
        did = bool(pump()) if pump is not None else False
        await asyncio.sleep(0)
        nt = loop.next_timer() if hasattr(loop, "next_timer") else None
        due = nt is not None and nt <= loop.time()
        if not did and loop.ready_count() == 0 and not due:
            idle += 1
            if idle >= 2:
                return True
        else:
            idle = 0
    return False


async def advance(dt=None, to=None, pump=None, max_timers=100000):
    """Move the virtual clock forward, firing every timer on the way in deadline order."""
    loop = asyncio.get_running_loop()
    target = loop.time() + dt if to is None else to
    await settle(pump=pump)
    for _ in range(max_timers):
        nt = loop.next_timer()
        if nt is None or nt > target:
            break
        if nt > loop._now:
            loop._now = nt
        await settle(pump=pump)
    if target > loop._now:
        loop._now = target
    await settle(pump=pump)


@contextlib.contextmanager
def virtual_loop(start=START):
    loop = VLoop(start)
    try:
        old = asyncio.get_event_loop_policy().get_event_loop() if False else None
    except Exception:
        old = None
    asyncio.set_event_loop(loop)
    io_loop = VirtualIOLoop(asyncio_loop=loop, make_current=False)
    try:
        yield loop, io_loop
    finally:
        try:
            # cancel whatever is left so nothing outlives the case
            for t in asyncio.all_tasks(loop):
                t.cancel()
            with contextlib.suppress(Exception):
                loop.run_until_complete(asyncio.sleep(0))
            with contextlib.suppress(Exception):
                loop.run_until_complete(loop.shutdown_default_executor())
        finally:
            try:
                io_loop.close(all_fds=False)
            except Exception:
                if not loop.is_closed():
                    loop.close()
            asyncio.set_event_loop(None)


def run(coro_fn, *args, start=START, **kw):
    """Run `await coro_fn(*args)` on a fresh virtual loop and return its result."""
    with virtual_loop(start) as (loop, io_loop):
        return loop.run_until_complete(coro_fn(*args, **kw))
