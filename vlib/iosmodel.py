"""Reference model + generators shared by the IOStream checks (C11 reads, C13 close).

The model of the read side is ``(delivered bytes, cursor)``: ``rem = delivered[cursor:]`` is what the
stream could have seen and not yet handed out.  ``expect(spec, rem, ended)`` says what the read request
``spec`` must do given ``rem`` and whether the end of the stream (FIN/RST/close) has been delivered:

    ("data", b)      must be complete with exactly b
    ("prefix", n)    partial read: complete with some non-empty prefix of rem no longer than n
    ("pending",)     must not be complete (nothing in rem satisfies it and more may arrive)
    ("fail",)        cannot be satisfied and never will: must fail with StreamClosedError
    ("unsat",)       delimiter/regex not found within max_bytes: stream must close, read must fail
    ("pending_or_unsat",) / ("fail_or_unsat",)   EITHER: no match within max_bytes is possible any more but
                     not more than max_bytes bytes are buffered yet: the read may still be pending (resp.
                     fail with the end-of-stream error) or the stream may already have closed with
                     UnsatisfiableReadError; it must never return

Read specs (plain tuples so cases are JSON-able):
    ("bytes", n, partial)  ("into", n, partial)  ("until", delim_index, mb)  ("regex", rx_index, mb)
    ("close",)
``mb`` is None | ("abs", k) | ("rel", d) | ("dlen", d): max_bytes = k (0 included), or (end of the first
match in the *whole* rest of the stream) + d, or (length of the delimiter / of the first regex match) + d -
resolved by the harness with ``resolve_max_bytes`` when the read is issued (never negative).
"""
from __future__ import annotations

import functools
import re

from hypothesis import strategies as st

DELIMS = [b"\n", b"\r\n", b"\r\n\r\n", b"ab"]
# tail-literal patterns: the end of the leftmost match never depends on bytes after the match, and a
# match in a prefix of the data is the leftmost match of the whole data (argued in DESIGN C11)
REGEXES = [rb"\r?\n\r?\n", rb"[0-9]+:", rb"a{2}b"]
_RX = [re.compile(r) for r in REGEXES]

SENTINEL = 0xEE  # (legacy name) read_into buffers are pre-filled with sentinel_pattern(); bytes 0xE0-0xEC
                 # never occur in generated streams


def sentinel_pattern(n):
    """position-dependent fill of a caller buffer, so that a moved or truncated tail is visible too"""
    return bytearray(0xE0 + (i % 13) for i in range(n))


def find_match(spec, rem):
    """(start, end) of the first delimiter / leftmost regex match in rem, or None."""
    if spec[0] == "until":
        d = DELIMS[spec[1]]
        i = rem.find(d)
        return None if i < 0 else (i, i + len(d))
    m = _RX[spec[1]].search(rem)
    return None if m is None else (m.start(), m.end())


def resolve_max_bytes(spec, rest_of_stream):
    mb = spec[2]
    if mb is None:
        return None
    if mb[0] == "abs":
        return max(0, mb[1])  # 0 is a legal boundary value: any buffered byte exceeds it
    m = find_match(spec, rest_of_stream)
    if mb[0] == "dlen":
        # relative to the length of the delimiter / of the first regex match itself
        if spec[0] == "until":
            return max(0, len(DELIMS[spec[1]]) + mb[1])
        return max(0, (m[1] - m[0] if m is not None else 2) + mb[1])
    if m is None:
        return max(0, 4 + mb[1])
    return max(0, m[1] + mb[1])


def match_within_still_possible(spec, rem, max_bytes):
    """rem holds no complete match ending within max_bytes; can any continuation of rem still produce one?
    Delimiters: exact (some start p with p + len(d) <= max_bytes whose already buffered part rem[p:] is a
    prefix of d).  Regexes: conservative - possible as long as fewer than max_bytes bytes are buffered."""
    if spec[0] == "until":
        d = DELIMS[spec[1]]
        dl = len(d)
        for p in range(max(0, len(rem) - dl + 1), max_bytes - dl + 1):
            if d.startswith(bytes(rem[p:])):
                return True
        return False
    return len(rem) < max_bytes


def may_be_unsat(exp):
    """the model allows (or requires) the stream to close with UnsatisfiableReadError"""
    return exp[0] in ("unsat", "pending_or_unsat", "fail_or_unsat")


def expect(spec, rem, ended, max_bytes=None):
    kind = spec[0]
    if kind in ("bytes", "into"):
        n, partial = spec[1], spec[2]
        if n == 0:
            return ("data", b"")
        if partial:
            if rem:
                return ("prefix", n)
        elif len(rem) >= n:
            return ("data", bytes(rem[:n]))
        return ("fail",) if ended else ("pending",)
    if kind in ("until", "regex"):
        m = find_match(spec, rem)
        if max_bytes is None:
            if m is not None:
                return ("data", bytes(rem[: m[1]]))
            return ("fail",) if ended else ("pending",)
        if m is not None and m[1] <= max_bytes:
            return ("data", bytes(rem[: m[1]]))
        if m is not None or len(rem) > max_bytes:
            return ("unsat",)
        if not match_within_still_possible(spec, rem, max_bytes):
            # provably unsatisfiable although not more than max_bytes bytes are buffered yet: the docstring's
            # "closed if more than max_bytes bytes have been read" is an 'if', so the stream may already
            # close with UnsatisfiableReadError - or keep waiting for the byte that exceeds the limit
            return ("fail_or_unsat",) if ended else ("pending_or_unsat",)
        return ("fail",) if ended else ("pending",)
    if kind == "close":
        return ("data", bytes(rem)) if ended else ("pending",)
    raise AssertionError(spec)


def issue_read(stream, spec, max_bytes=None):
    """Call the real read method for spec.  -> (future, caller_buffer_or_None)."""
    kind = spec[0]
    if kind == "bytes":
        return stream.read_bytes(spec[1], partial=spec[2]), None
    if kind == "into":
        buf = sentinel_pattern(spec[1])
        return stream.read_into(buf, partial=spec[2]), buf
    if kind == "until":
        return stream.read_until(DELIMS[spec[1]], max_bytes=max_bytes), None
    if kind == "regex":
        return stream.read_until_regex(REGEXES[spec[1]], max_bytes=max_bytes), None
    if kind == "close":
        return stream.read_until_close(), None
    raise AssertionError(spec)


# --------------------------------------------------------------------------- generators
TOKENS = [b"a", b"b", b"\r", b"\n", b":", b"0", b"7", b"ab", b"aab", b"\r\n", b"\r\n\r\n", b"\n\n",
          b"12:", b"\n\r\n", b"aa", b"a\r", b"9:"]

_piece = st.one_of(
    st.sampled_from(TOKENS),
    st.sampled_from(TOKENS),
    st.sampled_from(TOKENS),
    st.tuples(st.sampled_from([b"a", b"b", b"0", b":", b"\r", b"x"]),
              st.sampled_from([1, 2, 3, 5, 6, 8, 62, 63, 64, 65, 127, 200, 1000, 1500])).map(lambda t: t[0] * t[1]),
)


def stream_bytes(max_pieces=24, max_len=4096):
    return st.lists(_piece, max_size=max_pieces).map(lambda ps: b"".join(ps)[:max_len])


@functools.lru_cache(None)
def seg_sizes(rcs):
    """Sizes of single arrivals: 1-byte reads, the chunk size and its neighbours, larger than a chunk."""
    pool = sorted({1, 1, 2, 3, max(1, rcs - 1), rcs, rcs + 1, 2 * rcs, 2 * rcs + 1, 5, 17, 100})
    return st.one_of(st.sampled_from(pool), st.sampled_from([1, 1, 2]), st.integers(1, 300),
                     st.sampled_from([64, 65, 200, 500, 1000]))


@functools.lru_cache(None)
def burst(rcs, max_segs=8):
    return st.lists(seg_sizes(rcs), min_size=1, max_size=max_segs)


@functools.lru_cache(None)
def mb_s():
    return st.one_of(
        st.none(), st.none(),
        st.tuples(st.just("rel"), st.sampled_from([-1, 0, 1, 0, 1, -1, 5, 40])),
        st.tuples(st.just("abs"), st.sampled_from([1, 2, 3, 5, 16, 64, 1000, 1000, 5000, 5000])),
        # boundary values: 0, 1, exactly the delimiter / match length and one less or more
        st.sampled_from([("abs", 0), ("abs", 0), ("abs", 1), ("dlen", 0), ("dlen", -1), ("dlen", 1)]),
        st.none(),
    )


@functools.lru_cache(None)
def read_spec(rcs):
    n_s = st.one_of(st.sampled_from(sorted({0, 1, 2, 3, 4, max(1, rcs - 1), rcs, rcs + 1, 2 * rcs, 10, 100})),
                    st.integers(1, 40), st.sampled_from([1, 2, 3]))
    return st.one_of(
        st.tuples(st.just("bytes"), n_s, st.booleans()),
        st.tuples(st.just("into"), n_s, st.booleans()),
        st.tuples(st.just("until"), st.integers(0, len(DELIMS) - 1), mb_s()),
        st.tuples(st.just("until"), st.integers(0, len(DELIMS) - 1), mb_s()),
        st.tuples(st.just("regex"), st.integers(0, len(REGEXES) - 1), mb_s()),
        st.tuples(st.just("bytes"), n_s, st.booleans()),
        st.tuples(st.just("into"), n_s, st.booleans()),
        st.tuples(st.just("until"), st.integers(0, len(DELIMS) - 1), mb_s()),
        st.tuples(st.just("regex"), st.integers(0, len(REGEXES) - 1), mb_s()),
        st.tuples(st.just("close")),
    )


# ---- streams built from the program: every read gets a chunk that satisfies it (filler + terminator),
# so most programs make progress; fillers may contain delimiters by accident and the stream may be cut
# or extended afterwards, which produces the unsatisfiable / early-match cases.
_filler_piece = st.one_of(
    st.sampled_from([b"a", b"b", b"\r", b":", b"0", b"x", b"a\r", b"xa", b"\rx", b"7", b"a:"]),
    st.sampled_from([b"a", b"b", b"\r", b":", b"0", b"x", b"a\r", b"xa", b"\rx", b"7", b"a:"]),
    st.sampled_from(TOKENS),
    st.tuples(st.sampled_from([b"a", b"x", b"0", b"\r", b"b"]),
              st.sampled_from([2, 3, 5, 6, 8, 62, 63, 64, 65, 127, 200, 700, 1500])).map(lambda t: t[0] * t[1]),
)
filler = st.lists(_filler_piece, max_size=5).map(b"".join)
REGEX_SAMPLES = [[b"\n\n", b"\r\n\r\n", b"\n\r\n", b"\r\n\n"], [b"5:", b"123:", b"00:"], [b"aab"]]


_RX_SAMPLE = [st.sampled_from(x) for x in REGEX_SAMPLES]


def draw_chunk(draw, spec):
    kind = spec[0]
    f = draw(filler)
    if kind in ("bytes", "into"):
        n = spec[1]
        if spec[2]:
            return f[: max(1, n)] or b"a"
        return f[:n].ljust(n, b"x")
    if kind == "until":
        return f + DELIMS[spec[1]]
    if kind == "regex":
        return f + draw(_RX_SAMPLE[spec[1]])
    return f


_HOW = st.sampled_from(["asis"] * 6 + ["extend"] * 3 + ["cut"])


@functools.lru_cache(None)
def _specs(rcs, max_reads):
    return st.lists(read_spec(rcs), min_size=1, max_size=max_reads)


@st.composite
def program_and_stream(draw, rcs, max_reads=12, max_len=4096):
    """-> (specs, data): data is the concatenation of one satisfying chunk per read, then possibly
    cut at a generated offset or extended with extra bytes."""
    specs = draw(_specs(rcs, max_reads))
    data = b"".join(draw_chunk(draw, sp) for sp in specs)
    how = draw(_HOW)
    if how == "cut" and data:
        data = data[: len(data) - draw(st.integers(1, len(data)))]
    elif how == "extend":
        data += draw(filler)
    return specs, data[:max_len]


# --------------------------------------------------------------------------- tracked read + verdict
class Read:
    """One issued read request: the future (or the synchronously raised exception), the caller buffer,
    and a done-callback counter for the exactly-once clause."""

    def __init__(self, spec, max_bytes=None):
        self.spec = tuple(spec)
        self.mb = max_bytes
        self.fut = None
        self.buf = None
        self.raised = None
        self.calls = 0

    def issue(self, stream, allowed):
        """`allowed` = exception types the contract lets a read *call* raise; anything else escapes
        (and is reported by the runner as a crash inside tornado)."""
        try:
            self.fut, self.buf = issue_read(stream, self.spec, self.mb)
        except allowed as e:
            self.raised = e
            return self
        self.fut.add_done_callback(self._cb)
        return self

    def _cb(self, f):
        self.calls += 1


_RESULT_CLAUSES = {".read_into_resized_caller_buffer", ".result_type", ".wrong_data", ".partial_length", ".returned_unsatisfied", ".read_into_result",
                   ".read_into_touched_rest_of_buffer", ".returned_instead_of_closing", ".returned_more_than_max_bytes"}


def verdict(ctx, P, rd, rem, ended, end_errors, stream, overflow_ok=False, detail=None,
            may_fail=False, sig_suffix=None):
    """Compare the state of read `rd` at quiescence with the model.

    rem         delivered-but-unconsumed bytes (model)
    ended       no more bytes will ever arrive (FIN / RST / close delivered)
    end_errors  acceptable values of StreamClosedError.real_error for a read that fails because the
                stream ended (list; compared by identity, None = clean close)
    overflow_ok the unconsumed delivered data exceeds max_buffer_size, so StreamBufferFullError is an
                acceptable (EITHER) outcome
    may_fail    a StreamClosedError is acceptable even though rem could satisfy the request
                (C13: "later reads succeed *only* from buffered data" is not an iff once an earlier
                read failed on the closed stream)
    sig_suffix  structural input class; result-shape clauses then use the known-finding signature
                P + ".read_result" + sig_suffix
    -> ("pending", 0) | ("ok", nbytes) | ("failed", 0) | ("either", 0)
    """
    from tornado.iostream import StreamBufferFullError, StreamClosedError, UnsatisfiableReadError

    spec = rd.spec
    exp = expect(spec, rem, ended, rd.mb)
    d = {"read": spec, "max_bytes": rd.mb, "expect": exp[0], "rem_len": len(rem), "rem_head": bytes(rem[:40]),
         "ended": ended}
    if detail:
        d.update(detail)

    def fail(clause, det):
        # result-shape clauses of one structural input class share one known-finding signature
        sig = None
        if sig_suffix and clause in _RESULT_CLAUSES:
            sig = P + ".read_result" + sig_suffix
        ctx.fail(P + clause, det, sig=sig)

    def closed_error(exc):
        real = exc.real_error
        if rd.buf is not None and len(rd.buf) != spec[1]:
            fail(".read_into_resized_caller_buffer", dict(d, buf_len=len(rd.buf), want_len=spec[1], failed_read=True))
        if overflow_ok:
            # read-buffer overflow closes the stream (Tornado closes with error=None and then raises
            # StreamBufferFullError into the event handler); the statement is silent about it
            return ("either", 0)
        if isinstance(real, StreamBufferFullError):
            fail(".buffer_full_below_limit", dict(d, real_error=repr(real)))
        if exp[0] in ("data", "prefix") and not may_fail:
            fail(".read_failed_but_satisfiable", dict(d, real_error=repr(real)))
        if exp[0] == "pending":
            fail(".read_failed_while_open", dict(d, real_error=repr(real)))
        if exp[0] in ("unsat", "pending_or_unsat", "fail_or_unsat"):
            ok = isinstance(real, UnsatisfiableReadError) or (ended and any(real is e for e in end_errors))
            if not ok:
                fail(".real_error_unsatisfiable", dict(d, real_error=repr(real)))
            if not stream.closed():
                fail(".max_bytes_stream_not_closed", d)
        elif exp[0] != "pending":
            if not any(real is e for e in end_errors):
                fail(".real_error", dict(d, real_error=repr(real), want=[repr(e) for e in end_errors]))
        return ("failed", 0)

    if rd.raised is not None:
        e = rd.raised
        if isinstance(e, StreamBufferFullError):
            if overflow_ok:
                return ("either", 0)
            fail(".buffer_full_below_limit", dict(d, raised=repr(e)))
        if isinstance(e, StreamClosedError):
            return closed_error(e)
        fail(".read_call_raised", dict(d, raised=repr(e)))
        return ("failed", 0)

    fut = rd.fut
    if not fut.done():
        if exp[0] in ("pending", "pending_or_unsat"):
            return ("pending", 0)
        fail(".read_never_completes", d)
        return ("failed", 0)
    if rd.calls != 1:
        fail(".future_callbacks_not_exactly_once", dict(d, calls=rd.calls))
    if fut.cancelled():
        fail(".future_cancelled", d)
        return ("failed", 0)
    exc = fut.exception()
    if exc is not None:
        if isinstance(exc, StreamClosedError):
            return closed_error(exc)
        fail(".wrong_exception_type", dict(d, exc=repr(exc)))
        return ("failed", 0)

    res = fut.result()
    into = spec[0] == "into"
    if into:
        if len(rd.buf) != spec[1]:
            # the caller's buffer object must keep its length (a slice assignment of a shorter view into
            # ``buf[:]`` would shrink a bytearray)
            fail(".read_into_resized_caller_buffer", dict(d, buf_len=len(rd.buf), want_len=spec[1], got=repr(res)))
            return ("failed", 0)
        if type(res) is not int or not (0 <= res <= len(rd.buf)):
            fail(".read_into_result", dict(d, got=repr(res)))
            return ("failed", 0)
        got = bytes(rd.buf[:res])
        tail_ok = rd.buf[res:] == sentinel_pattern(spec[1])[res:]
    else:
        if type(res) is not bytes:
            fail(".result_type", dict(d, got=repr(res)[:80]))
            return ("failed", 0)
        got = res
        tail_ok = True
    d["got_len"] = len(got)
    d["got_head"] = got[:40]
    if overflow_ok and spec[0] == "close" and got == bytes(rem[: len(got)]):
        # "This will buffer all available data until max_buffer_size is reached": the stream closed
        # itself on overflow, read_until_close hands out what was buffered
        return ("either", 0)
    if exp[0] == "data":
        if got != exp[1]:
            fail(".wrong_data", dict(d, want_len=len(exp[1]), want_head=exp[1][:40]))
    elif exp[0] == "prefix":
        if not (1 <= len(got) <= exp[1]):
            fail(".partial_length", d)
        if got != bytes(rem[: len(got)]):
            fail(".wrong_data", dict(d, want_head=bytes(rem[:40])))
    elif exp[0] in ("unsat", "pending_or_unsat", "fail_or_unsat"):
        if len(got) > rd.mb:
            fail(".returned_more_than_max_bytes", d)
        fail(".returned_instead_of_closing", d)
    else:  # pending / fail: nothing in rem satisfies the request, yet it returned
        fail(".returned_unsatisfied", d)
    if not tail_ok:
        fail(".read_into_touched_rest_of_buffer", dict(d, buf_tail=bytes(rd.buf[res:res + 20])))
    return ("ok", len(got))


def quiet_logs():
    """Tornado logs closed-with-error conditions; the harness provokes them on purpose."""
    import logging

    for name in ("tornado.general", "tornado.application", "tornado.access"):
        lg = logging.getLogger(name)
        lg.addHandler(logging.NullHandler())
        lg.propagate = False
