"""Small helpers shared by the event-loop checks (C36-C39): log capture and future-outcome normalisation."""
from __future__ import annotations

import asyncio
import concurrent.futures
import logging

LOGGERS = ("tornado.application", "tornado.general", "tornado.access", "asyncio", "concurrent.futures")


class Logs(logging.Handler):
    """Collects log records of the tornado/asyncio loggers for the duration of a case; prints nothing.

    records: list of (logger name, levelno, message, has_exc_info, exception-or-None)."""

    def __init__(self):
        super().__init__(level=logging.DEBUG)
        self.records = []

    def emit(self, record):
        try:
            msg = record.getMessage()
        except Exception:
            msg = repr(record.msg)
        exc = record.exc_info[1] if record.exc_info and not isinstance(record.exc_info, bool) else None
        self.records.append((record.name, record.levelno, msg, bool(record.exc_info), exc))

    def __enter__(self):
        self._saved = []
        for name in LOGGERS:
            lg = logging.getLogger(name)
            self._saved.append((lg, lg.handlers[:], lg.propagate, lg.level))
            lg.handlers = [self]
            lg.propagate = False
            lg.setLevel(logging.DEBUG)
        return self

    def __exit__(self, *a):
        for lg, handlers, prop, level in self._saved:
            lg.handlers = handlers
            lg.propagate = prop
            lg.setLevel(level)

    def errors(self, name=None, prefix=None):
        out = []
        for r in self.records:
            if r[1] < logging.ERROR:
                continue
            if name is not None and r[0] != name:
                continue
            if prefix is not None and not r[2].startswith(prefix):
                continue
            out.append(r)
        return out

    def brief(self, limit=6):
        return [(r[0], r[1], r[2][:160]) for r in self.records[:limit]]


CANCELLED = (asyncio.CancelledError, concurrent.futures.CancelledError)


def norm(f):
    """Normal form of a future's state: ("pending",) | ("ok", value) | ("cancelled",) | ("timeout",) |
    ("exc", type name, args).  A future holding a CancelledError as its exception is the same class as
    a cancelled one (both raise CancelledError from result())."""
    if not f.done():
        return ("pending",)
    if f.cancelled():
        return ("cancelled",)
    try:
        exc = f.exception()
    except CANCELLED:
        return ("cancelled",)
    if exc is None:
        return ("ok", f.result())
    if isinstance(exc, CANCELLED):
        return ("cancelled",)
    if isinstance(exc, asyncio.TimeoutError):
        return ("timeout",)
    return ("exc", type(exc).__name__, tuple(exc.args))


def norm_exc(exc):
    if exc is None:
        return None
    if isinstance(exc, CANCELLED):
        return ("cancelled",)
    if isinstance(exc, asyncio.TimeoutError):
        return ("timeout",)
    return ("exc", type(exc).__name__, tuple(exc.args))
