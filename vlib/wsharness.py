"""Socket-free WebSocket scenarios for C14-C17: Tornado's server handler and client connection run
over ``MemoryIOStream`` on the virtual loop; the harness speaks HTTP/WebSocket with ``wsref``.

Nothing here awaits a Tornado future: every step is ``feed`` + ``vtime.settle(pump=...)`` + inspect.
"""
from __future__ import annotations

import contextlib

import tornado.web
import tornado.websocket
from tornado.websocket import WebSocketClosedError, WebSocketHandler

from . import vtime, wsref
from .httpharness import ServerSession
from .memstream import MemoryIOStream, Wire


# --------------------------------------------------------------------------- tiny HTTP head reader (own code)
class Head:
    def __init__(self, start, headers, rest):
        self.start = start  # str
        self.headers = headers  # list of (name, value) str
        self.rest = rest  # bytes after CRLFCRLF

    def get_all(self, name):
        return [v for n, v in self.headers if n.lower() == name.lower()]

    def get(self, name, default=None):
        v = self.get_all(name)
        return v[0] if v else default

    @property
    def code(self):
        parts = self.start.split(" ", 2)
        return int(parts[1]) if len(parts) >= 2 and parts[1].isdigit() else None


def parse_head(wire: bytes):
    """Split `wire` into start line, header fields and the bytes after the blank line; None if the
    head is not complete.  Strict enough for what Tornado itself emits (CRLF line ends, no folding)."""
    end = wire.find(b"\r\n\r\n")
    if end < 0:
        return None
    lines = bytes(wire[:end]).split(b"\r\n")
    headers = []
    for ln in lines[1:]:
        name, sep, value = ln.partition(b":")
        if not sep:
            raise wsref.RefError("header line without colon: %r" % ln)
        headers.append((name.decode("latin-1"), value.decode("latin-1").strip(" \t")))
    return Head(lines[0].decode("latin-1"), headers, bytes(wire[end + 4:]))


def upgrade_request(key, host="example.com", path="/ws", ext=None, protocols=None, origin=None, extra=()):
    lines = ["GET %s HTTP/1.1" % path, "Host: %s" % host, "Upgrade: websocket", "Connection: Upgrade",
             "Sec-WebSocket-Key: %s" % key, "Sec-WebSocket-Version: 13"]
    if ext is not None:
        lines.append("Sec-WebSocket-Extensions: %s" % ext)
    if protocols is not None:
        lines.append("Sec-WebSocket-Protocol: %s" % protocols)
    if origin is not None:
        lines.append("Origin: %s" % origin)
    lines.extend(extra)
    return ("\r\n".join(lines) + "\r\n\r\n").encode("latin-1")


def negotiated_deflate(head: Head):
    """DeflateParams agreed in a handshake response head, or None when no extension was agreed."""
    vals = head.get_all("Sec-WebSocket-Extensions")
    if not vals:
        return None
    exts = wsref.parse_extensions(",".join(vals))
    if len(exts) != 1 or exts[0][0] != "permessage-deflate":
        raise wsref.RefError("unexpected extensions in response: %r" % (exts,))
    return wsref.deflate_params_from(exts[0][1])


def offer_string(server_nct=False, client_nct=False, server_wbits=None, client_wbits=None):
    """A client offer that makes Tornado's server agree to exactly these parameters (it echoes the offer)."""
    parts = ["permessage-deflate"]
    if server_nct:
        parts.append("server_no_context_takeover")
    if client_nct:
        parts.append("client_no_context_takeover")
    if server_wbits is not None:
        parts.append("server_max_window_bits=%d" % server_wbits)
    if client_wbits is not None:
        parts.append("client_max_window_bits=%d" % client_wbits)
    return "; ".join(parts)


def segments(total, pattern, cap=400, bulk=8192):
    """Segment sizes covering `total` bytes: the generated `pattern` is applied cyclically for at most
    `cap` segments, the rest goes in `bulk`-sized pieces (keeps huge messages affordable)."""
    out, left, i = [], total, 0
    pattern = [p for p in pattern if p > 0]
    while left > 0 and pattern and i < cap:
        s = min(pattern[i % len(pattern)], left)
        out.append(s)
        left -= s
        i += 1
    while left > 0:
        s = min(bulk, left)
        out.append(s)
        left -= s
    return out


# --------------------------------------------------------------------------- server side
class Recorder:
    """What the application saw, in order."""

    def __init__(self):
        self.events = []
        self.handler = None
        self.opened = 0

    def messages(self):
        return [e[1] for e in self.events if e[0] == "msg"]

    def count(self, kind):
        return sum(1 for e in self.events if e[0] == kind)


def make_app(rec: Recorder, compression=None, settings=None, behaviour=None):
    """Application with one WebSocketHandler at /ws that records every callback.
    behaviour: dict of optional hooks: on_message(handler, msg) -> awaitable|None, open(handler),
    select_subprotocol(handler, list) -> str|None, check_origin(handler, origin) -> bool."""
    behaviour = behaviour or {}

    class H(WebSocketHandler):
        def open(self, *a, **kw):
            rec.handler = self
            rec.opened += 1
            rec.events.append(("open",))
            if "open" in behaviour:
                return behaviour["open"](self)

        def on_message(self, message):
            rec.events.append(("msg", message))
            if "on_message" in behaviour:
                return behaviour["on_message"](self, message)

        def on_ping(self, data):
            rec.events.append(("ping", data))

        def on_pong(self, data):
            rec.events.append(("pong", data))

        def on_close(self):
            rec.events.append(("close", self.close_code, self.close_reason))

        def get_compression_options(self):
            return compression

        def select_subprotocol(self, subprotocols):
            rec.events.append(("select_subprotocol", list(subprotocols)))
            if "select_subprotocol" in behaviour:
                return behaviour["select_subprotocol"](self, subprotocols)
            return None

        if "check_origin" in behaviour:
            def check_origin(self, origin):
                return behaviour["check_origin"](self, origin)

    return tornado.web.Application([("/ws", H)], **(settings or {}))


class RefClient:
    """The harness as a WebSocket *client* (wsref) talking to Tornado's server over a ServerSession."""

    def __init__(self, app, key="dGhlIHNhbXBsZSBub25jZQ==", ext=None, **req_kw):
        self.session = ServerSession(app)
        self.stream = self.session.stream
        self.key = key
        self.request = upgrade_request(key, ext=ext, **req_kw)
        self.head = None
        self.deflate = None
        self._consumed = 0  # bytes of session.wire already given to the decoder
        self.decoder = None
        self.error = None  # why the handshake response is unacceptable (a verdict about the tree under test, never an exception)

    async def handshake(self, segs=None):
        await self.session.send(self.request, segs)
        try:
            self.head = parse_head(self.session.wire)
        except wsref.RefError as e:
            self.error = "malformed response head: %s" % e
            return False
        if self.head is None or self.head.code != 101:
            self.error = "no 101 response"
            return False
        try:
            self.deflate = negotiated_deflate(self.head)
        except wsref.RefError as e:
            # a 101 whose Sec-WebSocket-Extensions the reference cannot accept (unknown extension, invalid or
            # repeated parameter, bad value): a conforming client fails the connection here
            self.error = "extension response invalid: %s" % e
            return False
        self.decoder = wsref.Decoder(expect_masked=False,
                                     inflater=self.deflate.inflater("server") if self.deflate else None)
        self._consumed = len(self.session.wire) - len(self.head.rest)
        self.poll()
        return True

    def poll(self):
        """Decode whatever Tornado has written since the last poll."""
        w = self.session.wire
        if self.decoder is not None and len(w) > self._consumed:
            self.decoder.feed(w[self._consumed:])
            self._consumed = len(w)
        return self.decoder

    async def send(self, data, segs=None):
        self.stream.feed(data, segs)
        await self.session.settle()
        self.poll()

    async def settle(self):
        await self.session.settle()
        self.poll()

    async def advance(self, dt):
        await self.session.advance(dt)
        self.poll()

    @property
    def closed(self):
        return self.stream.closed()


# --------------------------------------------------------------------------- client side
class FakeTCPClient:
    """Stands in for tornado.tcpclient.TCPClient inside tornado.websocket: `connect` hands out a
    MemoryIOStream the harness holds."""

    created = None  # list collecting the streams (set by fake_tcp)

    def __init__(self, resolver=None):
        self.closed = 0

    async def connect(self, host, port, af=None, ssl_options=None, max_buffer_size=None, source_ip=None,
                      source_port=None, timeout=None):
        s = MemoryIOStream(max_buffer_size=max_buffer_size)
        s.connect_args = (host, port)
        self.created.append(s)
        return s

    def close(self):
        self.closed += 1


@contextlib.contextmanager
def fake_tcp():
    """Scoped replacement of the TCPClient name used by WebSocketClientConnection.__init__."""
    saved = tornado.websocket.TCPClient
    streams = []

    class _Fake(FakeTCPClient):
        created = streams  # survives the scope: connect() runs later, on the loop

    tornado.websocket.TCPClient = _Fake
    try:
        yield streams
    finally:
        tornado.websocket.TCPClient = saved


class ClientSide:
    """A Tornado WebSocketClientConnection whose transport is a MemoryIOStream held by the harness."""

    def __init__(self, url="ws://example.com/ws", callback_mode=True, **kw):
        self.received = []  # messages (None = closed) in arrival order
        # (close_code, close_reason) of the connection object AT THE MOMENT the application is told about the
        # close: inside on_message_callback(None), resp. when the read_message() future resolves with None
        self.close_seen = []
        self.callback_mode = callback_mode
        # read_message() style only: False = the application does not read on its own; messages stay unread in the
        # connection's queue until read_one() / auto_read is switched on ("in-flight" messages at close time)
        self.auto_read = True
        self._pending_read = None
        with fake_tcp() as streams:
            if callback_mode:
                kw["on_message_callback"] = self._on_message
            self.connect_future = tornado.websocket.websocket_connect(url, **kw)
        self._streams = streams
        self.conn = None

    def _on_message(self, message):
        self.received.append(message)
        if message is None:
            self._record_close_attrs()

    def _record_close_attrs(self):
        f = self.connect_future
        if f.done() and not f.cancelled() and f.exception() is None:
            c = f.result()
            self.close_seen.append((c.close_code, c.close_reason))
        else:
            self.close_seen.append(("no-connection", None))

    def reported_close(self):
        """What the application saw when it was notified (falls back to the attributes as they are now)."""
        if self.close_seen:
            return self.close_seen[0]
        c = self.connect_future.result()
        return (c.close_code, c.close_reason)

    @property
    def stream(self):
        return self._streams[0] if self._streams else None

    def pump(self):
        s = self.stream
        return s.pump_once() if s is not None else False

    async def settle(self, pump=None):
        await vtime.settle(pump=pump or self.pump)
        await self.drain_reads(pump)

    async def drain_reads(self, pump=None):
        """read_message() style: keep one read outstanding and collect the results."""
        if self.connect_future.done() and self.conn is None and self.connect_future.exception() is None:
            self.conn = self.connect_future.result()
        if self.callback_mode or self.conn is None:
            return
        if not self.auto_read:
            self._collect_pending()
            return
        for _ in range(10000):
            if self._pending_read is None:
                if self.received and self.received[-1] is None:
                    return
                self._pending_read = self.conn.read_message()
                self._pending_read.add_done_callback(
                    lambda f: self._record_close_attrs() if not f.cancelled() and f.exception() is None and f.result() is None else None)
            await vtime.settle(pump=pump or self.pump)
            if not self._pending_read.done():
                return
            self.received.append(self._pending_read.result())
            self._pending_read = None

    def _collect_pending(self):
        if self._pending_read is not None and self._pending_read.done():
            self.received.append(self._pending_read.result())
            self._pending_read = None
            return True
        return False

    async def read_one(self, pump=None):
        """The application issues (at most) one read_message() and takes its result if it is there. -> bool"""
        if self.connect_future.done() and self.conn is None and self.connect_future.exception() is None:
            self.conn = self.connect_future.result()
        if self.callback_mode or self.conn is None or (self.received and self.received[-1] is None):
            return False
        if self._pending_read is None:
            self._pending_read = self.conn.read_message()
            self._pending_read.add_done_callback(
                lambda f: self._record_close_attrs() if not f.cancelled() and f.exception() is None and f.result() is None else None)
        await vtime.settle(pump=pump or self.pump)
        return self._collect_pending()

    def messages(self):
        return [m for m in self.received if m is not None]


class RefServer:
    """The harness as a WebSocket *server* (wsref) facing a Tornado client connection."""

    def __init__(self, client: ClientSide):
        self.client = client
        self.req_head = None
        self.deflate = None
        self.decoder = None
        self._consumed = 0

    async def read_request(self):
        await self.client.settle()
        s = self.client.stream
        if s is None:
            return None
        try:
            self.req_head = parse_head(bytes(s.wire))
        except wsref.RefError:
            self.req_head = None     # the client wrote something that is not an HTTP request head
        return self.req_head

    def response(self, ext=None, accept=None, protocol=None, status="101 Switching Protocols",
                 upgrade="websocket", connection="Upgrade", extra=()):
        if accept is None:
            accept = wsref.accept_value(self.req_head.get("Sec-WebSocket-Key"))
        lines = ["HTTP/1.1 " + status]
        if upgrade is not None:
            lines.append("Upgrade: " + upgrade)
        if connection is not None:
            lines.append("Connection: " + connection)
        if accept != "":
            lines.append("Sec-WebSocket-Accept: " + accept)
        if ext is not None:
            lines.append("Sec-WebSocket-Extensions: " + ext)
        if protocol is not None:
            lines.append("Sec-WebSocket-Protocol: " + protocol)
        lines.extend(extra)
        return ("\r\n".join(lines) + "\r\n\r\n").encode("latin-1")

    async def accept(self, ext=None, segs=None, **kw):
        """Send the 101; -> True when Tornado's connect future succeeded."""
        s = self.client.stream
        resp = self.response(ext=ext, **kw)
        self.deflate = wsref.deflate_params_from(wsref.parse_extensions(ext)[0][1]) if ext else None
        self._consumed = len(s.wire)
        self.decoder = wsref.Decoder(expect_masked=True,
                                     inflater=self.deflate.inflater("client") if self.deflate else None)
        s.feed(resp, segs)
        await self.client.settle()
        self.poll()
        f = self.client.connect_future
        return f.done() and f.exception() is None

    def poll(self):
        s = self.client.stream
        if self.decoder is not None and len(s.wire) > self._consumed:
            self.decoder.feed(bytes(s.wire[self._consumed:]))
            self._consumed = len(s.wire)
        return self.decoder

    async def send(self, data, segs=None):
        self.client.stream.feed(data, segs)
        await self.client.settle()
        self.poll()

    async def settle(self):
        await self.client.settle()
        self.poll()

    async def advance(self, dt):
        await vtime.advance(dt, pump=self.client.pump)
        await self.client.drain_reads()
        self.poll()


# --------------------------------------------------------------------------- Tornado <-> Tornado
class Pair:
    """Tornado client <-> Tornado server coupled by a Wire; the harness moves the bytes."""

    def __init__(self, app, client_kw=None, callback_mode=True):
        self.client = ClientSide(callback_mode=callback_mode, **(client_kw or {}))
        self.app = app
        self.session = None
        self.wire = None

    async def connect(self, auto=True):
        await vtime.settle()  # lets the client's run() reach tcp_client.connect
        cs = self.client.stream
        if cs is None:
            return False
        self.session = ServerSession(self.app)
        self.wire = Wire(cs, self.session.stream)
        if auto:
            await self.settle()
        return True

    def pump(self):
        return self.wire.pump(auto=True)

    def pump_manual(self):
        return self.wire.pump(auto=False)

    async def settle(self, auto=True):
        pump = self.pump if auto else self.pump_manual
        await vtime.settle(pump=pump)
        await self.client.drain_reads(pump)

    async def advance(self, dt, auto=True):
        pump = self.pump if auto else self.pump_manual
        await vtime.advance(dt, pump=pump)
        await self.client.drain_reads(pump)

    def split_logs(self):
        """(client head, client frame bytes, server head, server frame bytes) from everything sent so far."""
        self.wire.collect()
        try:
            ch = parse_head(bytes(self.wire.log_a))
            sh = parse_head(bytes(self.wire.log_b))
        except wsref.RefError:
            return None, b"", None, b""
        return ch, (ch.rest if ch else b""), sh, (sh.rest if sh else b"")


def teardown(*streams):
    for s in streams:
        if s is not None and not s.closed():
            s.close()


# --------------------------------------------------------------------------- reference-side frame factory
class MaskCycle:
    """Masking keys for the reference client: the generated keys are used cyclically."""

    def __init__(self, masks):
        self.masks, self.i = [bytes(m) for m in masks], 0

    def next(self):
        m = self.masks[self.i % len(self.masks)]
        self.i += 1
        return m


class RefEncoder:
    """Frames as the reference peer of the given role sends them (client: masked, server: not)."""

    def __init__(self, role, masks=(b"\x37\xfa\x21\x3d",), deflater=None):
        self.role = role
        self.masks = MaskCycle(masks) if role == "client" else None
        self.deflater = deflater

    def frame(self, opcode, payload=b"", **kw):
        if "mask" not in kw:
            kw["mask"] = self.masks.next() if self.masks else None
        return wsref.encode_frame(opcode, payload, **kw)

    def message(self, opcode, data, cuts=(), compress=False, flush=None, gap_frames=None):
        """One valid message; cuts are permille of the on-wire payload; gap_frames: {gap index: [bytes]}."""
        compressed = self.deflater is not None and compress
        body = self.deflater.compress_message(data, flush) if compressed else bytes(data)
        frags = wsref.split_at(body, sorted(len(body) * c // 1000 for c in cuts))
        out = bytearray()
        for i, frag in enumerate(frags):
            out += self.frame(opcode if i == 0 else wsref.OP_CONT, frag, fin=(i == len(frags) - 1), rsv1=(compressed and i == 0))
            if gap_frames and i < len(frags) - 1:
                for fr in gap_frames.get(i, []):
                    out += fr
        return bytes(out), {"compressed": compressed, "fragments": len(frags), "wire_len": len(out)}
