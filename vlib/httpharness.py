"""Run Tornado's HTTP server (HTTPServer.handle_stream) over the in-memory transport on a virtual loop."""
from __future__ import annotations

import contextlib
import logging

from tornado.httpserver import HTTPServer

from . import vtime
from .memstream import MemoryIOStream

LOGGERS = ("tornado.access", "tornado.application", "tornado.general")


class LogCapture(logging.Handler):
    """Collects tornado log records for the duration of a case (nothing is printed)."""

    def __init__(self):
        super().__init__(level=logging.DEBUG)
        self.records = []

    def emit(self, record):
        try:
            msg = record.getMessage()
        except Exception:
            msg = repr(record.msg)
        self.records.append((record.name, record.levelno, msg, bool(record.exc_info)))

    def __enter__(self):
        self._saved = []
        for name in LOGGERS + ("asyncio",):
            lg = logging.getLogger(name)
            self._saved.append((lg, lg.handlers[:], lg.propagate, lg.level))
            lg.handlers = [self]
            lg.propagate = False
            lg.setLevel(logging.DEBUG)
        return self

    def __exit__(self, *a):
        for lg, handlers, prop, level in self._saved:
            lg.handlers = handlers
            lg.propagate = prop
            lg.setLevel(level)

    def errors(self, names=("tornado.application", "tornado.general", "asyncio")):
        return [r for r in self.records if r[0] in names and r[1] >= logging.ERROR]

    def uncaught(self):
        """Records that report an uncaught exception / traceback in the framework."""
        return [r for r in self.records if r[1] >= logging.ERROR and (r[3] or "ncaught" in r[2] or "Exception" in r[2])]


class ServerSession:
    """One server-side connection: HTTPServer(request_callback, **kw).handle_stream(MemoryIOStream)."""

    def __init__(self, request_callback, address=("127.0.0.1", 54321), family=None, stream_kwargs=None, **server_kwargs):
        self.server = HTTPServer(request_callback, **server_kwargs)
        skw = dict(max_buffer_size=self.server.max_buffer_size, read_chunk_size=self.server.read_chunk_size)
        skw.update(stream_kwargs or {})
        self.stream = MemoryIOStream(family=family, peer=address, **skw)
        self.server.handle_stream(self.stream, address)

    def pump(self):
        return self.stream.pump_once()

    async def settle(self):
        return await vtime.settle(pump=self.pump)

    async def send(self, data, segments=None):
        self.stream.feed(data, segments)
        await self.settle()

    async def send_eof(self):
        self.stream.feed_eof()
        await self.settle()

    async def advance(self, dt):
        await vtime.advance(dt, pump=self.pump)

    @property
    def wire(self):
        return bytes(self.stream.wire)

    @property
    def closed(self):
        return self.stream.closed()


def roundtrip(request_callback, data, segments=None, eof=False, server_kwargs=None, stream_kwargs=None,
              address=("127.0.0.1", 54321), extra=None):
    """Feed `data` to a fresh server connection, let the loop go quiescent, return (wire, closed, logs, session).
    `extra` is an optional async callable(session) run after the data has been processed."""

    async def scenario():
        s = ServerSession(request_callback, address=address, stream_kwargs=stream_kwargs, **(server_kwargs or {}))
        await s.send(data, segments)
        if extra is not None:
            await extra(s)
        if eof:
            await s.send_eof()
        wire, closed = s.wire, s.closed
        # orderly teardown so nothing outlives the case
        if not s.closed:
            s.stream.close()
            await s.settle()
        return wire, closed, s

    with LogCapture() as logs:
        wire, closed, s = vtime.run(scenario)
    return wire, closed, logs, s
