"""Shared runner for every property check.

A check module (``checks/cNN_*.py``) defines::

    PROPERTY = "C06"
    RULE = "how cases are generated and what makes one non-trivial"
    ASSUMPTIONS = [...]
    SHARDS = 16          # optional: worker processes used by the thorough tier
    def main(ctx): ...   # calls ctx.explore(...) / ctx.enumerate(...) one or more times
    PARTS = {"name": run_case}   # replay dispatch: part name -> run_case(ctx, case)

``run_case(ctx, case)`` executes real Tornado code on one plain-data case, calls
``ctx.note(...)`` once to account for the case and ``ctx.fail(clause, detail, sig=...)`` for
every broken oracle clause.  All randomness comes from Hypothesis strategies seeded from
VERIF_SEED; nothing here reads the wall clock for anything but the ``wall_s`` report.

Exit codes: 0 held / 1 violation (``VIOLATION property=<id> replay=<path>``) / 2 harness error.
"""
from __future__ import annotations

import argparse
import asyncio
import collections
import hashlib
import importlib
import json
import os
import signal
import subprocess
import sys
import time
import traceback

VERIF = os.path.dirname(os.path.dirname(os.path.abspath(__file__)))
REPO = os.environ.get("VERIF_REPO", "/repo")
WORK = os.path.join(VERIF, ".work")
RERUN_MAX = 150  # cases per part remembered for the second pass
RERUN_MIN = 20  # executed again whatever it costs
RERUN_SECONDS = 3.0  # wall-clock budget of one part's second pass beyond RERUN_MIN cases


# --------------------------------------------------------------------------- JSON codec
def to_jsonable(x):
    if isinstance(x, (bytes, bytearray)):
        return {"__b__": bytes(x).hex()}
    if isinstance(x, tuple):
        return {"__t__": [to_jsonable(i) for i in x]}
    if isinstance(x, list):
        return [to_jsonable(i) for i in x]
    if isinstance(x, (set, frozenset)):
        return {"__s__": sorted((to_jsonable(i) for i in x), key=repr)}
    if isinstance(x, dict):
        if all(isinstance(k, str) for k in x) and not any(
            k in ("__b__", "__t__", "__d__", "__s__", "__f__") for k in x
        ):
            return {k: to_jsonable(v) for k, v in x.items()}
        return {"__d__": [[to_jsonable(k), to_jsonable(v)] for k, v in x.items()]}
    if isinstance(x, float):
        if x != x or x in (float("inf"), float("-inf")):
            return {"__f__": repr(x)}
        return x
    if x is None or isinstance(x, (bool, int, str)):
        return x
    return {"__repr__": repr(x)}


def from_jsonable(x):
    if isinstance(x, list):
        return [from_jsonable(i) for i in x]
    if isinstance(x, dict):
        if "__b__" in x and len(x) == 1:
            return bytes.fromhex(x["__b__"])
        if "__t__" in x and len(x) == 1:
            return tuple(from_jsonable(i) for i in x["__t__"])
        if "__s__" in x and len(x) == 1:
            return set(from_jsonable(i) for i in x["__s__"])
        if "__d__" in x and len(x) == 1:
            return {_hashable(from_jsonable(k)): from_jsonable(v) for k, v in x["__d__"]}
        if "__f__" in x and len(x) == 1:
            return float(x["__f__"])
        return {k: from_jsonable(v) for k, v in x.items()}
    return x


def _hashable(k):
    return tuple(k) if isinstance(k, list) else k


def short(x, limit=400):
    s = json.dumps(to_jsonable(x), ensure_ascii=True, sort_keys=True)
    if len(s) > limit:
        return s[:limit] + "...(%d chars)" % len(s)
    return s


def sample_form(x, limit=1500):
    """A JSON value for the evidence file: the case itself if small, else a truncated string."""
    j = to_jsonable(x)
    s = json.dumps(j, ensure_ascii=True, sort_keys=True)
    if len(s) <= limit:
        return j
    return s[:limit] + "...(%d chars)" % len(s)


def digest(case) -> str:
    s = json.dumps(to_jsonable(case), ensure_ascii=True, sort_keys=True)
    return hashlib.sha1(s.encode()).hexdigest()[:16]


def _patch_bytestring_provider():
    """Hypothesis 6.168's BytestringProvider (the decoder behind fuzz_one_input) draws a bounded integer as
    `bits(max-min)` raw bits and compares them with [min, max] WITHOUT adding min, so any range whose lower
    bound exceeds its width (integers(126, 130), timestamps, ...) can never be satisfied and the whole buffer
    is rejected as an overrun.  Most of our strategies contain such a range, so the coverage-guided shard
    would execute nothing.  The fixed decoder offsets by min.  Only the fuzz shard uses it."""
    try:
        import hypothesis.core as hc
        from hypothesis.internal.conjecture.providers import BytestringProvider
    except Exception:  # other Hypothesis version: leave it alone
        return

    class OffsetBytestringProvider(BytestringProvider):
        def draw_integer(self, min_value=None, max_value=None, *, weights=None, shrink_towards=0):
            if min_value is None and max_value is None:
                min_value, max_value = -(2 ** 127), 2 ** 127 - 1
            elif min_value is None:
                min_value = max_value - 2 ** 64
            elif max_value is None:
                max_value = min_value + 2 ** 64
            if min_value == max_value:
                return min_value
            width = max_value - min_value
            bits = width.bit_length()
            value = self._draw_bits(bits)
            while value > width:
                value = self._draw_bits(bits)
            return min_value + value

    if getattr(hc, "BytestringProvider", None) is BytestringProvider:
        hc.BytestringProvider = OffsetBytestringProvider


# --------------------------------------------------------------------------- failures
class Violation(Exception):
    def __init__(self, clause, detail=None, sig=None):
        self.clause = clause
        self.detail = detail
        self.sig = sig or clause
        super().__init__("%s: %s" % (clause, short(detail, 1200)))


class HarnessError(Exception):
    pass


def load_findings(prop):
    """known_findings.json (committed, read-only at run time) plus per-property drop-ins under
    known_findings.d/ that are folded into the main file by tools/merge_findings.py."""
    out = []
    paths = [os.path.join(VERIF, "known_findings.json")]
    d = os.path.join(VERIF, "known_findings.d")
    if os.path.isdir(d):
        paths += [os.path.join(d, fn) for fn in sorted(os.listdir(d)) if fn.endswith(".json")]
    for path in paths:
        if not os.path.exists(path):
            continue
        data = None
        for attempt in range(5):
            try:
                with open(path) as f:
                    data = json.load(f)
                break
            except (json.JSONDecodeError, OSError):
                time.sleep(0.2)  # a drop-in being rewritten by someone else: retry
        if data is None:
            if os.path.basename(path) in ("known_findings.json", prop + ".json"):
                raise HarnessError("unreadable findings file %s" % path)
            continue
        out += [x for x in data.get("findings", []) if x.get("property") == prop]
    return out


def _innermost_repo_frame(exc):
    """True if the innermost traceback frame of exc lies inside the repository's tornado package."""
    tb = exc.__traceback__
    last = None
    while tb is not None:
        last = tb
        tb = tb.tb_next
    if last is None:
        return None
    fn = last.tb_frame.f_code.co_filename
    if fn.startswith(os.path.join(REPO, "tornado") + os.sep):
        return "%s:%s" % (os.path.basename(fn), last.tb_frame.f_code.co_name)
    return None


class Ctx:
    def __init__(self, prop, tier, seed, shard=None):
        self.prop = prop
        self.tier = tier
        self.seed = seed
        self.shard = shard  # (k, n) or None
        self.evaluations = 0
        self.nontrivial = set()
        self.labels = collections.Counter()
        self.samples = {}
        self.excluded = collections.Counter()
        self.excluded_samples = {}
        self.violations = []
        self.findings = load_findings(prop)
        self.open_sigs = {f["sig"]: f for f in self.findings if f.get("status") == "open"}
        self.parts = {}
        self.exhaustive_parts = []
        self.replays_run = 0
        self.extra = {}
        self.warnings = []
        self._current_case = None
        self._part = None
        self._viol_count = 0
        self._rerun = False  # second pass over already executed cases (state left behind by earlier cases)
        self.fuzz = None  # coverage-guided shard: {"index": i, "runs": n, "seconds": s, "result": path}
        self._explore_idx = 0

    # ---- budgets
    @property
    def thorough(self):
        return self.tier == "thorough"

    def n(self, quick, thorough):
        """Case budget for one explore() call.  In the thorough tier the budget is per whole run and is
        divided among the shards."""
        if self.tier == "thorough":
            if self.shard:
                return max(1, thorough // self.shard[1])
            return thorough
        return quick

    def seed_for(self, name):
        k = self.shard[0] if self.shard else 0
        h = hashlib.sha256(("%d:%s:%d" % (self.seed, name, k)).encode()).digest()
        return int.from_bytes(h[:8], "big")

    # ---- accounting
    def note(self, case=None, labels=(), nontrivial=False, key=None):
        """Account for one executed case.  `key` (default: the case) is hashed for distinctness."""
        if self._rerun:
            self.extra["rerun_cases"] = self.extra.get("rerun_cases", 0) + 1
            return
        self.evaluations += 1
        if self._part:
            self.parts[self._part] = self.parts.get(self._part, 0) + 1
        for lab in labels:
            self.labels[lab] += 1
            if lab not in self.samples and case is not None:
                self.samples[lab] = sample_form(case)
        if nontrivial:
            self.nontrivial.add(digest(case if key is None else key))
        if "_any" not in self.samples and case is not None:
            self.samples["_any"] = sample_form(case)

    def label(self, *labels):
        for lab in labels:
            self.labels[lab] += 1

    def fail(self, clause, detail=None, sig=None):
        """Oracle clause `clause` is broken for the current case.  `sig` is the narrow structural
        signature (clause + input class) matched against open entries of known_findings.json."""
        sig = sig or clause
        f = self.open_sigs.get(sig)
        if f is not None:
            self.excluded[f["id"]] += 1
            if f["id"] not in self.excluded_samples:
                self.excluded_samples[f["id"]] = {"detail": sample_form(detail)}
            return
        raise Violation(clause, detail, sig)

    def check(self, cond, clause, detail=None, sig=None):
        if not cond:
            self.fail(clause, detail, sig)

    # ---- drivers
    def _wrap(self, run_case):
        def runner(case):
            self._current_case = case
            try:
                run_case(self, case)
            except Violation:
                raise
            except HarnessError:
                raise
            except (Exception, asyncio.CancelledError) as e:  # unexpected exception: from tornado => violation, else harness bug
                # (CancelledError is a BaseException: one escaping from a tornado frame would otherwise end the run as exit 2)
                where = _innermost_repo_frame(e)
                if where is not None:
                    clause = "crash.%s@%s" % (type(e).__name__, where)
                    f = self.open_sigs.get(clause)
                    if f is not None:
                        self.excluded[f["id"]] += 1
                        return
                    raise Violation(clause, {"exception": repr(e), "tb": traceback.format_exc()[-1500:]})
                raise

        return runner

    def explore(self, strategy, run_case, max_examples, name="main", phases=None):
        """Generated-input search: run `run_case(ctx, case)` on `max_examples` cases from `strategy`;
        on a violation Hypothesis shrinks it and the minimal case becomes the replay file."""
        import hypothesis
        from hypothesis import HealthCheck, Phase, given, settings

        if max_examples <= 0:
            return
        if self.fuzz is not None:
            idx = self._explore_idx
            self._explore_idx += 1
            if idx == self.fuzz["index"]:
                self._fuzz(strategy, run_case, name)  # does not return
            return
        self._part = name
        runner = self._wrap(run_case)
        last = {}

        @hypothesis.seed(self.seed_for(name))
        @settings(
            max_examples=max_examples,
            database=None,
            deadline=None,
            derandomize=False,
            report_multiple_bugs=False,
            suppress_health_check=list(HealthCheck),
            phases=phases or [Phase.generate, Phase.shrink],
            print_blob=False,
        )
        @given(strategy)
        def test(case):
            last["case"] = case
            if len(seen) < RERUN_MAX:
                seen.append(case)
            try:
                runner(case)
            except Violation as v:
                last["viol"] = {"clause": v.clause, "detail": sample_form(v.detail, 1500)}
                raise

        seen = []
        try:
            test()
            self._rerun_pass(name, seen, runner)
        except Violation as v:
            self._record_violation(name, self._current_case if getattr(self, "_history", None) else last.get("case"), v)
        except hypothesis.errors.Flaky as e:
            # the same case failed and then passed when Hypothesis repeated it: its outcome depends on what ran before
            # it in this process (state shared between instances / calls) - that is a finding about the code under
            # test, not an inconclusive run
            if not last.get("viol"):
                # what failed and then passed was not an oracle clause (a harness bound such as a real-time cap on
                # an overloaded machine): inconclusive, never a verdict
                raise HarnessError("flaky: %r" % (e,))
            v = Violation("%s.result_depends_on_earlier_cases" % self.prop,
                          {"hypothesis": repr(e)[:500], "first_failure": last.get("viol")})
            self._record_violation(name, last.get("case"), v)
        finally:
            self._part = None


    def _fuzz(self, strategy, run_case, name):
        """Coverage-guided search over the SAME strategy and oracle as explore(): libFuzzer (atheris) mutates
        the byte buffer Hypothesis draws the case from, guided by branch coverage of the tornado package
        (instrumented at import in this process).  A failing buffer is handed back to Hypothesis through an
        in-memory example database, replayed and shrunk there, and the minimal case becomes the replay file.
        Ends the process: after `runs` executions or `seconds` of budget (inconclusive, never a violation)."""
        import atheris
        import hypothesis
        from hypothesis import HealthCheck, Phase, given, settings
        from hypothesis.database import InMemoryExampleDatabase

        self._part = "fuzz:" + name
        runner = self._wrap(run_case)
        last = {}
        _patch_bytestring_provider()
        db = InMemoryExampleDatabase()
        seed = self.seed_for("fuzz:" + name)

        def make(phases, max_examples):
            # no @seed here: Hypothesis disables the database for seeded tests, and the database is how the
            # failing buffer gets from fuzz_one_input to the shrinker; the shrink pass is pinned through the
            # global PRNG instead (random.seed below)
            @settings(max_examples=max_examples, database=db, deadline=None, derandomize=False,
                      report_multiple_bugs=False, suppress_health_check=list(HealthCheck), phases=phases,
                      print_blob=False)
            @given(strategy)
            def test(case):
                last["case"] = case
                runner(case)

            return test

        fuzz_one = make([Phase.generate], 1).hypothesis.fuzz_one_input
        st = {"execs": 0, "t0": time.time()}

        # starting corpus: pseudo-random buffers (pure function of the seed) long enough for Hypothesis to draw a
        # whole case from; an empty corpus makes libFuzzer spend its first thousands of runs on buffers that are
        # too short to decode.  libFuzzer also tries the empty input by itself.
        import random as _random
        import shutil

        corpus = os.path.join(WORK, "fuzzcorpus-%s-%d" % (self.prop, os.getpid()))
        os.makedirs(corpus, exist_ok=True)
        rnd = _random.Random(seed)
        for i in range(48):
            with open(os.path.join(corpus, "seed%02d" % i), "wb") as f:
                f.write(rnd.randbytes(rnd.choice([256, 1024, 2048, 4096, 8192])))

        def finish(rc=0):
            shutil.rmtree(corpus, ignore_errors=True)
            self.extra["fuzz_execs"] = st["execs"]
            self.extra["fuzz_parts"] = {name: {"execs": st["execs"], "cases": self.parts.get(self._part, 0),
                                               "wall_s": round(time.time() - st["t0"], 1)}}
            with open(self.fuzz["result"], "w") as f:
                json.dump(dict(self.result(), is_fuzz=True), f)
            sys.stdout.flush()
            sys.stderr.flush()
            os._exit(rc)

        def one(data):
            st["execs"] += 1
            try:
                fuzz_one(data)
            except Violation as v0:
                case0 = last.get("case")
                try:  # replay + shrink through Hypothesis (the failing buffer was saved in db)
                    import random

                    random.seed(seed)
                    make([Phase.reuse, Phase.shrink], 1)()
                    self._record_violation(name, case0, v0)  # did not reproduce on replay: keep the original
                except Violation as v:
                    self._record_violation(name, last.get("case"), v)
                except BaseException:
                    self._record_violation(name, case0, v0)
                finish(0)
            except HarnessError:
                traceback.print_exc()
                finish(2)
            except BaseException:
                traceback.print_exc()
                finish(2)
            if st["execs"] >= self.fuzz["runs"] or time.time() - st["t0"] > self.fuzz["seconds"]:
                finish(0)

        argv = [sys.argv[0], "-runs=%d" % (self.fuzz["runs"] * 4 + 1000), "-seed=%d" % (seed % (2 ** 31 - 1) + 1),
                "-max_len=16384", "-len_control=0", "-timeout=3600", "-rss_limit_mb=8192", "-print_final_stats=1", "-verbosity=1"]
        atheris.Setup(argv + [corpus], one)
        atheris.Fuzz()
        finish(0)

    def _rerun_pass(self, name, seen, runner):
        """Second pass: the first cases of this part are executed once more, in the same process, after everything
        else the part ran.  Every oracle is a function of the case alone, so a case that held the first time and
        fails now was changed by state that earlier evaluations left behind (a cache or memo shared between
        instances, a class-level container, a counter that is not reset).  The violation's replay file carries the
        history that reproduces it."""
        if not seen or os.environ.get("VERIF_NO_RERUN"):
            return
        t0 = time.time()
        self._rerun = True
        try:
            for i, case in enumerate(seen):
                if i >= RERUN_MIN and time.time() - t0 > RERUN_SECONDS:  # budget only, never a verdict
                    break
                try:
                    runner(case)
                except Violation as v:
                    self._history = list(seen)
                    raise Violation(v.clause, {"only_when_repeated_after_other_cases": True, "detail": v.detail},
                                    sig=v.sig)
        finally:
            self._rerun = False

    def enumerate(self, cases, run_case, name="enum", exhaustive=True, stop_after=3):
        """Finite enumeration: every case of `cases` (sharded i % n == k in the thorough tier)."""
        if self.fuzz is not None:
            return
        self._part = name
        runner = self._wrap(run_case)
        k, n = self.shard if self.shard else (0, 1)
        nviol = 0
        seen = []
        try:
            for i, case in enumerate(cases):
                if i % n != k:
                    continue
                if len(seen) < RERUN_MAX:
                    seen.append(case)
                try:
                    runner(case)
                except Violation as v:
                    self._record_violation(name, case, v)
                    nviol += 1
                    if nviol >= stop_after:
                        exhaustive = False
                        break
            if not nviol:
                try:
                    self._rerun_pass(name, seen, runner)
                except Violation as v:
                    self._record_violation(name, self._current_case, v)
        finally:
            self._part = None
        if exhaustive:
            self.exhaustive_parts.append(name)

    def run_replays(self, parts):
        """Run every committed replay of this property first (plain regression checks, no Hypothesis)."""
        d = os.path.join(VERIF, "replays", self.prop)
        if not os.path.isdir(d) or (self.shard and self.shard[0] != 0) or self.fuzz is not None:
            return
        for fn in sorted(os.listdir(d)):
            if not fn.endswith(".json"):
                continue
            path = os.path.join(d, fn)
            with open(path) as f:
                rec = json.load(f)
            part = rec.get("part", "main")
            if part not in parts:
                self.warnings.append("replay %s names unknown part %s" % (fn, part))
                continue
            case = from_jsonable(rec["case"])
            self._part = "replay"
            try:
                self._wrap(parts[part])(case)
                self.replays_run += 1
            except Violation as v:
                self.replays_run += 1
                self._record_violation(part, case, v, existing_path=path)
            finally:
                self._part = None

    def _record_violation(self, part, case, v, existing_path=None):
        self._viol_count += 1
        if existing_path:
            path = existing_path
        else:
            d = os.path.join(VERIF, "replays", "_found")
            os.makedirs(d, exist_ok=True)
            tag = "%s-s%d-%s%d" % (
                self.prop,
                self.seed,
                ("k%d-" % self.shard[0]) if self.shard else "",
                self._viol_count,
            )
            path = os.path.join(d, tag + ".json")
            with open(path, "w") as f:
                json.dump(
                    {
                        "property": self.prop,
                        "part": part,
                        "clause": v.clause,
                        "sig": v.sig,
                        "detail": sample_form(v.detail, 4000),
                        "seed": self.seed,
                        "case": to_jsonable(case),
                        **({"history": [to_jsonable(c) for c in self._history]} if getattr(self, "_history", None) else {}),
                    },
                    f,
                    indent=1,
                    sort_keys=True,
                )
        self._history = None
        self.violations.append(
            {"part": part, "clause": v.clause, "sig": v.sig, "replay": path, "detail": sample_form(v.detail, 1500)}
        )
        print("VIOLATION property=%s replay=%s" % (self.prop, path), flush=True)
        print("  clause=%s detail=%s" % (v.clause, short(v.detail, 1500)), flush=True)

    # ---- results
    def result(self):
        return {
            "evaluations": self.evaluations,
            "nontrivial": sorted(self.nontrivial),
            "labels": dict(self.labels),
            "samples": self.samples,
            "excluded": dict(self.excluded),
            "excluded_samples": self.excluded_samples,
            "violations": self.violations,
            "parts": self.parts,
            "exhaustive_parts": self.exhaustive_parts,
            "replays_run": self.replays_run,
            "extra": self.extra,
            "warnings": self.warnings,
        }


def merge_results(results):
    out = {
        "evaluations": 0,
        "nontrivial": set(),
        "labels": collections.Counter(),
        "samples": {},
        "excluded": collections.Counter(),
        "excluded_samples": {},
        "violations": [],
        "parts": collections.Counter(),
        "exhaustive_parts": None,
        "replays_run": 0,
        "extra": {},
        "warnings": [],
    }
    for r in results:
        out["evaluations"] += r["evaluations"]
        out["nontrivial"].update(r["nontrivial"])
        out["labels"].update(r["labels"])
        for k, v in r["samples"].items():
            out["samples"].setdefault(k, v)
        out["excluded"].update(r["excluded"])
        for k, v in r["excluded_samples"].items():
            out["excluded_samples"].setdefault(k, v)
        out["violations"].extend(r["violations"])
        out["parts"].update(r["parts"])
        if not r.get("is_fuzz"):
            ex = set(r["exhaustive_parts"])
            out["exhaustive_parts"] = ex if out["exhaustive_parts"] is None else (out["exhaustive_parts"] & ex)
        out["replays_run"] += r["replays_run"]
        for k, v in r["extra"].items():
            if isinstance(v, (int, float)) and isinstance(out["extra"].get(k, 0), (int, float)):
                out["extra"][k] = out["extra"].get(k, 0) + v
            else:
                out["extra"].setdefault(k, v)
        out["warnings"].extend(r["warnings"])
    out["nontrivial"] = sorted(out["nontrivial"])
    out["labels"] = dict(out["labels"])
    out["excluded"] = dict(out["excluded"])
    out["parts"] = dict(out["parts"])
    out["exhaustive_parts"] = sorted(out["exhaustive_parts"] or [])
    return out


def write_evidence(mod, tier, seed, res, wall, dry=False):
    prop = mod.PROPERTY
    samples = []
    for lab, s in sorted(res["samples"].items()):
        samples.append({"label": lab, "case": s})
        if len(samples) >= 12:
            break
    all_parts = {p for p in res["parts"] if p != "replay" and not p.startswith("fuzz:")}
    cov = {
        "evaluations": res["evaluations"],
        "distinct_nontrivial": len(res["nontrivial"]),
        "rule": mod.RULE,
        "samples": samples,
        "labels": res["labels"],
        "cases_per_part": res["parts"],
        "excluded_by_known_finding": res["excluded"],
        "replays_run": res["replays_run"],
        "exhaustive": bool(all_parts) and all_parts <= set(res["exhaustive_parts"]),
        "exhaustive_parts": res["exhaustive_parts"],
    }
    if res["extra"]:
        cov["extra"] = res["extra"]
    if res["warnings"]:
        cov["warnings"] = res["warnings"][:20]
    ev = {
        "property_id": prop,
        "tier": tier,
        "seed": seed,
        "level": getattr(mod, "LEVEL", "exploration"),
        "coverage": cov,
        "assumptions": list(getattr(mod, "ASSUMPTIONS", [])),
        "wall_s": round(wall, 3),
        "violations": len(res["violations"]),
    }
    if dry:  # sensitivity runs against scratch/mutated trees must not overwrite evidence of the real tree
        return ev
    os.makedirs(os.path.join(VERIF, "evidence"), exist_ok=True)
    path = os.path.join(VERIF, "evidence", prop + ".json")
    tmp = path + ".tmp"
    with open(tmp, "w") as f:
        json.dump(ev, f, indent=1, sort_keys=True)
        f.write("\n")
    os.replace(tmp, path)
    return ev


def find_module(prop):
    d = os.path.join(VERIF, "checks")
    for fn in sorted(os.listdir(d)):
        if fn.lower().startswith(prop.lower() + "_") and fn.endswith(".py"):
            return "checks." + fn[:-3]
    raise SystemExit("no check module for %s" % prop)


def setup_paths(instrument=False):
    deps = os.path.join(VERIF, ".deps")
    for p in (deps, REPO, VERIF):
        if p in sys.path:
            sys.path.remove(p)
    # repo first so the working tree is what gets imported; .deps only supplies hypothesis/atheris
    sys.path[0:0] = [REPO, VERIF, deps]
    if instrument:  # coverage-guided shard: branch coverage of the tornado package feeds libFuzzer
        import atheris

        with atheris.instrument_imports(include=["tornado"], enable_loader_override=False):
            import tornado
            import tornado.web, tornado.websocket, tornado.httpclient, tornado.simple_httpclient  # noqa
            import tornado.template, tornado.locks, tornado.queues, tornado.tcpclient, tornado.locale  # noqa
            import tornado.auth, tornado.wsgi, tornado.process, tornado.platform.asyncio  # noqa
    import tornado

    if not os.path.abspath(tornado.__file__).startswith(os.path.abspath(REPO) + os.sep):
        raise SystemExit("tornado imported from %s, not from %s" % (tornado.__file__, REPO))


def _watchdog(seconds):
    def on_alarm(signum, frame):
        sys.stderr.write("watchdog: check exceeded %ds (inconclusive, harness exit 2)\n" % seconds)
        traceback.print_stack(frame, file=sys.stderr)
        os._exit(2)

    signal.signal(signal.SIGALRM, on_alarm)
    signal.alarm(seconds)


def main(argv=None):
    ap = argparse.ArgumentParser()
    ap.add_argument("prop")
    ap.add_argument("--tier", default=os.environ.get("VERIF_TIER") or "quick", choices=["quick", "thorough"])
    ap.add_argument("--replay")
    ap.add_argument("--shard")
    ap.add_argument("--result")
    ap.add_argument("--shards", type=int)
    ap.add_argument("--fuzz-part", type=int)  # internal: coverage-guided shard for the i-th explore() call
    ap.add_argument("--fuzz-runs", type=int, default=20000)
    ap.add_argument("--fuzz-seconds", type=int, default=300)
    args = ap.parse_args(argv)

    if os.environ.get("PYTHONHASHSEED") != "0":
        os.environ["PYTHONHASHSEED"] = "0"
        os.execv(sys.executable, [sys.executable] + sys.argv)

    seed = int(os.environ.get("VERIF_SEED") or "1")
    setup_paths(instrument=args.fuzz_part is not None)
    prop = args.prop.upper()
    mod = importlib.import_module(find_module(prop))
    assert mod.PROPERTY == prop

    if args.fuzz_part is not None:
        ctx = Ctx(prop, args.tier, seed, shard=(0, 1))
        ctx.fuzz = {"index": args.fuzz_part, "runs": args.fuzz_runs, "seconds": args.fuzz_seconds, "result": args.result}
        mod.main(ctx)  # the target explore() call ends the process itself
        with open(args.result, "w") as f:  # fewer explore() calls than the index: nothing to fuzz
            json.dump({"no_part": True}, f)
        return 0

    if args.replay:
        ctx = Ctx(prop, args.tier, seed)
        with open(args.replay) as f:
            rec = json.load(f)
        case = from_jsonable(rec["case"])
        part = rec.get("part", "main")
        for h in rec.get("history", []):  # state-dependent failure: re-create the history first
            try:
                ctx._wrap(mod.PARTS[part])(from_jsonable(h))
            except Violation:
                pass
        try:
            ctx._wrap(mod.PARTS[part])(case)
        except Violation as v:
            print("VIOLATION property=%s replay=%s" % (prop, args.replay))
            print("  clause=%s detail=%s" % (v.clause, short(v.detail, 3000)))
            return 1
        for fid, cnt in ctx.excluded.items():
            f = [x for x in ctx.findings if x["id"] == fid][0]
            print("KNOWN-FINDING: property=%s %s" % (prop, f["what"]))
        print("replay held: property=%s" % prop)
        return 0

    t0 = time.time()
    if args.shard:
        k, n = map(int, args.shard.split("/"))
        _watchdog(int(os.environ.get("VERIF_WATCHDOG") or 7200))
        ctx = Ctx(prop, args.tier, seed, shard=(k, n))
        mod.main(ctx)
        with open(args.result, "w") as f:
            json.dump(ctx.result(), f)
        return 0

    nshards = args.shards or (getattr(mod, "SHARDS", 16) if args.tier == "thorough" else getattr(mod, "QUICK_SHARDS", 1))
    if nshards > 1:
        os.makedirs(WORK, exist_ok=True)
        tag = "%s-%d-%d" % (prop, os.getpid(), int(t0))
        procs = []
        for k in range(nshards):
            rp = os.path.join(WORK, "%s-%d.json" % (tag, k))
            cmd = [sys.executable, os.path.join(VERIF, "check"), prop, "--tier", args.tier,
                   "--shard", "%d/%d" % (k, nshards), "--result", rp]
            procs.append((k, rp, subprocess.Popen(cmd, stdout=subprocess.PIPE, stderr=subprocess.PIPE, text=True)))
        fuzz_procs = []
        nfuzz = 0 if args.tier != "thorough" or os.environ.get("VERIF_NO_FUZZ") else getattr(mod, "FUZZ_PARTS", 3)
        for i in range(nfuzz):
            rp = os.path.join(WORK, "%s-fuzz%d.json" % (tag, i))
            cmd = [sys.executable, os.path.join(VERIF, "check"), prop, "--tier", args.tier, "--fuzz-part", str(i),
                   "--fuzz-runs", str(getattr(mod, "FUZZ_RUNS", 20000)), "--fuzz-seconds", str(getattr(mod, "FUZZ_SECONDS", 300)),
                   "--result", rp]
            fuzz_procs.append((i, rp, subprocess.Popen(cmd, stdout=subprocess.PIPE, stderr=subprocess.PIPE, text=True)))
        results = []
        bad = False
        for k, rp, p in procs:
            out, err = p.communicate()
            for line in out.splitlines():
                print(line)
            if p.returncode != 0 or not os.path.exists(rp):
                bad = True
                sys.stderr.write("shard %d failed rc=%s\n%s\n" % (k, p.returncode, err[-4000:]))
            else:
                with open(rp) as f:
                    results.append(json.load(f))
                os.unlink(rp)
        fuzz_notes = []
        for i, rp, p in fuzz_procs:
            # the coverage-guided shard is an extra: if it cannot run (time budget, libFuzzer trouble) that is
            # recorded as inconclusive in the evidence and never decides the outcome
            try:
                out, err = p.communicate(timeout=getattr(mod, "FUZZ_SECONDS", 300) * 3 + 600)
            except subprocess.TimeoutExpired:
                p.kill()
                out, err = p.communicate()
                fuzz_notes.append("fuzz part %d: killed after time budget (inconclusive)" % i)
                continue
            r = None
            if os.path.exists(rp):
                try:
                    with open(rp) as f:
                        r = json.load(f)
                except ValueError:
                    r = None
                os.unlink(rp)
            if r is None:
                fuzz_notes.append("fuzz part %d: no result (rc=%s) %s" % (i, p.returncode, err[-300:].replace("\n", " | ")))
                continue
            if r.get("no_part"):
                continue
            cov = [l for l in err.splitlines() if " cov: " in l]
            if cov:
                for nm in r.get("extra", {}).get("fuzz_parts", {}):
                    r["extra"]["fuzz_parts"][nm]["libfuzzer_last"] = cov[-1].strip()[:160]
            # a violation found under instrumentation counts only if the saved case fails in a plain process too
            keep = []
            for v in r.get("violations", []):
                rc2 = subprocess.run([sys.executable, os.path.join(VERIF, "check"), prop, "--replay", v["replay"]],
                                     stdout=subprocess.PIPE, stderr=subprocess.STDOUT, text=True).returncode
                if rc2 == 1:
                    keep.append(v)
                    print("VIOLATION property=%s replay=%s" % (prop, v["replay"]))
                    print("  clause=%s (found by the coverage-guided shard) detail=%s" % (v["clause"], short(v["detail"], 1200)))
                else:
                    fuzz_notes.append("fuzz part %d: case %s failed only under instrumentation (replay rc=%s); ignored" % (i, v["replay"], rc2))
            r["violations"] = keep
            results.append(r)
        if bad:
            return 2
        res = merge_results(results)
        res["warnings"].extend(fuzz_notes)
        fp = {}
        for r in results:
            fp.update(r.get("extra", {}).get("fuzz_parts", {}) or {})
        if fp:
            res["extra"]["fuzz_parts"] = fp
    else:
        _watchdog(int(os.environ.get("VERIF_WATCHDOG") or (7200 if args.tier == "thorough" else 1500)))
        ctx = Ctx(prop, args.tier, seed)
        try:
            mod.main(ctx)
        except HarnessError:
            traceback.print_exc()
            return 2
        res = merge_results([ctx.result()])

    wall = time.time() - t0
    ev = write_evidence(mod, args.tier, seed, res, wall, dry=bool(os.environ.get("VERIF_NO_EVIDENCE")))
    findings = load_findings(prop)
    for f in findings:
        if f.get("status") == "open" and res["excluded"].get(f["id"], 0) > 0:
            print("KNOWN-FINDING: property=%s %s (cases excluded this run: %d)" % (prop, f["what"], res["excluded"][f["id"]]))
    for w in res["warnings"][:10]:
        print("warning: " + w)
    print(
        "%s %s seed=%d evaluations=%d distinct_nontrivial=%d violations=%d wall=%.1fs labels=%s"
        % (prop, args.tier, seed, ev["coverage"]["evaluations"], ev["coverage"]["distinct_nontrivial"],
           len(res["violations"]), wall, json.dumps(res["labels"], sort_keys=True))
    )
    return 1 if res["violations"] else 0


if __name__ == "__main__":
    try:
        rc = main()
    except SystemExit:
        raise
    except BaseException:
        traceback.print_exc()
        rc = 2
    sys.exit(rc)
