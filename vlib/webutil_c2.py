"""Helpers shared by the web-layer checks C07 / C25 / C28 / C24 (written for these checks only).

* ``read_response``   lenient-but-exact response reader: it is strict about what the properties are
  strict about (CRLF line structure, no bare CR / LF / NUL inside the header block, exact body
  framing, nothing after the body) and *lenient* about characters the statements are silent about
  (other control characters, non-token field names) so that those can be labelled instead of failed.
* ``split_set_cookie`` / ``cookie_unquote``  independent Set-Cookie reader (browser style: first
  ``;``-delimited pair is the cookie, the rest are attributes).
* ``run_request``      one request through ``httpharness.roundtrip`` + both readers.
"""
from __future__ import annotations

import re

from . import httpref
from .httpharness import roundtrip


class WireError(Exception):
    def __init__(self, kind, msg):
        self.kind = kind
        super().__init__("%s: %s" % (kind, msg))


class Resp:
    __slots__ = ("version", "code", "reason", "headers", "lines", "body", "framing", "rest", "block")

    def names(self):
        return [n for n, _ in self.headers]

    def get_all(self, lname):
        return [v for n, v in self.headers if n == lname]


_STATUS = re.compile(rb"HTTP/1\.[01] ([0-9]{3}) (.*)", re.S)


def read_response(wire: bytes, method: str, closed: bool) -> Resp:
    """Read exactly one response from `wire`.  Header names are returned lower-cased (bytes),
    values OWS-stripped (bytes).  Raises WireError(kind, ...) with kind in
    unterminated | bare_cr_lf | nul | status_line | no_colon | framing | trailing_bytes."""
    end = wire.find(b"\r\n\r\n")
    if end < 0:
        raise WireError("unterminated", "no CRLFCRLF in %r" % wire[:200])
    block = wire[:end]
    lines = block.split(b"\r\n")
    for ln in lines:
        if b"\r" in ln or b"\n" in ln:
            raise WireError("bare_cr_lf", repr(ln))
        if b"\0" in ln:
            raise WireError("nul", repr(ln))
    m = _STATUS.fullmatch(lines[0])
    if not m:
        raise WireError("status_line", repr(lines[0]))
    r = Resp()
    r.block = block
    r.version = lines[0][:8]
    r.code = int(m.group(1))
    r.reason = m.group(2)
    r.headers = []
    r.lines = lines[1:]  # raw header lines
    for ln in lines[1:]:
        if b":" not in ln:
            raise WireError("no_colon", repr(ln))
        n, _, v = ln.partition(b":")
        r.headers.append((n.lower(), v.strip(b" \t")))
    pos = end + 4
    cl = r.get_all(b"content-length")
    te = r.get_all(b"transfer-encoding")
    if method == "HEAD" or r.code in (204, 304) or 100 <= r.code < 200:
        r.body, r.framing = b"", "none"
    elif te:
        if cl or te != [b"chunked"]:
            raise WireError("framing", "TE=%r CL=%r" % (te, cl))
        body = bytearray()
        while True:
            eol = wire.find(b"\r\n", pos)
            if eol < 0 or not re.fullmatch(rb"[0-9a-fA-F]+", wire[pos:eol]):
                raise WireError("framing", "bad chunk size line at %d" % pos)
            n = int(wire[pos:eol], 16)
            pos = eol + 2
            if n == 0:
                if wire[pos:pos + 2] != b"\r\n":
                    raise WireError("framing", "last chunk not followed by CRLF")
                pos += 2
                break
            if wire[pos + n:pos + n + 2] != b"\r\n" or len(wire) < pos + n + 2:
                raise WireError("framing", "chunk data not followed by CRLF")
            body += wire[pos:pos + n]
            pos += n + 2
        r.body, r.framing = bytes(body), "chunked"
    elif cl:
        if len(set(cl)) != 1 or not re.fullmatch(rb"[0-9]+", cl[0]):
            raise WireError("framing", "Content-Length %r" % cl)
        n = int(cl[0])
        if len(wire) < pos + n:
            raise WireError("framing", "body shorter than Content-Length")
        r.body, r.framing = wire[pos:pos + n], "cl"
        pos += n
    else:
        if not closed:
            raise WireError("framing", "undelimited body on an open connection")
        r.body, r.framing = wire[pos:], "close"
        pos = len(wire)
    r.rest = wire[pos:]
    if r.rest:
        raise WireError("trailing_bytes", repr(r.rest[:200]))
    return r


IMF_FIXDATE = re.compile(
    r"(Mon|Tue|Wed|Thu|Fri|Sat|Sun), [0-9]{2} (Jan|Feb|Mar|Apr|May|Jun|Jul|Aug|Sep|Oct|Nov|Dec) [0-9]{4} "
    r"[0-9]{2}:[0-9]{2}:[0-9]{2} GMT"
)


class Outcome:
    """What one request produced.  kind: 'response' | 'hang' | 'dropped' | 'malformed'."""

    def __init__(self):
        self.kind = None
        self.wire = b""
        self.closed = False
        self.resp = None          # Resp (lenient reader)
        self.strict = None        # httpref.Response or None
        self.strict_error = None  # str (httpref.RefError) or None
        self.error = None         # WireError
        self.logs = None


def run_request(app, request: bytes, method: str = "GET", segments=None, server_kwargs=None) -> Outcome:
    wire, closed, logs, _ = roundtrip(app, request, segments=segments, server_kwargs=server_kwargs)
    o = Outcome()
    o.wire, o.closed, o.logs = wire, closed, logs
    if not wire:
        o.kind = "dropped" if closed else "hang"
        return o
    try:
        o.resp = read_response(wire, method, closed)
        o.kind = "response"
    except WireError as e:
        o.kind = "malformed"
        o.error = e
        return o
    try:
        rs = httpref.parse_responses(wire, [method], closed)
        if len(rs) != 1:
            o.strict_error = "strict reader saw %d responses" % len(rs)
        else:
            o.strict = rs[0]
    except httpref.RefError as e:
        o.strict_error = str(e)
    return o


def request_bytes(method: str, target: bytes | str, headers=(), body: bytes = b"", version="HTTP/1.1") -> bytes:
    if isinstance(target, str):
        target = target.encode("latin-1")
    out = [method.encode("ascii") + b" " + target + b" " + version.encode("ascii"), b"Host: test.example"]
    for n, v in headers:
        if isinstance(n, str):
            n = n.encode("latin-1")
        if isinstance(v, str):
            v = v.encode("latin-1")
        out.append(n + b": " + v)
    if body or method in ("POST", "PUT", "PATCH", "DELETE"):
        out.append(b"Content-Length: " + str(len(body)).encode())
    return b"\r\n".join(out) + b"\r\n\r\n" + body


# --------------------------------------------------------------------------- Set-Cookie reading
def split_set_cookie(value: str):
    """Browser-style split of one Set-Cookie field value -> (name, raw_value, [(attr, value|None), ...]).
    Attribute names are returned as written; values are not unquoted.  Returns None when the first
    pair has no '='."""
    parts = value.split(";")
    first = parts[0]
    if "=" not in first:
        return None
    name, _, raw = first.partition("=")
    attrs = []
    for p in parts[1:]:
        p = p.strip(" ")
        if "=" in p:
            k, _, v = p.partition("=")
            attrs.append((k.strip(" "), v.strip(" ")))
        else:
            attrs.append((p, None))
    return name.strip(" "), raw.strip(" "), attrs


def cookie_unquote(raw: str) -> str:
    """Inverse of the RFC 2109 quoted-string form used for cookie values (\\ooo octal, \\c)."""
    if len(raw) < 2 or raw[0] != '"' or raw[-1] != '"':
        return raw
    s = raw[1:-1]
    out = []
    i = 0
    while i < len(s):
        c = s[i]
        if c == "\\" and re.fullmatch(r"[0-3][0-7][0-7]", s[i + 1:i + 4]):
            out.append(chr(int(s[i + 1:i + 4], 8)))
            i += 4
        elif c == "\\" and i + 1 < len(s):
            out.append(s[i + 1])
            i += 2
        else:
            out.append(c)
            i += 1
    return "".join(out)


def is_token(s: str) -> bool:
    return bool(s) and all(c in "!#$%&'*+-.^_`|~0123456789abcdefghijklmnopqrstuvwxyzABCDEFGHIJKLMNOPQRSTUVWXYZ" for c in s)


def has_ctl(s: str) -> bool:
    return any(ord(c) < 0x20 or ord(c) == 0x7F for c in s)


def non_latin1(s: str) -> bool:
    return any(ord(c) > 0xFF for c in s)
