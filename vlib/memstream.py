"""In-memory transport owned by the harness.

``MemoryIOStream`` implements the documented BaseIOStream extension points (fileno, close_fd,
write_to_fd, read_from_fd, get_fd_error) over in-memory queues.  Its ``io_loop`` is a ``LoopProxy``
that forwards everything to the real IOLoop except add_handler/update_handler/remove_handler, which
it records - so the harness plays the kernel: it decides how many bytes become readable per read
call (segmentation), how many bytes a write may accept (partial sends), and where FIN / RST / an
ERROR event happens.  Readiness is level-triggered like epoll: ``pump()`` dispatches the registered
handler while the condition it waits for holds.
"""
from __future__ import annotations

import collections
import errno

from tornado.ioloop import IOLoop
from tornado.iostream import BaseIOStream

READ, WRITE, ERROR = IOLoop.READ, IOLoop.WRITE, IOLoop.ERROR


class LoopProxy:
    def __init__(self, real, stream):
        object.__setattr__(self, "_real", real)
        object.__setattr__(self, "_stream", stream)

    def add_handler(self, fd, handler, events):
        s = self._stream
        s.handler = handler
        s.events = events
        s.handler_log.append(("add", events))

    def update_handler(self, fd, events):
        s = self._stream
        s.events = events
        s.handler_log.append(("update", events))

    def remove_handler(self, fd):
        s = self._stream
        s.handler = None
        s.events = 0
        s.handler_log.append(("remove", 0))

    def __getattr__(self, name):
        return getattr(self._real, name)


class _FakeSocket:
    """Just enough of a socket for code that peeks at stream.socket (family, getpeername)."""

    def __init__(self, family, peer):
        self.family = family
        self._peer = peer

    def getpeername(self):
        return self._peer

    def getsockname(self):
        return ("127.0.0.1", 80)

    def setsockopt(self, *a):
        pass

    def fileno(self):
        return -1

    def close(self):
        pass


class MemoryIOStream(BaseIOStream):
    _next_fd = 100000

    def __init__(self, *args, family=None, peer=("127.0.0.1", 54321), **kwargs):
        super().__init__(*args, **kwargs)
        import socket as _socket

        MemoryIOStream._next_fd += 1
        self._fd = MemoryIOStream._next_fd
        self.io_loop = LoopProxy(self.io_loop, self)
        self.handler = None
        self.events = 0
        self.handler_log = []
        # inbound side: a queue of segments; each read_from_fd call returns at most one segment
        self.inbound = collections.deque()
        self.in_eof = False  # FIN after the queued segments
        self.in_error = None  # OSError raised by read_from_fd after the queued segments
        self.error_event = None  # exception reported by get_fd_error with an ERROR event
        self.error_pending = False  # set by post_error(): ERROR is delivered with the next dispatch
        # outbound side
        self.write_credit = None  # None = unlimited; else number of bytes write_to_fd may still accept
        self.max_write_chunk = None  # cap per write_to_fd call (partial sends)
        self.out_error = None  # OSError raised by write_to_fd
        self.wire = bytearray()  # every byte accepted by write_to_fd
        self.wire_log = []  # (step, nbytes) per accepted write
        self.step = 0
        self.fd_closed = 0
        self.socket = _FakeSocket(family if family is not None else _socket.AF_INET, peer)
        self.read_calls = 0

    # ---- BaseIOStream extension points
    def fileno(self):
        return self._fd

    def close_fd(self):
        self.fd_closed += 1

    def get_fd_error(self):
        return self.error_event

    def read_from_fd(self, buf):
        self.read_calls += 1
        if self.inbound:
            seg = self.inbound[0]
            n = min(len(seg), len(buf))
            buf[:n] = seg[:n]
            if n == len(seg):
                self.inbound.popleft()
            else:
                self.inbound[0] = seg[n:]
            return n
        if self.in_error is not None:
            e, self.in_error = self.in_error, None
            raise e
        if self.in_eof:
            return 0
        return None

    def write_to_fd(self, data):
        if self.out_error is not None:
            raise self.out_error
        n = len(data)
        if self.max_write_chunk is not None:
            n = min(n, self.max_write_chunk)
        if self.write_credit is not None:
            n = min(n, self.write_credit)
        if n == 0:
            raise BlockingIOError(errno.EWOULDBLOCK, "no credit")
        if self.write_credit is not None:
            self.write_credit -= n
        self.wire += data[:n]
        self.wire_log.append((self.step, n))
        return n

    # ---- harness side
    def feed(self, data, segments=None):
        """Queue inbound bytes.  `segments` = list of sizes; each becomes one read_from_fd result."""
        data = bytes(data)
        if not segments:
            if data:
                self.inbound.append(data)
            return
        pos = 0
        for s in segments:
            if pos >= len(data):
                break
            if s <= 0:
                continue
            self.inbound.append(data[pos : pos + s])
            pos += s
        if pos < len(data):
            self.inbound.append(data[pos:])

    def feed_eof(self):
        self.in_eof = True

    def feed_reset(self, err=errno.ECONNRESET):
        self.in_error = OSError(err, "injected")

    def readable(self):
        return bool(self.inbound) or self.in_eof or self.in_error is not None

    def writable(self):
        return self.out_error is not None or self.write_credit is None or self.write_credit > 0

    def pump_once(self):
        """Dispatch one readiness event if the registered interest is satisfiable. -> bool"""
        if self.handler is None or self.closed():
            return False
        ev = 0
        if self.events & READ and self.readable():
            ev |= READ
        if self.events & WRITE and self.writable():
            ev |= WRITE
        if self.error_pending:
            # an error condition on the fd is reported with whatever the stream polls for
            self.error_pending = False
            ev |= ERROR
        if ev:
            self.step += 1
            self.handler(self._fd, ev)
            return True
        return False

    def fire_error(self, exc=None):
        """Report an ERROR readiness event (get_fd_error returns exc)."""
        self.error_event = exc
        if self.handler is not None and not self.closed():
            self.step += 1
            self.handler(self._fd, ERROR)
            return True
        return False

    def post_error(self, exc=None):
        """Like fire_error, but the ERROR event is delivered by the next pump_once() (level-triggered:
        it waits until the stream has a handler registered)."""
        self.error_event = exc
        self.error_pending = True

    def take_wire(self):
        b = bytes(self.wire)
        del self.wire[:]
        return b


class Wire:
    """Two MemoryIOStreams coupled back to back: what one writes the harness moves to the other."""

    def __init__(self, a: MemoryIOStream, b: MemoryIOStream):
        self.a, self.b = a, b
        self.a_to_b = bytearray()
        self.b_to_a = bytearray()
        self.log_a = bytearray()  # everything a ever sent
        self.log_b = bytearray()

    def collect(self):
        moved = False
        if self.a.wire:
            w = self.a.take_wire()
            self.a_to_b += w
            self.log_a += w
            moved = True
        if self.b.wire:
            w = self.b.take_wire()
            self.b_to_a += w
            self.log_b += w
            moved = True
        return moved

    def deliver(self, to_b=True, n=None):
        """Move up to n in-flight bytes (all if None) to the receiving stream as one segment."""
        self.collect()
        buf = self.a_to_b if to_b else self.b_to_a
        dst = self.b if to_b else self.a
        if not buf:
            return 0
        k = len(buf) if n is None else min(n, len(buf))
        if k <= 0:
            return 0
        dst.feed(bytes(buf[:k]))
        del buf[:k]
        return k

    def pump(self, auto=True):
        did = self.collect()
        if auto:
            if self.a_to_b and not self.b.closed():
                self.deliver(True)
                did = True
            if self.b_to_a and not self.a.closed():
                self.deliver(False)
                did = True
            # propagate orderly close as FIN
            if self.a.closed() and not self.b.in_eof and not self.a_to_b:
                self.b.feed_eof()
                did = True
            if self.b.closed() and not self.a.in_eof and not self.b_to_a:
                self.a.feed_eof()
                did = True
        did = self.a.pump_once() or did
        did = self.b.pump_once() or did
        return did
