"""tmplref -- an independent reference implementation of Tornado's template language.

Written from the documentation (module docstring of tornado/template.py "Syntax Reference",
docs/guide/templates.rst, the docstrings of Template/BaseLoader/filter_whitespace), *not* from the
compiler: the real engine translates a template into the source of one Python function and exec()s it;
this module tokenizes the text, builds a tree and walks it.  Expressions and the statement bodies of
``set`` / ``import`` / ``from`` are evaluated with eval()/exec() in the namespace the documentation
lists (escape, xhtml_escape, url_escape, json_encode, squeeze, linkify, datetime + loader namespace +
keyword arguments); control flow (if/elif/else, for/else, while/else, try/except/else/finally,
break/continue), apply, blocks, extends, include, autoescape and whitespace are implemented natively.

What the documentation leaves open is not guessed: the parser/interpreter raises ``RefEither(label)``
(or records a label in ``RefLoader.either``) and the caller asserts universal safety only.  Those
classes are:

  brace_before_block   a run of >= 2 '{' directly followed by '%' or '#'  ("{{%": expression or '{' + block?)
  ws_unicode           whitespace other than SP/HTAB/LF in text filtered with mode single/oneline
  ws_pre               text containing "<pre>" under mode single/oneline (undocumented heuristic)
  intermediate_order   else/elif/except/finally in an order Python's grammar rejects (duplicate else, try
                       without except/finally ...): the documentation promises "same as the python
                       statement", i.e. some error, but not which
  multi_autoescape     more than one {% autoescape %} directive in a file
  multi_extends / nested_extends / include_extends   extends anywhere but once at the top level of a file
  module               {% module %} (needs a RequestHandler)
  jump_in_loop_else / jump_lands_outside_loop   break/continue that Python attaches to another loop than the
                       template's own file suggests (loop else clause; block body moved out of its loop)
  apply_eval_order     the apply function expression raises and the body raises something else

Name resolution follows "the template is one Python function": a name assigned anywhere in the
function (set / for target / import / except-as) is local to it, an {% apply %} body is a nested
function whose own assignments are local to it and which can read (not rebind) the enclosing locals.

Every emitted piece of output is recorded as a ``Slice`` naming the tag and the file that produced it
and the escaping function that governed it (C20 needs that).
"""
from __future__ import annotations

import ast
import datetime
import posixpath
import unicodedata

from tornado import escape as _escape  # the documented namespace functions themselves (checked by C21)


class RefParseError(Exception):
    """The template is not well-formed.  kind names the rule, lineno the line of the offending tag;
    for kind == 'missing_end' lineno is the last line and opener_line the line of the unclosed tag."""

    def __init__(self, kind, filename, lineno, opener_line=None, msg=""):
        super().__init__("%s at %s:%s %s" % (kind, filename, lineno, msg))
        self.kind = kind
        self.filename = filename
        self.lineno = lineno
        self.opener_line = opener_line


class RefEither(Exception):
    """The documentation does not define this input (see module docstring)."""

    def __init__(self, label, detail=""):
        super().__init__("%s %s" % (label, detail))
        self.label = label


# ------------------------------------------------------------------------------------------- tokens
class Tok:
    __slots__ = ("kind", "text", "start", "end", "line", "index")

    def __init__(self, kind, text, start, end, line):
        self.kind = kind  # 'text' | 'esc' | 'expr' | 'tag' | 'comment'
        self.text = text  # literal text / the two escaped characters / tag contents (stripped)
        self.start = start
        self.end = end
        self.line = line
        self.index = -1

    def __repr__(self):
        return "Tok(%s,%r,line=%d)" % (self.kind, self.text, self.line)


_CLOSER = {"{{": "}}", "{%": "%}", "{#": "#}"}
_UNTERMINATED = {"{{": "unterminated_expr", "{%": "unterminated_block", "{#": "unterminated_comment"}


def tokenize(filename, text):
    """Split template text into literal text, escapes ({{! {%! {#!), comments, expression tags and
    block tags.  Documentation rules: '{{ ... }}' expression, '{% ... %}' directive, '{# ... #}' comment,
    '{{!' '{%!' '{#!' literal openers; of a run of more than two '{' the innermost two open the tag
    (the others are literal text)."""
    toks = []
    n = len(text)
    pos = 0  # start of pending literal text
    i = 0

    def line_at(p):
        return 1 + text.count("\n", 0, p)

    def flush(upto):
        if upto > pos:
            toks.append(Tok("text", text[pos:upto], pos, upto, line_at(pos)))

    while True:
        j = text.find("{", i)
        if j < 0:
            break
        k = j
        while k < n and text[k] == "{":
            k += 1
        run = k - j
        nxt = text[k] if k < n else ""
        if run >= 2:
            if nxt in ("%", "#"):
                raise RefEither("brace_before_block", "%s offset %d" % (filename, j))
            open_at = k - 2
            opener = "{{"
        elif nxt in ("%", "#"):
            open_at = j
            opener = "{" + nxt
        else:
            i = k
            continue
        body_at = open_at + 2
        if body_at < n and text[body_at] == "!":
            flush(open_at)
            toks.append(Tok("esc", opener, open_at, body_at + 1, line_at(open_at)))
            pos = i = body_at + 1
            continue
        close = text.find(_CLOSER[opener], body_at)
        if close < 0:
            raise RefParseError(_UNTERMINATED[opener], filename, line_at(open_at))
        flush(open_at)
        kind = {"{{": "expr", "{%": "tag", "{#": "comment"}[opener]
        toks.append(Tok(kind, text[body_at:close].strip(), open_at, close + 2, line_at(open_at)))
        pos = i = close + 2
    flush(n)
    for idx, t in enumerate(toks):
        t.index = idx
    return toks


# -------------------------------------------------------------------------------------------- nodes
class Node:
    kind = "node"

    def __init__(self, file, tok):
        self.file = file
        self.line = tok.line if tok is not None else 0
        self.tok_index = tok.index if tok is not None else -1

    @property
    def tag_id(self):
        return (self.file.name, self.tok_index)


class Text(Node):
    kind = "text"

    def __init__(self, file, tok, value, mode):
        super().__init__(file, tok)
        self.value = value
        self.mode = mode


class Expr(Node):
    kind = "expr"

    def __init__(self, file, tok, src, raw):
        super().__init__(file, tok)
        self.src = src
        self.raw = raw


class Stmt(Node):
    kind = "stmt"

    def __init__(self, file, tok, src):
        super().__init__(file, tok)
        self.src = src


class If(Node):
    kind = "if"

    def __init__(self, file, tok):
        super().__init__(file, tok)
        self.branches = []  # [(cond_src, body)]
        self.orelse = None


class Loop(Node):
    kind = "loop"

    def __init__(self, file, tok, which):
        super().__init__(file, tok)
        self.which = which  # 'for' | 'while'
        self.target = None
        self.iter = None
        self.cond = None
        self.body = []
        self.orelse = None


class Try(Node):
    kind = "try"

    def __init__(self, file, tok):
        super().__init__(file, tok)
        self.body = []
        self.handlers = []  # [(type_src|None, name|None, body)]
        self.orelse = None
        self.final = None


class Apply(Node):
    kind = "apply"

    def __init__(self, file, tok, fn):
        super().__init__(file, tok)
        self.fn = fn
        self.body = []


class Block(Node):
    kind = "block"

    def __init__(self, file, tok, name):
        super().__init__(file, tok)
        self.name = name
        self.body = []


class Include(Node):
    kind = "include"

    def __init__(self, file, tok, name):
        super().__init__(file, tok)
        self.name = name


class Extends(Node):
    kind = "extends"

    def __init__(self, file, tok, name):
        super().__init__(file, tok)
        self.name = name


class Jump(Node):
    kind = "jump"

    def __init__(self, file, tok, which):
        super().__init__(file, tok)
        self.which = which


class File:
    def __init__(self, name, text, autoescape, whitespace):
        self.name = name
        self.text = text
        self.autoescape = autoescape  # name of the escaping function or None
        self.initial_whitespace = whitespace
        self.body = []
        self.tokens = []
        self.extends = None  # Extends node at top level
        self.n_autoescape = 0
        self.nested_extends = False


_INTERMEDIATE = {
    "else": ("if", "for", "while", "try"),
    "elif": ("if",),
    "except": ("try",),
    "finally": ("try",),
}
_OPENERS = ("if", "for", "while", "try", "apply", "block")
_WS_MODES = ("all", "single", "oneline")


def _unquote(s):
    s = s.strip()
    for q in ('"', "'"):
        if len(s) >= 2 and s[0] == q and s[-1] == q:
            return s[1:-1].strip()
    if s in ('"', "'", '""', "''"):
        return ""
    return s


class _Parser:
    def __init__(self, file):
        self.file = file
        self.toks = file.tokens
        self.i = 0
        self.mode = file.initial_whitespace
        self.last_line = 1 + file.text.count("\n")

    def err(self, kind, tok, **kw):
        raise RefParseError(kind, self.file.name, tok.line, **kw)

    def parse_file(self):
        items = self.parse_items(None, None, False, top=True)
        self.file.body = items

    def parse_items(self, opener_tok, in_block, in_loop, top=False):
        """Parse until the matching end; returns a flat item list in which intermediate tags appear
        as ('inter', op, suffix, tok) tuples (structured by the caller)."""
        f = self.file
        out = []
        while True:
            if self.i >= len(self.toks):
                if in_block is not None:
                    raise RefParseError("missing_end", f.name, self.last_line, opener_line=opener_tok.line)
                return out
            t = self.toks[self.i]
            self.i += 1
            if t.kind == "text":
                out.append(Text(f, t, t.text, self.mode))
            elif t.kind == "esc":
                out.append(Text(f, t, t.text, self.mode))
            elif t.kind == "comment":
                pass
            elif t.kind == "expr":
                if not t.text:
                    self.err("empty_expr", t)
                out.append(Expr(f, t, t.text, False))
            else:
                if not t.text:
                    self.err("empty_block", t)
                op, _, suffix = t.text.partition(" ")
                suffix = suffix.strip()
                if op in _INTERMEDIATE:
                    if in_block is None:
                        self.err("intermediate_outside", t)
                    if in_block not in _INTERMEDIATE[op]:
                        self.err("intermediate_wrong_parent", t)
                    out.append(("inter", op, suffix, t))
                elif op == "end":
                    if in_block is None:
                        self.err("extra_end", t)
                    return out
                elif op == "comment":
                    pass
                elif op == "extends":
                    name = _unquote(suffix)
                    if not name:
                        self.err("extends_no_name", t)
                    node = Extends(f, t, name)
                    if top and in_block is None:
                        if f.extends is not None:
                            f.multi_extends = True
                        f.extends = node
                    else:
                        f.nested_extends = True
                    out.append(node)
                elif op == "include":
                    name = _unquote(suffix)
                    if not name:
                        self.err("include_no_name", t)
                    out.append(Include(f, t, name))
                elif op in ("import", "from"):
                    if not suffix:
                        self.err("import_no_statement", t)
                    out.append(Stmt(f, t, t.text))
                elif op == "set":
                    if not suffix:
                        self.err("set_no_statement", t)
                    out.append(Stmt(f, t, suffix))
                elif op == "autoescape":
                    if not suffix:
                        self.err("autoescape_no_function", t)
                    f.autoescape = None if suffix == "None" else suffix
                    f.n_autoescape += 1
                elif op == "whitespace":
                    if suffix not in _WS_MODES:
                        self.err("bad_whitespace_mode", t)
                    self.mode = suffix
                elif op == "raw":
                    if not suffix:
                        self.err("raw_no_expression", t)
                    out.append(Expr(f, t, suffix, True))
                elif op == "module":
                    raise RefEither("module")
                elif op in _OPENERS:
                    out.append(self.parse_compound(op, suffix, t, in_loop))
                elif op in ("break", "continue"):
                    if not in_loop:
                        self.err("jump_outside_loop", t)
                    out.append(Jump(f, t, op))
                else:
                    self.err("unknown_operator", t)

    def parse_compound(self, op, suffix, t, in_loop):
        f = self.file
        if op in ("apply", "block") and not suffix:
            # the offending tag is the opener itself
            self.err(op + "_no_name", t)
        if op in ("for", "while"):
            inner_loop = True
        elif op == "apply":
            inner_loop = False  # a nested function: break/continue cannot reach an outer loop
        else:
            inner_loop = in_loop
        items = self.parse_items(t, op, inner_loop)
        sections = [[("head", op, suffix, t), []]]
        for it in items:
            if isinstance(it, tuple):
                sections.append([it, []])
            else:
                sections[-1][1].append(it)
        if op == "apply":
            node = Apply(f, t, suffix)
            node.body = sections[0][1]
            return node
        if op == "block":
            node = Block(f, t, suffix)
            node.body = sections[0][1]
            return node
        order_err = RefEither("intermediate_order", "%s:%d" % (f.name, t.line))
        if op == "if":
            node = If(f, t)
            node.branches.append((suffix, sections[0][1]))
            for (_, iop, isuf, itok), body in sections[1:]:
                if node.orelse is not None:
                    raise order_err
                if iop == "elif":
                    node.branches.append((isuf, body))
                elif iop == "else" and not isuf:
                    node.orelse = body
                else:
                    raise order_err
            return node
        if op in ("for", "while"):
            node = Loop(f, t, op)
            node.body = sections[0][1]
            if op == "for":
                node.target, node.iter = _split_for(suffix)
            else:
                node.cond = suffix
            if len(sections) > 2:
                raise order_err
            if len(sections) == 2:
                (_, iop, isuf, itok), body = sections[1]
                if iop != "else" or isuf:
                    raise order_err
                node.orelse = body
                if _has_free_jump(body):
                    # Python attaches a break/continue in a loop's else clause to the *enclosing* loop
                    raise RefEither("jump_in_loop_else", "%s:%d" % (f.name, t.line))
            return node
        # try
        node = Try(f, t)
        if suffix:
            raise order_err
        node.body = sections[0][1]
        stage = 0  # 0 excepts, 1 else seen, 2 finally seen
        for (_, iop, isuf, itok), body in sections[1:]:
            if iop == "except" and stage == 0:
                if node.handlers and node.handlers[-1][0] is None:
                    raise order_err  # bare except must be last
                typ, name = _split_except(isuf)
                node.handlers.append((typ, name, body))
            elif iop == "else" and stage == 0 and node.handlers and not isuf:
                node.orelse = body
                stage = 1
            elif iop == "finally" and stage < 2 and not isuf:
                node.final = body
                stage = 2
            else:
                raise order_err
        if not node.handlers and node.final is None:
            raise order_err
        return node


def _has_free_jump(items):
    for it in items:
        if isinstance(it, Jump):
            return True
        if isinstance(it, If):
            if any(_has_free_jump(b) for _, b in it.branches) or (it.orelse and _has_free_jump(it.orelse)):
                return True
        elif isinstance(it, Try):
            parts = [it.body] + [b for _, _, b in it.handlers] + [it.orelse or [], it.final or []]
            if any(_has_free_jump(p) for p in parts):
                return True
        elif isinstance(it, Block):
            if _has_free_jump(it.body):
                return True
        elif isinstance(it, Loop):
            if it.orelse and _has_free_jump(it.orelse):
                return True
    return False


def _split_for(suffix):
    """'a, b in expr' -> ('a, b', 'expr'): the first ' in ' at which both sides satisfy Python's grammar
    for a for statement (SyntaxError propagates: "random Python errors")."""
    idx = -1
    while True:
        idx = suffix.find(" in ", idx + 1)
        if idx < 0:
            ast.parse("for %s:\n pass" % suffix)  # raises SyntaxError for malformed heads
            raise SyntaxError("cannot split for head %r" % suffix)
        a, b = suffix[:idx].strip(), suffix[idx + 4:].strip()
        try:
            ast.parse("for %s in (%s):\n pass" % (a, b))
            ast.parse("(%s)" % b, mode="eval")
        except SyntaxError:
            continue
        return a, b


def _split_except(suffix):
    if not suffix:
        return None, None
    src = "try:\n pass\nexcept %s:\n pass" % suffix
    tree = ast.parse(src)
    h = tree.body[0].handlers[0]
    if h.name is None:
        return suffix, None
    typ = suffix[: suffix.rfind(" as ")].strip()
    return typ, h.name


# ------------------------------------------------------------------------------------ whitespace
_SIMPLE_WS = " \t\n"


def _is_space(c):
    return c.isspace() or c in "\x1c\x1d\x1e\x1f\x85" or unicodedata.category(c) == "Zs"


def filter_ws(mode, text, either=None):
    """filter_whitespace from its docstring: 'single' collapses each run of whitespace to one whitespace
    character, a newline if the run contained one ('preserving newlines') else a space; 'oneline'
    collapses each run to one space."""
    if mode == "all":
        return text
    if either is not None:
        if "<pre>" in text:
            either.add("ws_pre")
        if any(c not in _SIMPLE_WS and _is_space(c) for c in text):
            either.add("ws_unicode")
    out = []
    i = 0
    n = len(text)
    while i < n:
        c = text[i]
        if c in _SIMPLE_WS:
            j = i
            while j < n and text[j] in _SIMPLE_WS:
                j += 1
            run = text[i:j]
            if mode == "single":
                out.append("\n" if "\n" in run else " ")
            else:
                out.append(" ")
            i = j
        else:
            out.append(c)
            i += 1
    return "".join(out)


# ---------------------------------------------------------------------------------------- scopes
class _Layer:
    __slots__ = ("values", "assigned")

    def __init__(self, assigned):
        self.values = {}
        self.assigned = assigned


class Scope:
    """locals mapping for eval/exec that follows function-local name resolution: layers[-1] is the
    innermost function (an apply body), layers[0] the template function."""

    def __init__(self):
        self.layers = []
        self.hidden = {}

    def __getitem__(self, name):
        if name in self.hidden:
            return self.hidden[name]
        for layer in reversed(self.layers):
            if name in layer.values:
                return layer.values[name]
            if name in layer.assigned:
                raise UnboundLocalError("local variable %r referenced before assignment" % name)
        raise KeyError(name)

    def __setitem__(self, name, value):
        self.layers[-1].values[name] = value

    def __delitem__(self, name):
        try:
            del self.layers[-1].values[name]
        except KeyError:
            raise UnboundLocalError(name)

    def __contains__(self, name):
        try:
            self[name]
            return True
        except (KeyError, NameError):
            return False

    def keys(self):
        ks = []
        for layer in self.layers:
            ks.extend(layer.values)
        return ks

    def __iter__(self):
        return iter(self.keys())

    def __len__(self):
        return len(self.keys())


def _stored_names(stmt_src):
    """Names a statement binds (Store context outside nested scopes)."""
    names = set()
    try:
        tree = ast.parse(stmt_src)
    except SyntaxError:
        return names

    def walk(n):
        if isinstance(n, (ast.Lambda, ast.FunctionDef, ast.ListComp, ast.SetComp, ast.DictComp, ast.GeneratorExp)):
            return
        if isinstance(n, ast.Name) and isinstance(n.ctx, (ast.Store, ast.Del)):
            names.add(n.id)
        if isinstance(n, ast.alias):
            names.add((n.asname or n.name).split(".")[0])
        if isinstance(n, ast.ExceptHandler) and n.name:
            names.add(n.name)
        for c in ast.iter_child_nodes(n):
            walk(c)

    walk(tree)
    return names


class _Break(BaseException):
    pass


class _Continue(BaseException):
    pass


class Slice:
    """One piece of output.  kind: text | expr | raw | apply.  data = the bytes emitted; for expr/raw
    `plain` = the value converted to bytes before escaping and `escaper` the governing function name
    (None = not escaped); for apply `children` = the slices produced inside (before the function)."""

    __slots__ = ("kind", "file", "line", "tag_id", "data", "plain", "escaper", "children", "via", "src")

    def __init__(self, kind, node, data, plain=None, escaper=None, children=None, via=(), src=None):
        self.kind = kind
        self.file = node.file.name
        self.line = node.line
        self.tag_id = node.tag_id
        self.data = data
        self.plain = plain
        self.escaper = escaper
        self.children = children
        self.via = via  # tuple of ('include'|'block'|'apply', file) contexts, outermost first
        self.src = src

    def __repr__(self):
        return "Slice(%s,%s:%d,%r)" % (self.kind, self.file, self.line, self.data)


def utf8(v):
    if isinstance(v, bytes):
        return v
    if isinstance(v, str):
        return v.encode("utf-8")
    raise TypeError("expected str or bytes, got %r" % type(v))


# ---------------------------------------------------------------------------------------- loader
class RefLoader:
    """Counterpart of tornado.template.DictLoader."""

    def __init__(self, files, autoescape="xhtml_escape", namespace=None, whitespace=None, file_autoescape=None):
        """file_autoescape: {name: function name | None} -- templates constructed with an explicit
        Template(..., autoescape=...) argument (the template's own setting; the loader's is only the default)."""
        self.files = dict(files)
        self.autoescape = autoescape
        self.file_autoescape = dict(file_autoescape or {})
        self.namespace = dict(namespace or {})
        self.whitespace = whitespace
        self.cache = {}
        self.either = set()

    # -- names
    @staticmethod
    def resolve(name, parent):
        if parent and not parent.startswith("<") and not parent.startswith("/") and not name.startswith("/"):
            name = posixpath.normpath(posixpath.join(posixpath.dirname(parent), name))
        return name

    def load(self, name, parent=None):
        name = self.resolve(name, parent)
        if name in self.cache:
            return self.cache[name]
        text = self.files[name]
        if isinstance(text, bytes):
            text = text.decode("utf-8")
        if self.whitespace is not None:
            mode = self.whitespace
        elif name.endswith(".html") or name.endswith(".js"):
            mode = "single"
        else:
            mode = "all"
        f = File(name, text, self.file_autoescape.get(name, self.autoescape), mode)
        f.tokens = tokenize(name, text)
        _Parser(f).parse_file()
        self.cache[name] = f
        return f

    # -- inheritance
    def _chain(self, f):
        chain = [f]
        seen = {f.name}
        while chain[-1].extends is not None:
            cur = chain[-1]
            if getattr(cur, "multi_extends", False):
                raise RefEither("multi_extends")
            parent = self.load(cur.extends.name, cur.name)
            if parent.name in seen:
                raise RefEither("extends_cycle")
            seen.add(parent.name)
            chain.append(parent)
        return chain

    def _collect_blocks(self, items, table, stack):
        for it in items:
            if isinstance(it, Block):
                table[it.name] = it
                self._collect_blocks(it.body, table, stack)
            elif isinstance(it, Include):
                inc = self.load(it.name, it.file.name)
                if inc.name in stack:
                    raise RefEither("include_cycle")
                self._collect_blocks(inc.body, table, stack + (inc.name,))
            elif isinstance(it, If):
                for _, b in it.branches:
                    self._collect_blocks(b, table, stack)
                if it.orelse:
                    self._collect_blocks(it.orelse, table, stack)
            elif isinstance(it, Loop):
                self._collect_blocks(it.body, table, stack)
                if it.orelse:
                    self._collect_blocks(it.orelse, table, stack)
            elif isinstance(it, Try):
                self._collect_blocks(it.body, table, stack)
                for _, _, b in it.handlers:
                    self._collect_blocks(b, table, stack)
                if it.orelse:
                    self._collect_blocks(it.orelse, table, stack)
                if it.final:
                    self._collect_blocks(it.final, table, stack)
            elif isinstance(it, Apply):
                self._collect_blocks(it.body, table, stack)

    def prepare(self, name):
        """Load `name` and everything it references; returns (root_file, block_table).  Raises
        RefParseError / RefEither exactly when loading the template is (un)defined that way."""
        f = self.load(name)
        chain = self._chain(f)
        table = {}
        for anc in reversed(chain):
            self._collect_blocks(anc.body, table, (anc.name,))
        for g in self.cache.values():
            if g.nested_extends:
                raise RefEither("nested_extends")
            if g.n_autoescape > 1:
                raise RefEither("multi_autoescape")
        self._check_jumps(chain[-1].body, False, table, ())
        # every file that gets loaded (ancestors, included files) is a template of its own as well and is
        # compiled as such: the same question arises for each of them as an entry point
        for g in list(self.cache.values()):
            if g is f:
                continue
            gchain = self._chain(g)
            gtable = {}
            for anc in reversed(gchain):
                self._collect_blocks(anc.body, gtable, (anc.name,))
            self._check_jumps(gchain[-1].body, False, gtable, ())
        return chain[-1], table

    def _check_jumps(self, items, in_loop, table, stack):
        """A break/continue is checked against the loops of its own file; through block replacement it
        can land outside any loop of the function actually built (Python: 'break outside loop')."""
        for it in items:
            if isinstance(it, Jump):
                if not in_loop:
                    raise RefEither("jump_lands_outside_loop", "%s:%d" % (it.file.name, it.line))
            elif isinstance(it, If):
                for _, b in it.branches:
                    self._check_jumps(b, in_loop, table, stack)
                if it.orelse:
                    self._check_jumps(it.orelse, in_loop, table, stack)
            elif isinstance(it, Loop):
                self._check_jumps(it.body, True, table, stack)
                if it.orelse:
                    self._check_jumps(it.orelse, False, table, stack)
            elif isinstance(it, Try):
                for part in [it.body] + [b for _, _, b in it.handlers] + [it.orelse or [], it.final or []]:
                    self._check_jumps(part, in_loop, table, stack)
            elif isinstance(it, Apply):
                self._check_jumps(it.body, False, table, stack)
            elif isinstance(it, Block):
                blk = table[it.name]
                key = ("b", blk.file.name, blk.tok_index)
                if key not in stack:
                    self._check_jumps(blk.body, in_loop, table, stack + (key,))
            elif isinstance(it, Include):
                inc = self.load(it.name, it.file.name)
                key = ("i", inc.name)
                if key not in stack:
                    self._check_jumps(inc.body, in_loop, table, stack + (key,))

    # -- rendering
    def render_slices(self, name, **kwargs):
        root, table = self.prepare(name)
        interp = _Interp(self, table, kwargs)
        return interp.run(root)

    def render(self, name, **kwargs):
        return b"".join(s.data for s in self.render_slices(name, **kwargs))


class _Interp:
    def __init__(self, loader, table, kwargs):
        self.loader = loader
        self.table = table
        g = {
            "escape": _escape.xhtml_escape,
            "xhtml_escape": _escape.xhtml_escape,
            "url_escape": _escape.url_escape,
            "json_encode": _escape.json_encode,
            "squeeze": _escape.squeeze,
            "linkify": _escape.linkify,
            "datetime": datetime,
        }
        g.update(loader.namespace)
        g.update(kwargs)
        self.g = g
        self.scope = Scope()
        self.out = []
        self.via = ()
        self.include_depth = 0
        self._assigned_cache = {}

    # static: names assigned in the function whose body is `items` (apply bodies excluded)
    def assigned(self, items, acc, stack=()):
        for it in items:
            if isinstance(it, Stmt):
                acc |= _stored_names(it.src)
            elif isinstance(it, If):
                for _, b in it.branches:
                    self.assigned(b, acc, stack)
                if it.orelse:
                    self.assigned(it.orelse, acc, stack)
            elif isinstance(it, Loop):
                if it.which == "for":
                    acc |= _stored_names("for %s in x:\n pass" % it.target)
                self.assigned(it.body, acc, stack)
                if it.orelse:
                    self.assigned(it.orelse, acc, stack)
            elif isinstance(it, Try):
                self.assigned(it.body, acc, stack)
                for _, nm, b in it.handlers:
                    if nm:
                        acc.add(nm)
                    self.assigned(b, acc, stack)
                if it.orelse:
                    self.assigned(it.orelse, acc, stack)
                if it.final:
                    self.assigned(it.final, acc, stack)
            elif isinstance(it, Block):
                blk = self.table[it.name]
                key = ("b", blk.file.name, blk.tok_index)
                if key not in stack:
                    self.assigned(blk.body, acc, stack + (key,))
            elif isinstance(it, Include):
                inc = self.loader.load(it.name, it.file.name)
                key = ("i", inc.name)
                if key not in stack:
                    self.assigned(inc.body, acc, stack + (key,))
        return acc

    def run(self, root):
        self.scope.layers.append(_Layer(self.assigned(root.body, set())))
        self.cur = root
        self.exec_items(root.body)
        return self.out

    def ev(self, src):
        return eval(src, self.g, self.scope)

    def emit(self, sl):
        self.out.append(sl)

    def exec_items(self, items):
        for it in items:
            self.exec_node(it)

    def exec_node(self, it):
        k = it.kind
        if k == "text":
            value = filter_ws(it.mode, it.value, self.loader.either)
            if value:
                self.emit(Slice("text", it, value.encode("utf-8"), via=self.via))
        elif k == "expr":
            v = self.ev(it.src)
            plain = utf8(v) if isinstance(v, (str, bytes)) else utf8(str(v))
            esc = None if it.raw else self.cur.autoescape
            data = plain
            if esc is not None:
                fn = self.ev(esc)
                data = utf8(fn(plain.decode("utf-8")))
            self.emit(Slice("raw" if it.raw else "expr", it, data, plain=plain, escaper=esc, via=self.via, src=it.src))
        elif k == "stmt":
            exec(it.src, self.g, self.scope)
        elif k == "if":
            for cond, body in it.branches:
                if self.ev(cond):
                    self.exec_items(body)
                    break
            else:
                if it.orelse is not None:
                    self.exec_items(it.orelse)
        elif k == "loop":
            self.exec_loop(it)
        elif k == "try":
            self.exec_try(it)
        elif k == "apply":
            self.exec_apply(it)
        elif k == "block":
            blk = self.table[it.name]
            saved = (self.cur, self.via)
            self.cur = blk.file
            self.via = self.via + (("block", blk.file.name),)
            try:
                self.exec_items(blk.body)
            finally:
                self.cur, self.via = saved
        elif k == "include":
            inc = self.loader.load(it.name, it.file.name)
            if inc.extends is not None:
                raise RefEither("include_extends")
            saved = (self.cur, self.via)
            self.cur = inc
            self.via = self.via + (("include", inc.name),)
            self.include_depth += 1
            if self.include_depth > 20:
                raise RefEither("include_cycle")
            try:
                self.exec_items(inc.body)
            finally:
                self.include_depth -= 1
                self.cur, self.via = saved
        elif k == "jump":
            raise _Break() if it.which == "break" else _Continue()
        elif k == "extends":
            pass
        else:  # pragma: no cover
            raise AssertionError(k)

    def exec_loop(self, it):
        broke = False
        if it.which == "for":
            iterator = iter(self.ev(it.iter))
            while True:
                try:
                    item = next(iterator)
                except StopIteration:
                    break
                self.scope.hidden["_ref_item"] = item
                try:
                    exec("%s = _ref_item" % it.target, self.g, self.scope)
                finally:
                    del self.scope.hidden["_ref_item"]
                try:
                    self.exec_items(it.body)
                except _Break:
                    broke = True
                    break
                except _Continue:
                    continue
        else:
            while self.ev(it.cond):
                try:
                    self.exec_items(it.body)
                except _Break:
                    broke = True
                    break
                except _Continue:
                    continue
        if not broke and it.orelse is not None:
            self.exec_items(it.orelse)

    def exec_try(self, it):
        try:
            try:
                self.exec_items(it.body)
            except (_Break, _Continue):
                raise
            except BaseException as e:
                if isinstance(e, (KeyboardInterrupt, SystemExit, RefEither, MemoryError, RecursionError)):
                    raise
                for typ, name, body in it.handlers:
                    if typ is None or isinstance(e, self.ev(typ)):
                        if name:
                            self.scope[name] = e
                        try:
                            self.exec_items(body)
                        finally:
                            if name:
                                self.scope.layers[-1].values.pop(name, None)
                        break
                else:
                    raise
            else:
                if it.orelse is not None:
                    self.exec_items(it.orelse)
        finally:
            if it.final is not None:
                self.exec_items(it.final)

    def exec_apply(self, it):
        # "Applies a function to the output of all template code between apply and end": f(body()).
        # The function expression is evaluated first, as in a Python call; when it raises *and* the body
        # would raise something else, which of the two surfaces is not documented.
        try:
            fn = self.ev(it.fn)
            fn_exc = None
        except Exception as e:
            fn_exc = e
        outer_out = self.out
        self.out = []
        key = id(it)
        if key not in self._assigned_cache:
            self._assigned_cache[key] = self.assigned(it.body, set())
        self.scope.layers.append(_Layer(self._assigned_cache[key]))
        saved_via = self.via
        self.via = self.via + (("apply", it.file.name),)
        try:
            self.exec_items(it.body)
            inner = self.out
        except (_Break, _Continue, RefEither):
            raise
        except Exception as e:
            if fn_exc is not None and type(e) is not type(fn_exc):
                raise RefEither("apply_eval_order")
            raise
        finally:
            self.out = outer_out
            self.via = saved_via
            self.scope.layers.pop()
        if fn_exc is not None:
            raise fn_exc
        joined = b"".join(s.data for s in inner)
        data = utf8(fn(joined))
        self.emit(Slice("apply", it, data, plain=joined, children=inner, via=self.via, src=it.fn))
