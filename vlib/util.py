"""Small helpers shared by checks."""
import contextlib
import hashlib
import os


@contextlib.contextmanager
def det_urandom(seed: bytes = b"seed"):
    """Replace os.urandom by a deterministic byte stream derived from `seed` (part of the case), so
    WebSocket masks/keys and XSRF masks are reproducible in a replay."""
    state = {"n": 0}
    real = os.urandom

    def fake(n):
        out = b""
        while len(out) < n:
            out += hashlib.sha256(seed + state["n"].to_bytes(8, "big")).digest()
            state["n"] += 1
        return out[:n]

    os.urandom = fake
    try:
        yield
    finally:
        os.urandom = real


def repo_worktree_note():
    return "checks import the working tree under VERIF_REPO (default /repo)"
