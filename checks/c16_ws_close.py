"""C16 — WebSocket close handshake is orderly and reported exactly once.

Three Hypothesis-driven state machines on the virtual-time loop, all over ``MemoryIOStream`` after a real
upgrade; every step is one operation followed by ``settle`` and a full observation.

ref    the harness (``vlib/wsref.py``) is the peer of Tornado's server *or* client.  Operations: local
       ``close(code?, reason?)``; peer close frame (no payload / code / code+reason); peer text message (the
       server's ``on_message`` may be a coroutine that stays unfinished until a later ``release`` operation,
       so closes arrive *during* an asynchronous on_message); ``write_message`` / ``ping`` attempts by the
       application; peer ping; FIN or RST from the peer at a frame boundary or in the middle of a frame;
       ``advance(dt)`` across the 5 s closing timeout.
pair   Tornado client <-> Tornado server through a ``Wire``: local close on either side, writes on either
       side, delivery of k bytes in either direction (so close frames cross on the wire or one is cut by a
       disconnect), advance, one-sided disconnect.
ping   ``websocket_ping_interval`` / ``websocket_ping_timeout`` (server) or ``ping_interval`` /
       ``ping_timeout`` (client) against the reference peer: per ping round the pong is delivered before the
       deadline, one microsecond before it, exactly at it (EITHER), just after it, or never; after a timeout the
       peer answers with a close frame, disconnects, stays silent, or the application writes.

Oracle (statement), per Tornado side, over the whole history with the wire decoded by the strict reference
decoder: <=1 close frame and no text/binary/continuation frame after it; a close frame that appears in a step
whose operation was the application's close() carries the application's code/reason (1000 when only a reason
was given), one that appears because the peer's close frame was delivered echoes the peer's code, one that
appears during an advance is the ping timeout's (1000); the transport is closed as soon as Tornado has both
sent and received a close frame, at the latest 5 s (virtual) after it sent its own, and after a FIN/RST;
the close notification (server ``on_close``; client ``on_message_callback(None)`` / ``read_message() ->
None``) has fired at most once at every point, exactly once when the history is over (the harness ends every
history with a disconnect), with ``close_code`` / ``close_reason`` equal to the peer's when Tornado
processed the peer's close frame; ``write_message`` / ``ping`` after the side started closing raise
``WebSocketClosedError`` (directly or through the returned future) and succeed before; nothing is logged at
ERROR level; after teardown no timer is left on the loop and 100 more virtual seconds change nothing.

EITHER: empty reason reported as None or ""; messages that arrive after the local close() (delivered or
not); a pong processed in the same instant as the ping deadline; what close_code is when no peer close frame
was processed.

Findings on the current tree (open; known_findings.d/C16.json, findings_inbox/C16-*.md):
  F-C16-client-write-after-ping-timeout  client: after the ping timeout's close frame write_message still succeeds
                                         and a data frame follows the close frame (server role is correct)
  F-C16-close-reason-not-utf8            C15's finding seen from here: no on_close (server) / zombie (client)
Not a finding (EITHER, documented in the oracle): WebSocketClientConnection.ping() raises StreamClosedError rather
than WebSocketClosedError once the transport is gone -- the statement and the documentation promise
WebSocketClosedError for write_message only.

Sensitivity (quick tier, seed 1, scratch copy of /repo/tornado, one mutant at a time):
  M1  close(): `if not self.server_terminated` removed (close frame re-sent)        -> C16.wire.second_close_frame
  M2  close(): _waiting timer not removed when both sides have closed               -> C16.timer_left_after_teardown
  M3  on_connection_close without the _on_close_called guard                        -> NOT caught: equivalent on every
      reachable history (after detach() nothing but the receive loop's on_ws_connection_close calls it);
      M3b _abort() also calls handler.on_ws_connection_close                        -> C16.notified_twice / closed_without_notification
  M4  periodic_ping ignores _received_pong                                          -> C16.ping_timeout_despite_pong
  M5  peer close answered with 1000 instead of the peer's code                      -> C16.echo_code
  M6  closing timeout 5 s -> 50 s                                                   -> C16.closing_timeout_not_enforced
  M7  WebSocketHandler.write_message without the is_closing() test                  -> C16.write_after_close_not_rejected (server, after ping timeout)
  M8  close(): no stream.close() when both close frames were exchanged              -> C16.notified_but_transport_open
  M9  close(): ping coroutine not cancelled                                         -> C16.timer_left_after_teardown
  M10 on_ws_connection_close drops close_reason                                     -> C16.reported_close_code
Added after independent mutation testing found a gap:
  M11 _receive_frame_loop: `while not self.client_terminated and not self.stream.closed()` (a complete peer close
      frame that is still buffered when the peer's FIN closed the transport is never processed)
                                                                      -> C16.reported_close_code (grid + ref) / C16.timer_left_after_teardown
  It needs: on_message unfinished, the idle stream still listening (the busy message's payload came in its own TCP
  segment, so the read buffer was empty afterwards), close frame + FIN in ONE burst, then on_message finishing.  New:
  `peer_msg` carries a segmentation, the `burst` operation feeds [message] + close frame (+FIN) without quiescence in
  between, the model counts a close frame as processed when it was received intact ahead of the FIN that closed the
  transport (not after RST or Tornado's own closing-timeout abort: EITHER), labels
  `transport_closed_by_fin_while_on_message_unfinished` / `peer_close_processed_after_fin`, and the deterministic
  part `goodbye_grid` (6 segmentations x 6 close payloads x 4 interludes x 2 = 288 histories) enumerates exactly these.
  M12 WebSocketClientConnection.on_ws_connection_close: on_connection_close() (which hands None to the application)
      called BEFORE close_code / close_reason are stored                 -> C16.reported_close_code (ref, pair and ping parts, seeds 1-3)
      The reported code/reason are now captured AT THE MOMENT of the notification: inside on_message_callback(None)
      (vlib/wsharness.ClientSide.close_seen), when the read_message() future resolves with None, and -- server -- the
      values on_close itself saw; the "== the peer's when its close frame was processed" clause is asserted on those.
  M15 ("boundary") _handle_message inflates every frame while the per-message "compressed" flag is set (the
      `opcode in (0x1, 0x2)` test dropped): after a compressed data message the peer's close payload / ping payload is fed
      to the inflater -> garbage or no close code, unanswered ping   -> C16.reported_close_code / C16.ping_not_answered, seeds 1-3
      permessage-deflate is now a generated dimension of the ref and pair parts (peer text messages are sent compressed,
      Tornado's writes are compressed and decoded with the agreed inflater), label control_frame_after_compressed_message,
      and part `compressed_then_control_grid` enumerates roles x client styles x deflate on/off x 1-2 messages x 7 control
      sequences (pings of 1/125 bytes, close payloads of 0 / 2 / 5 / 125 bytes, burst with FIN).
  M14 ("state carried over") WebSocketClientConnection.on_connection_close: read_queue.put_nowait(None) instead of the
      awaited put: with a received message still UNREAD at close time the one-slot queue is full, QueueFull escapes, the
      close notification fires zero times and the teardown is skipped
                                                                      -> C16.closed_without_notification / notification_count_at_end, seeds 1-3
      New dimension for the future-style client (`lazy_reads`): the application does not read while the history runs, so
      0, 1, 2, ... received messages are unread (the 2nd one blocks the receive loop like an unfinished on_message) when the
      close frame / FIN / local close / timeout is processed; "release" = one read_message(); at the end everything is read
      and must be: the fed messages in order (C16.in_flight_messages), then exactly one None, with the peer's code/reason as
      seen when that read resolved.  Labels unread_messages_N / close_processed_with_N_unread; deterministic part
      `unread_grid` (0..3 unread x 8 endings).
  M13 control-frame length check off by one (`payloadlen >= 125` instead of `>= 126`): a close frame with code + 123-byte
      reason (payload exactly 125) or a 125-byte ping aborts the connection: no echo, close notification with (None, None)
                                                                      -> C16.reported_close_code (all parts) / C16.ping_not_answered, seeds 1-3
      PEER_CLOSE / CLOSE_ARGS now contain reasons of 1, 122 and 123 bytes (ASCII, multi-byte, and ending in a multi-byte
      character exactly at byte 123); peer pings have 0, 1, 2, 124 or 125 bytes and must be answered by a pong with the same
      payload (new clause C16.ping_not_answered, also after the local close()).
  False alarm corrected while adding M11 (seed 5): after close() on a transport that the FIN had already closed
  nothing reaches the wire, but the 5 s abort timer is armed all the same -- the EITHER guard now uses the time of
  the close() call, not the time the close frame was seen on the wire.
"""
import asyncio
import struct

from hypothesis import strategies as st

from tornado.iostream import StreamClosedError
from tornado.websocket import WebSocketClosedError

from vlib import vtime, wsharness as H, wsref
from vlib.httpharness import LogCapture
from vlib.util import det_urandom

PROPERTY = "C16"
READY = True
RULE = (
    "three state machines (ref: <=14 operations against the reference peer in either role, optional "
    "asynchronous on_message; pair: <=16 operations over a Tornado<->Tornado wire with byte-wise delivery; "
    "ping: <=4 ping rounds with generated pong timing and a generated ending); non-trivial = the history "
    "contains crossing closes, a disconnect between the two close frames, a close while on_message is "
    "unfinished, or a pong within one step of the ping deadline; distinct = SHA-1 of the case"
)
ASSUMPTIONS = [
    "the closing timeout is the documented 5 seconds; 'tears down once both sides have closed' means: at the next "
    "quiescent point after Tornado has sent one and processed the other close frame",
    "a frame is 'processed' when it was delivered completely while the transport was open and no earlier "
    "on_message coroutine is unfinished",
    "the code Tornado echoes is compared, not the reason (the statement says 'echoes the peer's close code')",
]
TECHNIQUE = "stateful property-based testing (Hypothesis op lists) on a virtual clock with the wire decoded by an independent RFC 6455 codec"
LEVEL_TEXT = (
    "bounded exploration: ~4300 histories (quick) / ~30k (thorough) of <=16 steps; timing at the granularity of "
    "the generated advances (incl. +-1 microsecond around the deadlines); no claim for longer histories"
)
SHARDS = 16

# reasons at the boundary: a close payload is 2 bytes of code + reason and, like every control payload, at most 125
# bytes long (RFC 6455 5.5), so the longest legal reason has 123 bytes -- also one whose last character is multi-byte
R123 = "r" * 123
R123_MULTIBYTE = "é" * 60 + "abc"          # 60*2 + 3 = 123 bytes, 63 characters
R123_ENDS_MULTIBYTE = "a" + "✓" * 40 + "é"  # 1 + 40*3 + 2 = 123 bytes, last character 2 bytes
assert all(len(r.encode("utf-8")) == 123 for r in (R123, R123_MULTIBYTE, R123_ENDS_MULTIBYTE))
CLOSE_ARGS = [(None, None), (None, None), (1000, None), (1001, "going away"), (None, "only a reason"), (3000, "x"), (4999, "é✓"),
              (1000, R123), (None, "r" * 122), (3000, R123_ENDS_MULTIBYTE)]
PEER_CLOSE = [(None, None), (1000, None), (1000, "bye"), (1001, "näher"), (3001, "r" * 100), (4000, ""),
              (1000, "x"), (1001, "r" * 122), (1000, R123), (3000, R123_MULTIBYTE), (4999, R123_ENDS_MULTIBYTE)]
PING_PAYLOADS = [b"", b"p", b"\x00\xff", b"p" * 124, b"p" * 125, b"p" * 125]   # 125 = the largest legal control payload
text_s = st.sampled_from(["", "hi", "héllo", "x" * 200])


def own_payload(code, reason):
    """What close(code, reason) has to put on the wire (documented: reason without code means 1000)."""
    if code is None and reason is not None:
        code = 1000
    return (code, reason or "")


# ------------------------------------------------------------------------------------------- observation
class Side:
    """One Tornado endpoint under observation."""

    def __init__(self, name, stream, decoder_fn, closes_fn, code_fn, write_fn, ping_fn, close_fn):
        self.name, self.stream = name, stream
        self.decoder_fn, self.closes_fn, self.code_fn = decoder_fn, closes_fn, code_fn
        self.write_fn, self.ping_fn, self.close_fn = write_fn, ping_fn, close_fn
        self.local_closed = False       # application called close()
        self.local_args = None
        self.peer_close = None          # (code, reason) of the peer's close frame once *processed*
        self.sent_close = None          # (code, reason, time) decoded from the wire
        self.n_events = 0
        self.ping_closed = False
        self.writes_ok = []             # messages successfully written by the application
        self.eof = False

    @property
    def closing(self):
        return self.local_closed or self.peer_close is not None or self.stream.closed() or self.ping_closed


def check_wire(ctx, side, step, op, now, labels, cause):
    """Decode what `side` wrote so far; classify a newly appeared close frame.  cause in
    {'local', 'delivery', 'advance', 'other'}."""
    dec = side.decoder_fn()
    if dec.error:
        sig = "C16.wire." + dec.error
        if dec.error == "data_frame_after_close" and side.ping_closed and side.name == "client":
            sig = "C16.data_after_close.client_after_ping_timeout"
        ctx.fail("C16.wire." + dec.error, {"side": side.name, "step": step, "op": op, "frames": [f.brief() for f in dec.frames[-4:]]}, sig=sig)
        return False
    if dec.leftover:
        ctx.fail("C16.wire.partial_frame", {"side": side.name, "step": step, "op": op})
    new = dec.events[side.n_events:]
    side.n_events = len(dec.events)
    for ev in new:
        if ev[0] != "close":
            continue
        if side.sent_close is not None:
            ctx.fail("C16.second_close_frame", {"side": side.name, "step": step, "op": op})
        side.sent_close = (ev[1], ev[2], now)
        detail = {"side": side.name, "step": step, "op": op, "sent": (ev[1], ev[2]), "cause": cause}
        if cause == "local":
            labels.add("close_own_code")
            want = own_payload(*side.local_args)
            if (ev[1], ev[2] or "") != want:
                ctx.fail("C16.own_close_payload", dict(detail, want=want))
        elif cause == "delivery":
            labels.add("close_echo")
            if side.peer_close is None:
                ctx.fail("C16.close_frame_without_cause", detail)
            elif ev[1] != side.peer_close[0]:
                ctx.fail("C16.echo_code", dict(detail, peer=side.peer_close))
        elif cause == "advance":
            labels.add("close_ping_timeout")
            if ev[1] != 1000:
                ctx.fail("C16.ping_timeout_close_code", detail)
        else:
            ctx.fail("C16.close_frame_without_cause", detail)
    return True


def check_state(ctx, side, step, op, now, blocked=False):
    n = side.closes_fn()
    detail = {"side": side.name, "step": step, "op": op, "notifications": n, "closed": side.stream.closed(),
              "sent_close": side.sent_close, "peer_close": side.peer_close, "now": now}
    if n > 1:
        ctx.fail("C16.notified_twice", detail)
    if side.stream.closed() and not blocked and n != 1:
        ctx.fail("C16.closed_without_notification", detail, sig="C16.teardown." + sig_class(side))
    if n == 1 and not side.stream.closed():
        ctx.fail("C16.notified_but_transport_open", detail)
    if side.sent_close is not None and side.peer_close is not None and not side.stream.closed():
        ctx.fail("C16.both_closed_transport_open", detail, sig="C16.teardown." + sig_class(side))
    if side.sent_close is not None and now >= side.sent_close[2] + 5 and not side.stream.closed():
        ctx.fail("C16.closing_timeout_not_enforced", detail)
    if side.eof and not blocked and not side.stream.closed():
        ctx.fail("C16.disconnect_not_noticed", detail)
    if n == 1 and side.peer_close is not None:
        code, reason = side.code_fn()
        pc, pr = side.peer_close
        if code != pc or (reason or "") != (pr or ""):
            ctx.fail("C16.reported_close_code", dict(detail, reported=(code, reason)))


def sig_class(side):
    return getattr(side, "sig_class", "general")


def attempt_write(ctx, side, text, step, labels, settle):
    """-> coroutine: application write attempt; must fail iff the side is closing."""
    async def run():
        closing = side.closing
        detail = {"side": side.name, "step": step, "closing": closing, "local_closed": side.local_closed,
                  "peer_close": side.peer_close, "closed": side.stream.closed(), "ping_closed": side.ping_closed}
        try:
            fut = side.write_fn(text)
        except WebSocketClosedError:
            labels.add("write_after_close_raises")
            if not closing:
                ctx.fail("C16.write_rejected_while_open", detail)
            return
        await settle()
        exc = fut.exception() if fut is not None and fut.done() else None
        if fut is not None and not fut.done():
            ctx.fail("C16.write_future_pending", detail)
        if closing:
            if isinstance(exc, WebSocketClosedError):
                labels.add("write_after_close_raises")
            else:
                ctx.fail("C16.write_after_close_not_rejected", dict(detail, exc=repr(exc)),
                         sig="C16.data_after_close.client_after_ping_timeout" if side.ping_closed and side.name == "client"
                         and not side.local_closed and side.peer_close is None and not side.stream.closed() else None)
        else:
            if exc is not None:
                ctx.fail("C16.write_failed_while_open", dict(detail, exc=repr(exc)))
            side.writes_ok.append(text)
            labels.add("write_while_open")
    return run()


def attempt_ping(ctx, side, step, labels):
    closing = side.closing
    try:
        side.ping_fn(b"app")
    except WebSocketClosedError:
        labels.add("ping_after_close_raises")
        if not closing:
            ctx.fail("C16.ping_rejected_while_open", {"side": side.name, "step": step})
        return
    except StreamClosedError:
        # EITHER: the statement (and the documentation) promise WebSocketClosedError for write_message only;
        # the client's ping() lets the transport's own error through once the stream is gone
        labels.add("ping_after_close_streamclosederror")
        if not side.stream.closed():
            ctx.fail("C16.ping_streamclosed_while_open", {"side": side.name, "step": step})
        return
    # a ping is a control frame: the statement only forbids *data* frames after the close frame, so a ping
    # that is accepted while closing is tolerated as long as the wire stays well-formed
    labels.add("ping_sent" if not closing else "ping_accepted_while_closing")


# ------------------------------------------------------------------------------------------- part: ref
ref_op_s = st.one_of(
    st.tuples(st.just("local_close"), st.sampled_from(CLOSE_ARGS)),
    st.tuples(st.just("peer_close"), st.sampled_from(PEER_CLOSE), st.lists(st.integers(1, 6), max_size=2)),
    st.tuples(st.just("peer_close"), st.sampled_from(PEER_CLOSE), st.lists(st.integers(1, 6), max_size=2)),
    # 3rd field: TCP segmentation of the frame.  [6] = header+mask first, payload later: the payload read then goes
    # through the socket with an empty buffer afterwards, so the idle stream keeps listening (and notices a FIN)
    # while on_message is still running; unsegmented, the rest of the frame is served from the buffer
    st.tuples(st.just("peer_msg"), text_s, st.sampled_from([[], [], [6], [2, 4], [1], [6, 1]])),
    st.tuples(st.just("peer_msg"), text_s, st.sampled_from([[], [], [6], [2, 4], [1], [6, 1]])),
    st.tuples(st.just("release"),),
    # one TCP burst: [text message] + close frame (+ FIN) under a segmentation, no quiescence in between -- the peer
    # "says goodbye and hangs up" while Tornado may still be busy with an earlier or this very message
    st.tuples(st.just("burst"), st.one_of(st.none(), text_s), st.sampled_from(PEER_CLOSE), st.lists(st.sampled_from([1, 2, 5, 6, 7, 8, 12]), max_size=3), st.booleans()),
    st.tuples(st.just("burst"), st.one_of(st.none(), text_s), st.sampled_from(PEER_CLOSE), st.lists(st.sampled_from([1, 2, 5, 6, 7, 8, 12]), max_size=3), st.booleans()),
    st.tuples(st.just("write"), text_s),
    st.tuples(st.just("app_ping"),),
    st.tuples(st.just("peer_ping"), st.sampled_from(PING_PAYLOADS)),
    st.tuples(st.just("eof"), st.sampled_from(["fin", "rst"]), st.sampled_from([0, 0, 1, 3])),
    st.tuples(st.just("advance"), st.sampled_from([0.5, 1.0, 4.0, 4.999999, 5.0, 5.000001, 6.0, 30.0])),
    st.tuples(st.just("advance"), st.sampled_from([0.5, 1.0, 4.0, 4.999999, 5.0, 5.000001, 6.0, 30.0])),
)
ref_case_s = st.fixed_dictionaries({
    "role": st.sampled_from(["server", "client"]),
    "async_on_message": st.booleans(),
    "callback_mode": st.booleans(),
    "ops": st.lists(ref_op_s, min_size=1, max_size=14),
    # client, read_message() style: the application does not read while the history runs -- received messages stay
    # unread in the connection (0, 1, 2, ... of them) when the close frame / disconnect is processed; "release" reads one
    "lazy_reads": st.booleans(),
    # permessage-deflate negotiated: the peer's text messages are sent COMPRESSED (RSV1), Tornado's own writes are
    # compressed too -- the control frames of the history (close with code+reason, pings with payload) then follow
    # compressed data messages, and control payloads are never compressed
    "deflate": st.booleans(),
    "bad_reason": st.sampled_from([False] * 9 + [True]),   # peer close frames carry an invalid UTF-8 reason (C15's finding, observed from C16's side)
})


def run_ref(ctx, case):
    role = case["role"]
    labels = {"ref_" + role}
    out = {"nontrivial": False}
    lazy = role == "client" and not case["callback_mode"] and bool(case.get("lazy_reads"))
    deflate = bool(case.get("deflate"))

    async def scenario():
        loop = asyncio.get_running_loop()
        rec = H.Recorder()
        pending = []

        def on_message(handler, msg):
            if case["async_on_message"]:
                f = loop.create_future()
                pending.append(f)
                return f
            return None

        if role == "server":
            app = H.make_app(rec, behaviour={"on_message": on_message}, compression={} if deflate else None)
            peer = H.RefClient(app, ext="permessage-deflate" if deflate else None)
            if not await peer.handshake() or rec.handler is None:
                return ctx.fail("C16.handshake_extension_response_invalid" if (peer.error or "").startswith("extension response invalid")
                                else "C16.handshake_failed", {"error": peer.error})
            h = rec.handler
            side = Side("server", peer.stream, peer.poll, lambda: rec.count("close"), lambda: next(e[1:] for e in rec.events if e[0] == "close"),
                        lambda t: h.write_message(t), lambda d: h.ping(d), lambda c, r: h.close(c, r))
            enc = H.RefEncoder("client")
            got_msgs = rec.messages
        else:
            cl = H.ClientSide(callback_mode=case["callback_mode"], **({"compression_options": {}} if deflate else {}))
            peer = H.RefServer(cl)
            if await peer.read_request() is None or not await peer.accept(ext="permessage-deflate" if deflate else None):
                return ctx.fail("C16.handshake_failed", {})
            conn = cl.connect_future.result()
            side = Side("client", cl.stream, peer.poll, lambda: sum(1 for m in cl.received if m is None),
                        cl.reported_close,
                        lambda t: conn.write_message(t), lambda d: conn.ping(d), lambda c, r: conn.close(c, r))
            enc = H.RefEncoder("server")
            got_msgs = cl.messages
            if lazy:
                cl.auto_read = False
                labels.add("client_lazy_reads")
        peer.decoder.control_after_close_ok = True
        if deflate:
            if peer.deflate is None:
                return ctx.fail("C16.deflate_not_negotiated", {"role": role})
            enc.deflater = peer.deflate.deflater(enc.role)
            labels.add("deflate_on")

        def text_frame(text):
            """One text message from the peer: compressed (RSV1) when permessage-deflate was negotiated."""
            return enc.message(wsref.OP_TEXT, text.encode(), compress=deflate)[0]

        fed_texts = []            # text messages fed by the peer while Tornado could still read them

        def blocked():
            """The receive loop is stuck: an on_message coroutine is unfinished (server) / the one-slot read queue is full
            and the next message waits to be put (lazy client: >=2 messages received but not read)."""
            if lazy:
                return len(fed_texts) - len(cl.messages()) >= 2
            return any(not f.done() for f in pending)

        def unobservable():
            """A lazy client cannot have seen the close notification before it reads."""
            return lazy and not out.get("draining")
        fed_close = None          # (code, reason) fed completely, not yet known to be processed
        partial = False           # a partial frame is in flight (the stream can no longer be parsed by Tornado)
        t0 = loop.time()

        async def observe(step, op, cause):
            nonlocal fed_close
            now = loop.time()
            if side.stream.closed() and "closed_cause" not in out:
                # the only reason the transport closes without Tornado's own doing is the peer's FIN
                out["closed_cause"] = "fin" if out.get("eof_kind") == "fin" and out.get("step_kind") != "advance" else "other"
            # processed = delivered completely while the transport was open and nothing earlier is unfinished ...
            can_process = out.get("open_at_step_start")
            if not can_process and out.get("closed_cause") == "fin" and out.get("close_fed_while_open") \
                    and not (out.get("local_close_time") is not None and now >= out["local_close_time"] + 5):
                # ... or it was received intact ahead of the FIN that closed the transport: it is still in the read
                # buffer when the unfinished on_message returns, and "the peer's code and reason when one was
                # received" applies (unless Tornado's own closing timeout aborted the connection meanwhile)
                can_process = True
                if fed_close is not None and side.peer_close is None and not blocked():
                    labels.add("peer_close_processed_after_fin")
            if fed_close is not None and side.peer_close is None and not blocked() and can_process and not partial:
                side.peer_close = fed_close[:2]
                if fed_close[2]:
                    side.sig_class = "peer_close_reason_not_utf8"
                    side.peer_close = None      # the frame is a protocol violation: nothing to report, but it must abort
                    out["bad_close_processed"] = True
            if not check_wire(ctx, side, step, op, now, labels, cause):
                return False
            if out.get("bad_close_processed"):
                # C15's clause seen from here: the connection must be gone and reported once
                if not side.stream.closed() or (side.closes_fn() != 1 and not unobservable()):
                    ctx.fail("C16.bad_close_frame_teardown", {"closed": side.stream.closed(), "notifications": side.closes_fn(), "role": role},
                             sig="C16.teardown.peer_close_reason_not_utf8")
                    return False
            check_state(ctx, side, step, op, now, blocked=blocked() or unobservable())
            return True

        for step, op in enumerate(case["ops"]):
            kind = op[0]
            out["open_at_step_start"] = not side.stream.closed()
            out["step_kind"] = kind
            cause = "other"
            if kind == "burst":
                if fed_close is not None or side.eof or partial:
                    continue
                text, (code, reason), segs, fin = op[1], op[2], op[3], op[4]
                if deflate and text is not None:
                    labels.add("control_frame_after_compressed_message")
                data = (text_frame(text) if text is not None else b"") + \
                    enc.frame(wsref.OP_CLOSE, wsref.close_payload(code, reason or ""))
                was_blocked = blocked()
                if text is not None and out["open_at_step_start"]:
                    fed_texts.append(text)
                fed_close = (code, (reason or None) if code is not None else None, False)
                out["close_fed_while_open"] = out["open_at_step_start"]
                side.stream.feed(data, H.segments(len(data), segs, cap=len(segs), bulk=1 << 20))
                if fin:
                    side.stream.feed_eof()
                    side.eof = True
                    out["eof_kind"] = "fin"
                await peer.settle()
                labels.add("burst_close" + ("_fin" if fin else ""))
                if blocked():
                    labels.add("close_during_async_on_message")
                    out["nontrivial"] = True
                    if fin:
                        labels.add("close_and_fin_during_async_on_message")
                        if side.stream.closed():
                            labels.add("transport_closed_by_fin_while_on_message_unfinished")
                cause = "delivery"
            elif kind == "local_close":
                code, reason = op[1]
                if side.local_closed:
                    # a second close() must be a no-op (a second close frame is caught by the wire check)
                    labels.add("second_local_close")
                    side.close_fn(code, reason)
                    await peer.settle()
                    if not await observe(step, op, "other"):
                        out["stop"] = True
                        break
                    continue
                if blocked():
                    labels.add("close_during_async_on_message")
                    out["nontrivial"] = True
                if fed_close is not None and side.peer_close is None and not side.stream.closed():
                    # the peer's close frame is already in flight: both sides close before seeing the other's frame
                    labels.add("crossing_closes")
                    out["nontrivial"] = True
                side.local_closed = True
                side.local_args = (code, reason)
                out["local_close_time"] = loop.time()   # close() arms the 5 s abort timer even if nothing can be written
                side.close_fn(code, reason)
                cause = "local"
                await peer.settle()
            elif kind == "peer_close":
                if fed_close is not None or side.eof or partial:
                    continue
                code, reason = op[1]
                payload = wsref.close_payload(code, reason or "")
                if out.get("last_peer_frame_compressed"):
                    labels.add("control_frame_after_compressed_message")
                bad = case["bad_reason"] and code is not None
                if bad:
                    payload = struct.pack("!H", code) + b"\xff\xfe"
                    labels.add("peer_close_bad_reason")
                frame = enc.frame(wsref.OP_CLOSE, payload)
                if blocked():
                    labels.add("close_during_async_on_message")
                    out["nontrivial"] = True
                if side.sent_close is not None and not side.stream.closed():
                    labels.add("peer_close_answers_local")
                fed_close = (code, (reason or None) if code is not None else None, bad)
                out["close_fed_while_open"] = out["open_at_step_start"]
                cause = "delivery"
                await peer.send(frame, H.segments(len(frame), op[2], cap=2, bulk=1 << 20))
            elif kind == "peer_msg":
                if side.eof or partial or fed_close is not None:
                    continue
                n_before = len(got_msgs())
                frame = text_frame(op[1])
                out["last_peer_frame_compressed"] = deflate
                segs = list(op[2]) if len(op) > 2 else []
                await peer.send(frame, H.segments(len(frame), segs, cap=len(segs), bulk=1 << 20))
                if segs:
                    labels.add("peer_msg_segmented")
                if out["open_at_step_start"]:
                    fed_texts.append(op[1])
                if lazy:
                    labels.add("unread_messages_%d" % min(len(fed_texts) - len(cl.messages()), 3))
                labels.add("peer_msg_after_local_close" if side.local_closed else "peer_msg")
                if not side.local_closed and not blocked() and out["open_at_step_start"] and side.peer_close is None and not lazy:
                    if got_msgs()[n_before:] != [op[1]]:
                        ctx.fail("C16.message_lost_before_close", {"step": step})
                cause = "delivery"
            elif kind == "release" and lazy:
                await cl.read_one()          # the application takes one message (or the close notification)
                labels.add("lazy_read_one")
                cause = "delivery"
            elif kind == "release":
                if not blocked():
                    continue
                for f in pending:
                    if not f.done():
                        f.set_result(None)
                        break
                labels.add("release")
                cause = "delivery"
                await peer.settle()
            elif kind == "write":
                await attempt_write(ctx, side, op[1], step, labels, peer.settle)
            elif kind == "app_ping":
                attempt_ping(ctx, side, step, labels)
                await peer.settle()
            elif kind == "peer_ping":
                if side.eof or partial or fed_close is not None:
                    continue
                n_pongs = sum(1 for e in peer.poll().events if e[0] == "pong")
                if out.get("last_peer_frame_compressed"):
                    labels.add("control_frame_after_compressed_message")
                await peer.send(enc.frame(wsref.OP_PING, op[1]))
                cause = "delivery"
                labels.add("peer_ping_%d" % len(op[1]) if len(op[1]) >= 124 else "peer_ping")
                if out["open_at_step_start"] and not blocked() and side.peer_close is None:
                    # a ping is answered "as soon as is practical" with a pong carrying the same payload (5.5.2/5.5.3),
                    # also after the local close(): only the peer's close frame ends Tornado's reading
                    pongs = [e[1] for e in peer.poll().events if e[0] == "pong"][n_pongs:]
                    if pongs != [op[1]]:
                        ctx.fail("C16.ping_not_answered", {"step": step, "payload_len": len(op[1]), "pongs": [len(x) for x in pongs],
                                                           "closed": side.stream.closed(), "role": role})
            elif kind == "eof":
                if side.eof:
                    continue
                if op[2] and not partial and fed_close is None:
                    fr = enc.frame(wsref.OP_TEXT, b"never completed")
                    side.stream.feed(fr[: op[2]])
                    partial = True
                    labels.add("disconnect_mid_frame")
                else:
                    labels.add("disconnect_at_frame_boundary")
                if side.sent_close is not None and side.peer_close is None and not side.stream.closed():
                    labels.add("disconnect_between_close_frames")
                    out["nontrivial"] = True
                out["eof_kind"] = op[1]
                if op[1] == "fin":
                    side.stream.feed_eof()
                else:
                    side.stream.feed_reset()
                    labels.add("rst")
                side.eof = True
                cause = "delivery"
                await peer.settle()
            elif kind == "advance":
                if side.sent_close is not None and not side.stream.closed():
                    labels.add("advance_while_waiting_for_peer_close")
                await peer.advance(op[1])
                cause = "advance_noping"
            if not await observe(step, op, cause):
                out["stop"] = True
                break

        if not out.get("stop"):
            # ---- every history ends: release what is pending, then the closing timeout or a disconnect
            out["open_at_step_start"] = not side.stream.closed()
            out["step_kind"] = "release"
            if lazy:
                # now the application reads everything that is there (and keeps one read outstanding)
                if fed_close is not None or side.eof or side.stream.closed():
                    labels.add("close_processed_with_%d_unread" % min(len(fed_texts) - len(cl.messages()), 3))
                out["draining"] = True
                cl.auto_read = True
                await peer.settle()
            for _ in range(40):     # a released on_message lets the next queued message start a new one
                if not blocked():
                    break
                for f in list(pending):
                    if not f.done():
                        f.set_result(None)
                await peer.settle()
            ok = await observe("end-release", None, "delivery")
            if ok and not side.stream.closed():
                out["open_at_step_start"] = True
                if side.sent_close is not None:
                    out["step_kind"] = "advance"
                    await peer.advance(5.000001)
                    labels.add("ended_by_closing_timeout")
                    ok = await observe("end-timeout", None, "advance_noping")
                else:
                    side.stream.feed_eof()
                    side.eof = True
                    out.setdefault("eof_kind", "fin")
                    out["step_kind"] = "eof"
                    await peer.settle()
                    labels.add("ended_by_disconnect")
                    ok = await observe("end-eof", None, "delivery")
            if ok:
                await final_checks(ctx, side, peer.advance, loop, labels)
            if ok and lazy:
                got = cl.messages()
                if got != fed_texts[: len(got)] or (side.peer_close is not None and len(got) != len(fed_texts)):
                    ctx.fail("C16.in_flight_messages", {"read": got[:4], "fed": fed_texts[:4], "peer_close": side.peer_close})
        H.teardown(side.stream)
        await vtime.settle(pump=side.stream.pump_once)

    with LogCapture() as logs, det_urandom(b"c16"):
        vtime.run(scenario)
    errs = [r for r in logs.records if r[1] >= 40]
    if errs and not out.get("stop"):
        ctx.fail("C16.error_logged", {"logs": errs[:2], "role": role},
                 sig="C16.teardown.peer_close_reason_not_utf8" if out.get("bad_close_processed") else None)
    ctx.note(case, labels, out["nontrivial"])


async def final_checks(ctx, side, advance, loop, labels):
    """The history is over (transport closed): exactly one notification, quiet afterwards, no timers."""
    n = side.closes_fn()
    detail = {"side": side.name, "notifications": n, "closed": side.stream.closed()}
    if not side.stream.closed():
        ctx.fail("C16.transport_open_at_end", detail)
    if n != 1:
        ctx.fail("C16.notification_count_at_end", detail, sig="C16.teardown." + sig_class(side))
    wire_len = len(side.stream.wire)
    timers = loop.pending_timers()
    await advance(100)
    if len(side.stream.wire) != wire_len or side.closes_fn() != n:
        ctx.fail("C16.activity_after_teardown", dict(detail, after=side.closes_fn()))
    if timers:
        ctx.fail("C16.timer_left_after_teardown", dict(detail, timers=timers))
    labels.add("history_completed")


# ------------------------------------------------------------------------------------------- part: pair
pair_op_s = st.one_of(
    st.tuples(st.just("close"), st.sampled_from(["c", "s"]), st.sampled_from(CLOSE_ARGS)),
    st.tuples(st.just("close"), st.sampled_from(["c", "s"]), st.sampled_from(CLOSE_ARGS)),
    st.tuples(st.just("write"), st.sampled_from(["c", "s"]), text_s),
    st.tuples(st.just("deliver"), st.sampled_from(["c", "s"]), st.sampled_from([1, 2, 3, 5, 8, 1000])),
    st.tuples(st.just("deliver"), st.sampled_from(["c", "s"]), st.sampled_from([1, 2, 3, 5, 8, 1000])),
    st.tuples(st.just("deliver"), st.sampled_from(["c", "s"]), st.sampled_from([1, 2, 3, 5, 8, 1000])),
    st.tuples(st.just("advance"), st.sampled_from([1.0, 4.999999, 5.000001, 10.0])),
    st.tuples(st.just("drop"), st.sampled_from(["c", "s"])),
)
pair_case_s = st.fixed_dictionaries({
    "callback_mode": st.booleans(),
    "deflate": st.booleans(),          # both Tornado sides compress: close frames / pings follow compressed messages
    "ops": st.lists(pair_op_s, min_size=1, max_size=16),
})


def run_pair(ctx, case):
    labels = {"pair"}
    out = {"nontrivial": False}

    async def scenario():
        loop = asyncio.get_running_loop()
        rec = H.Recorder()
        deflate = bool(case.get("deflate"))
        app = H.make_app(rec, compression={} if deflate else None)
        pair = H.Pair(app, callback_mode=case["callback_mode"], client_kw={"compression_options": {}} if deflate else None)
        if deflate:
            labels.add("deflate_on")
        if not await pair.connect():
            return ctx.fail("C16.handshake_failed", {})
        f = pair.client.connect_future
        if not (f.done() and f.exception() is None and rec.handler is not None):
            return ctx.fail("C16.handshake_failed", {"future": repr(f)})
        conn, h, cl = f.result(), rec.handler, pair.client
        wire = pair.wire
        wire.collect()
        head = {"c": len(wire.log_a), "s": len(wire.log_b)}   # HTTP bytes precede the frames in each log
        dp = wsref.DeflateParams() if deflate else None     # Tornado's client and server agree on the defaults
        decs = {"c": wsref.Decoder(expect_masked=True, control_after_close_ok=True, inflater=dp.inflater("client") if dp else None),
                "s": wsref.Decoder(expect_masked=False, control_after_close_ok=True, inflater=dp.inflater("server") if dp else None)}
        fedlen = {"c": head["c"], "s": head["s"]}

        def poll(k):
            wire.collect()
            log = wire.log_a if k == "c" else wire.log_b
            if len(log) > fedlen[k]:
                decs[k].feed(bytes(log[fedlen[k]:]))
                fedlen[k] = len(log)
            return decs[k]

        sides = {
            "c": Side("client", cl.stream, lambda: poll("c"), lambda: sum(1 for m in cl.received if m is None),
                      cl.reported_close, lambda t: conn.write_message(t), lambda d: conn.ping(d),
                      lambda c, r: conn.close(c, r)),
            "s": Side("server", pair.session.stream, lambda: poll("s"), lambda: rec.count("close"),
                      lambda: next(e[1:] for e in rec.events if e[0] == "close"), lambda t: h.write_message(t), lambda d: h.ping(d),
                      lambda c, r: h.close(c, r)),
        }
        other = {"c": "s", "s": "c"}
        delivered = {"c": head["c"], "s": head["s"]}    # bytes of k's log that reached the other side
        dropped = set()

        def close_frame_end(k):
            """Absolute offset in k's log where its close frame ends, or None."""
            d = poll(k)
            for i, ev in enumerate(d.events):
                if ev[0] == "close":
                    return head[k] + d.frames[d.event_frame[i]].end, (ev[1], ev[2] or None)
            return None

        async def settle():
            await pair.settle(auto=False)

        async def observe(step, op, causes):
            now = loop.time()
            # which peer close frames have been processed by whom: delivered completely while the receiver was open
            for k in "cs":
                rcv = sides[other[k]]
                cf = close_frame_end(k)
                if cf and rcv.peer_close is None and delivered[k] >= cf[0] and out["open_at_start"][other[k]]:
                    rcv.peer_close = cf[1]
            for k in "cs":
                if not check_wire(ctx, sides[k], step, op, now, labels, causes.get(k, "other")):
                    return False
            for k in "cs":
                check_state(ctx, sides[k], step, op, now)
            return True

        for step, op in enumerate(case["ops"]):
            kind = op[0]
            out["open_at_start"] = {k: not sides[k].stream.closed() for k in "cs"}
            causes = {}
            if kind == "close":
                k = op[1]
                sd = sides[k]
                if sd.local_closed:
                    continue
                sd.local_closed = True
                sd.local_args = op[2]
                o = sides[other[k]]
                if o.sent_close is not None and sd.peer_close is None and not sd.stream.closed():
                    labels.add("crossing_closes")
                    out["nontrivial"] = True
                sd.close_fn(*op[2])
                causes[k] = "local"
                await settle()
            elif kind == "write":
                await attempt_write(ctx, sides[op[1]], op[2], step, labels, settle)
            elif kind == "deliver":
                k = op[1]                      # bytes written by k move to the other side
                if k in dropped:
                    continue
                n = wire.deliver(to_b=(k == "c"), n=op[2])
                delivered[k] += n
                if n:
                    labels.add("partial_delivery" if op[2] < 1000 else "bulk_delivery")
                causes[other[k]] = "delivery"
                await settle()
            elif kind == "advance":
                await pair.advance(op[1], auto=False)
                causes = {"c": "advance_noping", "s": "advance_noping"}
            elif kind == "drop":
                k = op[1]                      # the path from k to its peer dies: the peer sees FIN, pending bytes are lost
                if k in dropped:
                    continue
                dropped.add(k)
                rcv = sides[other[k]]
                if rcv.sent_close is not None and rcv.peer_close is None and not rcv.stream.closed():
                    labels.add("disconnect_between_close_frames")
                    out["nontrivial"] = True
                rcv.stream.feed_eof()
                rcv.eof = True
                causes[other[k]] = "delivery"
                await settle()
            if not await observe(step, op, causes):
                out["stop"] = True
                break

        if not out.get("stop"):
            # ---- end of history: deliver everything that is still in flight, then timeouts / disconnects
            out["open_at_start"] = {k: not sides[k].stream.closed() for k in "cs"}
            for _ in range(4):
                for k in "cs":
                    if k not in dropped and not sides[other[k]].stream.closed():
                        delivered[k] += wire.deliver(to_b=(k == "c"))
                await settle()
            ok = await observe("end-deliver", None, {"c": "delivery", "s": "delivery"})
            if ok:
                await pair.advance(5.000001, auto=False)
                out["open_at_start"] = {k: not sides[k].stream.closed() for k in "cs"}
                for _ in range(3):
                    for k in "cs":
                        if k not in dropped and not sides[other[k]].stream.closed():
                            delivered[k] += wire.deliver(to_b=(k == "c"))
                    await settle()
                ok = await observe("end-timeout", None, {"c": "delivery", "s": "delivery"})
            if ok:
                for k in "cs":
                    if not sides[k].stream.closed():
                        sides[k].stream.feed_eof()
                        sides[k].eof = True
                await settle()
                ok = await observe("end-eof", None, {"c": "delivery", "s": "delivery"})
            if ok:
                for k in "cs":
                    await final_checks(ctx, sides[k], lambda dt: pair.advance(dt, auto=False), loop, labels)
                # application data written while open must be exactly what the wire shows
                for k in "cs":
                    sent = [e[1] for e in poll(k).messages()]
                    if sent != sides[k].writes_ok:
                        ctx.fail("C16.data_frames_vs_accepted_writes", {"side": k, "wire": sent, "accepted": sides[k].writes_ok})
        H.teardown(cl.stream, pair.session.stream)
        await pair.settle()

    with LogCapture() as logs, det_urandom(b"c16p"):
        vtime.run(scenario)
    errs = [r for r in logs.records if r[1] >= 40]
    if errs and not out.get("stop"):
        ctx.fail("C16.error_logged", {"logs": errs[:2]})
    ctx.note(case, labels, out["nontrivial"])


# ------------------------------------------------------------------------------------------- part: ping
EPS = 0.000001
round_s = st.sampled_from(["early", "half", "just_before", "at_deadline", "just_after", "never", "unsolicited_before"])
ping_case_s = st.fixed_dictionaries({
    "role": st.sampled_from(["server", "client"]),
    "interval": st.sampled_from([2.0, 10.0]),
    "timeout": st.sampled_from([None, 1.0, 0.5, 0]),     # None = default (= interval)
    "rounds": st.lists(round_s, min_size=1, max_size=4),
    "ending": st.sampled_from(["peer_close", "peer_close_late", "disconnect", "silent", "write_then_silent", "local_close"]),
})


def run_ping(ctx, case):
    role, I = case["role"], case["interval"]
    T = I if case["timeout"] is None else case["timeout"]
    labels = {"ping_" + role, "ping_timeout_%s" % case["timeout"]}
    out = {"nontrivial": False}

    async def scenario():
        loop = asyncio.get_running_loop()
        rec = H.Recorder()
        if role == "server":
            settings = {"websocket_ping_interval": I}
            if case["timeout"] is not None:
                settings["websocket_ping_timeout"] = case["timeout"]
            peer = H.RefClient(H.make_app(rec, settings=settings))
            if not await peer.handshake() or rec.handler is None:
                return ctx.fail("C16.handshake_extension_response_invalid" if (peer.error or "").startswith("extension response invalid")
                                else "C16.handshake_failed", {"error": peer.error})
            h = rec.handler
            side = Side("server", peer.stream, peer.poll, lambda: rec.count("close"), lambda: next(e[1:] for e in rec.events if e[0] == "close"),
                        lambda t: h.write_message(t), lambda d: h.ping(d), lambda c, r: h.close(c, r))
            enc = H.RefEncoder("client")
        else:
            kw = {"ping_interval": I}
            if case["timeout"] is not None:
                kw["ping_timeout"] = case["timeout"]
            cl = H.ClientSide(callback_mode=True, **kw)
            peer = H.RefServer(cl)
            if await peer.read_request() is None or not await peer.accept():
                return ctx.fail("C16.handshake_failed", {})
            conn = cl.connect_future.result()
            side = Side("client", cl.stream, peer.poll, lambda: sum(1 for m in cl.received if m is None),
                        cl.reported_close,
                        lambda t: conn.write_message(t), lambda d: conn.ping(d), lambda c, r: conn.close(c, r))
            enc = H.RefEncoder("server")
        peer.decoder.control_after_close_ok = True
        t_start = loop.time()
        n_pings = 0

        def pings_seen():
            return sum(1 for e in peer.poll().events if e[0] == "ping")

        async def expect_ping(at, step):
            """Advance to `at`: exactly one new ping must be on the wire then, none before."""
            nonlocal n_pings
            if at - EPS > loop.time():
                await peer.advance(at - EPS - loop.time())
                if pings_seen() != n_pings:
                    ctx.fail("C16.ping_too_early", {"step": step, "at": at - t_start, "role": role})
            if at > loop.time():
                await peer.advance(at - loop.time())
            if pings_seen() != n_pings + 1:
                ctx.fail("C16.ping_not_sent_on_schedule", {"step": step, "at": at - t_start, "seen": pings_seen(), "want": n_pings + 1, "role": role})
            n_pings += 1

        timed_out = False
        next_ping = t_start + I
        for step, how in enumerate(case["rounds"]):
            pong = enc.frame(wsref.OP_PONG, b"")
            if how == "unsolicited_before":
                if next_ping - EPS > loop.time():
                    # a pong that arrives just before the ping is sent must not count for that ping
                    await peer.advance(next_ping - EPS - loop.time())
                    await peer.send(pong)
                    labels.add("pong_unsolicited_before_ping")
                else:
                    how = "never"
            await expect_ping(next_ping, step)
            P = loop.time()
            deadline = P + T
            labels.add("pong_" + how)
            either = False
            if T == 0:
                on_time = True          # documented: a timeout of 0 disables the check
            elif how == "early":
                await peer.send(pong)
                on_time = True
            elif how == "half":
                await peer.advance(T / 2)
                await peer.send(pong)
                on_time = True
            elif how == "just_before":
                await peer.advance(T - EPS)
                await peer.send(pong)
                on_time = True
            elif how == "at_deadline":
                await peer.advance(deadline - loop.time())
                await peer.send(pong)
                on_time, either = False, True
            elif how == "just_after":
                await peer.advance(deadline + EPS - loop.time())
                await peer.send(pong)
                on_time = False
            else:
                on_time = False
            if T > 0 and how in ("just_before", "at_deadline", "just_after"):
                out["nontrivial"] = True
                labels.add("pong_within_one_step_of_deadline")
            if loop.time() < deadline:
                await peer.advance(deadline - loop.time())
            now = loop.time()
            if not check_wire(ctx, side, step, how, now, labels, "advance"):
                return
            if either:
                labels.add("either_pong_at_deadline")
                timed_out = side.sent_close is not None
            elif on_time:
                if side.sent_close is not None or side.stream.closed():
                    ctx.fail("C16.ping_timeout_despite_pong", {"step": step, "how": how, "T": T, "I": I, "role": role})
                    return
            else:
                if side.sent_close is None:
                    ctx.fail("C16.ping_timeout_not_enforced", {"step": step, "how": how, "T": T, "I": I, "role": role, "closed": side.stream.closed()})
                    return
                timed_out = True
            if timed_out:
                side.ping_closed = True
                labels.add("ping_timed_out")
                break
            check_state(ctx, side, step, how, now)
            next_ping = max(P + I, deadline)

        # ---- ending
        ending = case["ending"]
        labels.add("ending_" + ending + ("_after_timeout" if timed_out else ""))
        sent_at = side.sent_close[2] if side.sent_close else None
        if ending == "local_close" and not timed_out:
            side.local_closed, side.local_args = True, (1001, "bye")
            side.close_fn(1001, "bye")
            await peer.settle()
            check_wire(ctx, side, "end", ending, loop.time(), labels, "local")
            n = pings_seen()
            await peer.advance(4.0)
            if pings_seen() != n:
                ctx.fail("C16.ping_after_close_frame", {"role": role})
        if ending == "write_then_silent":
            await attempt_write(ctx, side, "late", "end", labels, peer.settle)
            if not check_wire(ctx, side, "end", ending, loop.time(), labels, "other"):
                return
        if ending in ("peer_close", "peer_close_late") and not side.stream.closed():
            if ending == "peer_close_late" and side.sent_close is not None:
                await peer.advance(4.999)
            late_reason = "ok" if len(case["rounds"]) % 2 else R123
            frame = enc.frame(wsref.OP_CLOSE, wsref.close_payload(1000, late_reason))
            pre_open = not side.stream.closed()
            await peer.send(frame)
            if pre_open:
                side.peer_close = (1000, late_reason)
            check_wire(ctx, side, "end", ending, loop.time(), labels, "delivery")
        elif ending == "disconnect" and not side.stream.closed():
            if side.sent_close is not None:
                labels.add("disconnect_between_close_frames")
                out["nontrivial"] = True
            side.stream.feed_eof()
            side.eof = True
            await peer.settle()
        check_state(ctx, side, "end", ending, loop.time())
        if not side.stream.closed():
            if side.sent_close is not None:
                await peer.advance(side.sent_close[2] + 5 + EPS - loop.time())
                labels.add("ended_by_closing_timeout")
            else:
                side.stream.feed_eof()
                side.eof = True
                await peer.settle()
            check_wire(ctx, side, "end2", ending, loop.time(), labels, "other")
            check_state(ctx, side, "end2", ending, loop.time())
        await final_checks(ctx, side, peer.advance, loop, labels)
        H.teardown(side.stream)
        await vtime.settle(pump=side.stream.pump_once)

    with LogCapture() as logs, det_urandom(b"c16g"):
        vtime.run(scenario)
    errs = [r for r in logs.records if r[1] >= 40]
    if errs:
        ctx.fail("C16.error_logged", {"logs": errs[:2], "role": role})
    ctx.note(case, labels, out["nontrivial"])


def goodbye_grid():
    """Deterministic: the server is busy in an unfinished on_message when the peer sends its close frame and
    hangs up (FIN) in one burst; on_message finishes afterwards.  Every segmentation of the busy message x every
    close payload x (nothing | a second message | an application write | a release) in between."""
    for segs in ([], [6], [2, 4], [1], [6, 1], [2]):
        for pc in PEER_CLOSE:
            for extra in ([], [("peer_msg", "hi", [6])], [("write", "w")], [("release",)]):
                for text in (None, "x"):
                    yield {"role": "server", "async_on_message": True, "callback_mode": True, "bad_reason": False,
                           "ops": [("peer_msg", "héllo", segs)] + extra + [("burst", text, pc, [], True), ("release",)]}


def unread_grid():
    """Deterministic: future-style client whose application has NOT read 0..3 received messages when the close is
    processed, x the ways a connection ends; the application reads afterwards (end of history) and must get the
    messages in order and then exactly one None, with the peer's code/reason."""
    endings = [
        [("peer_close", (1000, "bye"), [])],
        [("eof", "fin", 0)],
        [("burst", None, (1001, "näher"), [], True)],
        [("burst", "last", (1000, None), [], True)],
        [("local_close", (1000, None)), ("peer_close", (1000, R123), [])],
        [("local_close", (None, None)), ("advance", 5.000001)],
        [("release",), ("peer_close", (3000, "x"), [])],
        [("peer_close", (1000, "bye"), []), ("release",), ("release",)],
    ]
    for unread in (0, 1, 2, 3):
        for ending in endings:
            yield {"role": "client", "async_on_message": False, "callback_mode": False, "lazy_reads": True, "bad_reason": False,
                   "ops": [("peer_msg", "m%d" % i, [6] if i % 2 else []) for i in range(unread)] + ending}


def compressed_then_control_grid():
    """Deterministic: permessage-deflate negotiated, the peer sends a COMPRESSED text message and right after it a
    control frame with a payload -- ping (1 / 125 bytes, must come back unchanged) and/or close with code + reason (0, 3,
    123 bytes; must be echoed and reported) -- both roles, both client styles; also once without deflate for contrast."""
    controls = [
        [("peer_ping", b"p"), ("peer_close", (1000, "bye"), [])],
        [("peer_ping", b"p" * 125), ("peer_close", (None, None), [])],
        [("peer_close", (1001, "näher"), [])],
        [("peer_close", (1000, R123), [2])],
        [("peer_close", (4000, ""), [])],
        [("burst", "x" * 200, (3000, R123_MULTIBYTE), [], True)],
        [("write", "reply"), ("peer_ping", b"\x00\xff"), ("peer_close", (3001, "r" * 100), [])],
    ]
    for role in ("server", "client"):
        for cb in (True, False):
            for deflate in (True, False):
                for msgs in (["héllo"], ["héllo", "x" * 200]):
                    for ctl in controls:
                        yield {"role": role, "async_on_message": False, "callback_mode": cb, "lazy_reads": False, "deflate": deflate,
                               "bad_reason": False, "ops": [("peer_msg", t, []) for t in msgs] + ctl}


PARTS = {"ref": run_ref, "pair": run_pair, "ping": run_ping, "goodbye_grid": run_ref, "unread_grid": run_ref,
         "compressed_then_control_grid": run_ref}


def main(ctx):
    ctx.run_replays(PARTS)
    ctx.enumerate(goodbye_grid(), run_ref, name="goodbye_grid")
    ctx.enumerate(unread_grid(), run_ref, name="unread_grid")
    ctx.enumerate(compressed_then_control_grid(), run_ref, name="compressed_then_control_grid")
    ctx.explore(ref_case_s, run_ref, ctx.n(2000, 14000), name="ref")
    ctx.explore(pair_case_s, run_pair, ctx.n(1200, 10000), name="pair")
    ctx.explore(ping_case_s, run_ping, ctx.n(800, 6000), name="ping")
