"""C28 — Framework-generated redirects never point to another site.

Domain: request targets built as ``(/ | \\ | %2f | %5c | %2F){0,4}`` + host-like segment (``evil.com``,
``evil.com:80``, ``@evil.com``, ``user@evil.com`` …) + further segments + 0..3 trailing slashes + optional
query (``?next=//x``), sent as GET/HEAD (sometimes POST) to real ``tornado.web.Application`` objects on
``HTTPServer.handle_stream``: handlers decorated with ``@removeslash`` / ``@addslash`` behind the catch-all
patterns ``.*``, ``/(.*)``, ``//.*``; ``StaticFileHandler`` mounts with ``default_filename`` at ``/(.*)``,
``/static/(.*)`` and ``/+(.*)`` over a real directory tree whose directory names are the host-like
segments; ``@authenticated`` handlers with a relative, an absolute and a query-carrying ``login_url``.

Oracle: the response is read by the strict reader; for every 3xx the ``Location`` value is classified by
an independent WHATWG-style classifier (what a browser does: strip C0/space, drop TAB/LF/CR, a leading
``scheme:`` is scheme-qualified, two leading characters out of ``/`` ``\\`` are protocol-relative):
* slash decorators and static-directory redirects: Location must be *path-absolute* (one ``/`` followed
  by neither ``/`` nor ``\\``), never scheme-qualified or protocol-relative;
* documented behaviour of the decorators for ordinary paths (one leading slash): ``@removeslash`` on a
  path ending in ``/`` answers 301 whose Location path == path without its trailing slashes; ``@addslash`` on
  a path not ending in ``/`` and a static directory request without trailing slash: Location path == path +
  ``/``; the query string may be carried over unchanged or left out (not part of the statement);
* ``@authenticated``: 302 whose Location is exactly the configured login_url when that carries a query,
  else login_url, optionally followed by ``?next=`` + one well-formed percent-encoded value (its content is
  not part of the statement and only labelled).
The request version is a generated dimension for every redirect kind: HTTP/1.1 and HTTP/1.0, with the
regular Host header, without one (1.0), with ``Host: evil.example`` and with ``Connection: keep-alive``.
EITHER (labelled only): request targets that are not in origin-form (do not start with ``/``): HTTP gives
them no path; only "well-formed response, no crash" is asserted.  Non-GET/HEAD methods: no redirect expected.

Already repaired (F6, commit 7057ad1): ``GET //evil.com/`` through ``@removeslash`` gave
``Location: //evil.com`` (``@addslash`` symmetric) — replays/C28/F06-*.json fail on 59274db and pass now.

Open finding on the current tree: C28.offsite_location.slashes_then_backslash — ``GET /\\evil.com`` is
redirected to ``Location: /\\evil.com/`` which browsers read as ``//evil.com/`` (findings_inbox/
C28-slash-backslash-redirect.md; with the proposed patch the check is quiet without exclusion).

Sensitivity (scratch copies, quick tier, seed 1):
  * pre-fix snapshot 59274db                                              -> caught (3 F06 replays + exploration)
  * web.py validate_absolute_path: startswith("//") guard removed         -> caught (offsite_location //evil.com/ via static_multi)
  * web.py removeslash rstrip("/") -> strip("/")                          -> caught (offsite_location kind=relative / redirect_target_differs)
  * web.py addslash: collapse of leading slashes removed (= F6 reverted)  -> caught (offsite_location //evil.com/)
  * web.py authenticated: next not url-encoded                            -> caught (login_redirect_target)
  * web.py addslash drops the query                                       -> caught (redirect_target_differs)
  * web.py authenticated: login url taken from the ?next= argument        -> caught (login_redirect_target)
  * web.py addslash: collapse "/" + uri.lstrip("/\\") -> "/" + uri.lstrip("/").lstrip("\\") (GET /\\/evil.com ->
    Location: //evil.com/)  -> caught at seeds 1,2,3 by the deterministic "grid" part; the symmetric removeslash
    mutant and a static guard that only tests "//" are caught there, too.  Missed at some seeds before: leads mixing
    slash, backslash, slash were left to sampling.  The grid enumerates every lead of length <= 5 over
    {'/', '\\', '%2f', '%5c'} (1364 leads) in front of evil.com through @removeslash/@addslash behind every pattern
    that can match and through both static mounts (the static tree has a directory for every lead): 4948 cases, ~3 s.
  * web.py redirect() makes Location absolute for HTTP/1.0 clients (urljoin(full_url(), url)): every path-derived
    redirect becomes "http://<Host header>/..." -> caught at seeds 1,2,3 (offsite_location kind=scheme).  Missed
    before: all requests were HTTP/1.1 with the same Host.  The request version is now a generated dimension (HTTP/1.1,
    HTTP/1.0, 1.0 without Host, 1.0 and 1.1 with "Host: evil.example", 1.0 keep-alive) in the exploration and, for
    every redirect kind (both decorators x patterns, three static mounts, three login kinds), in the grid.
Corrections:
  * the exact-target clause compared the whole Location, i.e. it pinned whether the query string is carried over
    (required for the decorators, forbidden for the static-directory redirect).  Neither the statement nor the
    docstrings fix that; a tree whose static redirect keeps the query (/dir?x=1 -> /dir/?x=1) was reported as
    C28.redirect_target_differs.  Now only the PATH component must equal the expected path; the query may be absent
    or equal to the request's query for all three kinds (labels query_carried / query_dropped), anything else is
    C28.redirect_query_differs.  The off-site clauses are unchanged (only the start of Location matters).
  * the check used to demand next == the exact request URI (relative login) / full URL (absolute login).  The
    statement only says that @authenticated redirects "only to the configured login URL"; a tree that collapses the
    leading "//" or "/\\" of the URI before putting it into next= (arguably safer) was reported as
    C28.login_redirect_next.  Now: Location minus the appended next parameter must equal the login URL exactly
    (with its own query when it has one), next must be a single well-formed percent-encoded parameter; its content is
    only labelled (next_exact_uri / next_leading_slashes_collapsed / next_full_url / next_other).
Not implemented from DESIGN: "redirect target == request path +- one slash" is asserted only for paths with a
single leading slash (the repaired code deliberately collapses leading slashes; the statement only demands a
same-host path there).  Raw non-ASCII bytes in the target are not generated (not valid in a request-target;
redirect() re-encodes them as UTF-8, which changes the bytes but not the host).
"""
import atexit
import os
import re
import shutil
import tempfile
import urllib.parse

from hypothesis import strategies as st

import tornado.web

from vlib import webutil_c2 as wu

PROPERTY = "C28"
READY = True
RULE = (
    "Hypothesis: (route of 12 apps, method, request target = <=4 slash-like prefixes + host-like segment + <=2 "
    "segments + <=3 trailing slashes + optional query); non-trivial = the target starts with >=2 slash-like "
    "characters or its first segment is host-like; plus a deterministic grid: all 1364 lead sequences of "
    "length <= 5 over {/, \\, %2f, %5c} x decorators x patterns x static mounts; distinct = SHA-1 of (route, method, target)"
)
ASSUMPTIONS = [
    "independent WHATWG-style Location classifier in the check (backslash counts as slash, as in browsers)",
    "a 'request path' is an origin-form target (starts with '/'); other target forms are EITHER",
    "static tree built in a private temporary directory (removed at exit)",
]
TECHNIQUE = "property-based testing (Hypothesis): real routing + handlers on an in-memory server, independent URL classifier"
LEVEL_TEXT = "random adversarial request targets against 12 route configurations; bounded by the generator's alphabet of prefixes and segments"
SHARDS = 16

HOST = "test.example"  # the Host header webutil_c2.request_bytes sends
HOSTLIKE = ["evil.com", "evil.com:80", "@evil.com", "user@evil.com", "evil.com.", "[::1]"]
PLAIN = ["d", "sub", "x", "static", "a.b", "%C3%A9"]  # raw non-ASCII bytes are not valid in a request-target
SLASHLIKE = ["/", "\\", "%2f", "%5c", "%2F", "%5C"]

# --------------------------------------------------------------------------- static tree
ROOT = tempfile.mkdtemp(prefix="c28-static-")
atexit.register(shutil.rmtree, ROOT, True)
for _d in HOSTLIKE + ["d", "x", "\\evil.com", "static"]:
    os.makedirs(os.path.join(ROOT, _d, "sub"), exist_ok=True)
    with open(os.path.join(ROOT, _d, "index.html"), "w") as _f:
        _f.write("index of " + _d)
with open(os.path.join(ROOT, "index.html"), "w") as _f:
    _f.write("root index")


# ---- deterministic grid of lead sequences (see grid_cases); the static tree gets a directory for every
# lead so that the directory redirect of StaticFileHandler is reachable behind each of them
GRID_ALPHABET = ["/", "\\", "%2f", "%5c"]
GRID_HOST = "evil.com"


def grid_leads(maxlen=5):
    import itertools
    for n in range(1, maxlen + 1):
        for seq in itertools.product(GRID_ALPHABET, repeat=n):
            yield "".join(seq)


for _lead in grid_leads():
    _dec = _lead.replace("%2f", "/").replace("%5c", "\\")
    for _rel in {_dec.lstrip("/"), _dec[1:]}:
        if not _rel.startswith("/"):
            os.makedirs(os.path.join(ROOT, _rel + GRID_HOST), exist_ok=True)


# --------------------------------------------------------------------------- applications
class RemoveSlash(tornado.web.RequestHandler):
    @tornado.web.removeslash
    def get(self, *args):
        self.write("handler-ran")

    @tornado.web.removeslash
    def head(self, *args):
        pass

    @tornado.web.removeslash
    def post(self, *args):
        self.write("handler-ran")


class AddSlash(tornado.web.RequestHandler):
    @tornado.web.addslash
    def get(self, *args):
        self.write("handler-ran")

    @tornado.web.addslash
    def head(self, *args):
        pass

    @tornado.web.addslash
    def post(self, *args):
        self.write("handler-ran")


class Private(tornado.web.RequestHandler):
    @tornado.web.authenticated
    def get(self, *args):
        self.write("secret")

    @tornado.web.authenticated
    def head(self, *args):
        pass

    @tornado.web.authenticated
    def post(self, *args):
        self.write("secret")


LOGIN = {"auth_rel": "/login", "auth_abs": "https://sso.example/login", "auth_query": "/login?from=app&x=1"}
PATTERNS = {"any": r".*", "slash_group": r"/(.*)", "dslash": r"//.*"}
APPS = {}
for _pk, _pat in PATTERNS.items():
    APPS["rs_" + _pk] = tornado.web.Application([(_pat, RemoveSlash)])
    APPS["as_" + _pk] = tornado.web.Application([(_pat, AddSlash)])
for _k, _pat in (("static_root", r"/(.*)"), ("static_prefix", r"/static/(.*)"), ("static_multi", r"/+(.*)")):
    APPS[_k] = tornado.web.Application([(_pat, tornado.web.StaticFileHandler, {"path": ROOT, "default_filename": "index.html"})])
for _k, _url in LOGIN.items():
    APPS[_k] = tornado.web.Application([(r".*", Private)], login_url=_url)
ROUTES = sorted(APPS)


# --------------------------------------------------------------------------- independent Location classifier
def classify(loc: str) -> str:
    """scheme | protocol_relative | path_absolute | relative  (browser reading of a Location value)."""
    s = loc.strip("".join(chr(c) for c in range(0x21)))
    s = s.replace("\t", "").replace("\n", "").replace("\r", "")
    if re.match(r"[A-Za-z][A-Za-z0-9+.\-]*:", s):
        return "scheme"
    if len(s) >= 2 and s[0] in "/\\" and s[1] in "/\\":
        return "protocol_relative"
    if s[:1] in ("/", "\\"):
        return "path_absolute"
    return "relative"


# request version / Host header variants: (HTTP version, Host header value or None)
VERSIONS = {
    "1.1": ("HTTP/1.1", HOST),
    "1.0": ("HTTP/1.0", HOST),
    "1.0-nohost": ("HTTP/1.0", None),
    "1.0-evilhost": ("HTTP/1.0", "evil.example"),
    "1.1-evilhost": ("HTTP/1.1", "evil.example"),
    "1.0-keepalive": ("HTTP/1.0", HOST),
}


def build_request(method, target, ver):
    version, host = VERSIONS[ver]
    lines = [method + " " + target + " " + version]
    if host is not None:
        lines.append("Host: " + host)
    if ver == "1.0-keepalive":
        lines.append("Connection: keep-alive")
    if method in ("POST", "PUT"):
        lines.append("Content-Length: 0")
    return ("\r\n".join(lines) + "\r\n\r\n").encode("latin-1")


def evaluate(route, method, target, ver="1.1"):
    labels = {"route:" + route, "method:" + method, "request:" + ver}
    path, _, query = target.partition("?")
    o = wu.run_request(APPS[route], build_request(method, target, ver), method)
    detail = {"route": route, "method": method, "target": target, "request": ver, "outcome": o.kind, "wire": o.wire[:500]}

    def problem(clause, extra=None, sig=None):
        d = dict(detail)
        if extra:
            d.update(extra)
        return labels, (clause, d, sig or clause)

    if o.kind != "response":
        return problem("C28.no_wellformed_response", {"error": str(o.error) if o.error else None})
    if o.strict is None:
        return problem("C28.strict_reader_rejects_response", {"strict_error": o.strict_error})
    r = o.strict
    if r.code >= 500:
        return problem("C28.server_error", {"code": r.code})
    labels.add("status:%d" % r.code)
    locs = r.get_all("Location")
    origin_form = target.startswith("/")
    if not origin_form:
        labels.add("non_origin_form_target")
    lead = re.match(r"(?:/|\\|%2[fF]|%5[cC])*", path).group(0)
    if re.match(r"[/\\]{2}", path):
        labels.add("double_slashlike_prefix")
    if "\\" in lead:
        labels.add("backslash")
    if not (300 <= r.code < 400):
        if locs:
            return problem("C28.location_on_non_redirect", {"location": locs})
        # documented redirects that must happen (ordinary origin-form paths only)
        if origin_form and method in ("GET", "HEAD") and not path.startswith("//") and r.code == 200:
            if route.startswith("rs_") and path.endswith("/") and path.rstrip("/"):
                return problem("C28.removeslash_did_not_redirect")
            if route.startswith("as_") and not path.endswith("/"):
                return problem("C28.addslash_did_not_redirect")
        if route.startswith("auth_") and r.code == 200:
            return problem("C28.authenticated_handler_ran_without_user")
        return labels, None
    labels.add("redirect")
    if len(locs) != 1:
        return problem("C28.location_count", {"location": locs})
    loc = locs[0]
    detail["location"] = loc
    kind = classify(loc)
    labels.add("location:" + kind)

    if route.startswith("auth_"):
        login = LOGIN[route]
        labels.add({"auth_rel": "login_relative", "auth_abs": "login_absolute", "auth_query": "login_with_query"}[route])
        if r.code != 302:
            return problem("C28.login_redirect_status", {"code": r.code})
        if "?" in login:
            if loc != login:
                return problem("C28.login_redirect_target")
            return labels, None
        # The statement: "redirects only to the configured login URL".  Everything of Location except the
        # ``next`` parameter Tornado may append must be exactly that URL; about the *content* of next the
        # statement says nothing, so it only has to be one well-formed query parameter.
        if loc == login:
            labels.add("login_without_next")
            return labels, None
        prefix = login + "?next="
        if not loc.startswith(prefix):
            return problem("C28.login_redirect_target")
        value = loc[len(prefix):]
        if not re.fullmatch(r"(?:[A-Za-z0-9_.~+*\-]|%[0-9A-Fa-f]{2})*", value):
            return problem("C28.login_redirect_next_malformed", {"value": value})
        try:
            nxt = urllib.parse.unquote_plus(value, encoding="utf-8", errors="strict")
        except UnicodeDecodeError:
            nxt = None
        # EITHER (labelled only): which form of the original URL next carries
        collapsed = "/" + target.lstrip("/\\") if re.match(r"[/\\]", target) else target
        full = "http://" + HOST + target
        if nxt == target:
            labels.add("next_exact_uri")
        elif nxt == collapsed:
            labels.add("next_leading_slashes_collapsed")
        elif nxt == full:
            labels.add("next_full_url")
        else:
            labels.add("next_other")
        return labels, None

    # ---- redirects derived from the request path
    if route.startswith("rs_"):
        labels.add("removeslash_redirect")
        if "double_slashlike_prefix" in labels:
            labels.add("double_slash_removeslash")
    elif route.startswith("as_"):
        labels.add("addslash_redirect")
        if "double_slashlike_prefix" in labels:
            labels.add("double_slash_addslash")
    else:
        labels.add("static_dir")
    if not origin_form:
        return labels, None  # EITHER: not a request path in the HTTP sense
    if kind != "path_absolute" or loc[:1] != "/":
        sig = None
        if kind == "protocol_relative" and re.match(r"/+\\", path):
            sig = "C28.offsite_location.slashes_then_backslash"
        return problem("C28.offsite_location", {"kind": kind}, sig)
    if r.code != 301:
        return problem("C28.path_redirect_status", {"code": r.code})
    # documented exact target for ordinary paths (exactly one leading slash)
    if not re.match(r"[/\\]{2}", path):
        want_path = path.rstrip("/") if route.startswith("rs_") else path + "/"
        loc_path, qmark, loc_query = loc.partition("?")
        if loc_path != want_path:
            return problem("C28.redirect_target_differs", {"want_path": want_path})
        # The statement (and the decorators' docstrings) say nothing about the query string: it may be carried
        # over unchanged or left out (EITHER, labelled); anything else would be a different target.
        if not qmark:
            labels.add("query_dropped" if query else "no_query")
        elif loc_query == query:
            labels.add("query_carried")
        else:
            return problem("C28.redirect_query_differs", {"want_query": query})
        labels.add("exact_target_checked")
    return labels, None


def run_case(ctx, case):
    route, method, target = case[:3]
    ver = case[3] if len(case) > 3 else "1.1"     # (older replay files have no version element)
    labels, prob = evaluate(route, method, target, ver)
    path = target.partition("?")[0]
    first = re.sub(r"^(?:/|\\|%2[fF]|%5[cC])*", "", path).split("/")[0]
    nontrivial = bool(re.match(r"(?:/|\\|%2[fF]|%5[cC]){2}", path)) or any(first.startswith(h) for h in HOSTLIKE)
    ctx.note(case, labels, nontrivial)
    if prob:
        clause, detail, sig = prob
        ctx.fail(clause, detail, sig=sig)


# --------------------------------------------------------------------------- generator
def _target(prefix, first, segs, trailing, query):
    t = "".join(prefix) + first
    for s in segs:
        t += "/" + s
    t += "/" * trailing
    if query is not None:
        t += "?" + query
    return t


target_s = st.builds(
    _target,
    st.one_of(st.just(["/"]), st.just(["/", "/"]), st.lists(st.sampled_from(SLASHLIKE), max_size=4),
              st.lists(st.sampled_from(["/", "/", "\\"]), min_size=1, max_size=4)),
    st.sampled_from(HOSTLIKE + HOSTLIKE + ["d", "x", "static", "", "\\evil.com"]),
    st.lists(st.sampled_from(PLAIN + HOSTLIKE[:2] + [""]), max_size=2),
    st.sampled_from([0, 0, 1, 1, 2, 3]),
    st.sampled_from([None, None, "", "next=//x", "a=1&b=%2F%2Fevil.com", "//evil.com", "x=\\"]),
)


def _fix(route, method, target, ver):
    if route == "static_prefix" and not target.startswith("/static"):
        target = "/static" + (target if target.startswith(("/", "\\", "%")) else "/" + target)
    return (route, method, target, ver)


ver_s = st.sampled_from(["1.1", "1.1", "1.1", "1.0", "1.0", "1.0-nohost", "1.0-evilhost", "1.1-evilhost", "1.0-keepalive"])
case_s = st.builds(_fix, st.sampled_from(ROUTES), st.sampled_from(["GET", "GET", "GET", "HEAD", "POST"]), target_s, ver_s)

def grid_cases():
    """Every lead sequence of length <= 5 over {'/', '\\', '%2f', '%5c'} in front of a host-like segment,
    through both decorators behind each catch-all pattern that can match it and through the static
    directory redirect (1364 leads; nothing is left to sampling for short prefixes)."""
    for lead in grid_leads():
        routes = ["any"]
        if lead.startswith("/"):
            routes.append("slash_group")
        if lead.startswith("//"):
            routes.append("dslash")
        for pk in routes:
            yield ("rs_" + pk, "GET", lead + GRID_HOST + "/")
            yield ("as_" + pk, "GET", lead + GRID_HOST)
        if lead.startswith("/"):
            yield ("rs_any", "HEAD", lead + "@evil.com//?next=//x")
            yield ("as_any", "HEAD", lead + "@evil.com?next=//x")
            yield ("static_root", "GET", lead + GRID_HOST)
            yield ("static_multi", "GET", lead + GRID_HOST)
    # every redirect kind x every request version / Host variant (ordinary and double-slash paths)
    for ver in VERSIONS:
        for lead in ("/", "//", "/\\", "/d/"):
            for pk in ("any", "slash_group"):
                yield ("rs_" + pk, "GET", lead + GRID_HOST + "/", ver)
                yield ("as_" + pk, "GET", lead + GRID_HOST + "?next=//x", ver)
                yield ("as_" + pk, "HEAD", lead + GRID_HOST, ver)
            yield ("static_root", "GET", lead + "x", ver)
            yield ("static_multi", "GET", lead + GRID_HOST, ver)
            yield ("static_prefix", "GET", "/static" + lead + "d", ver)
            for auth in ("auth_rel", "auth_abs", "auth_query"):
                yield (auth, "GET", lead + GRID_HOST + "?a=1", ver)


PARTS = {"main": run_case, "grid": run_case}


def main(ctx):
    ctx.run_replays(PARTS)
    ctx.enumerate(grid_cases(), run_case, name="grid")
    ctx.explore(case_s, run_case, ctx.n(1500, 60000), name="main")
