"""C42 — Subprocess exit is reported once with the right status.

Real children (``/bin/sh -c 'read x; exit N'`` / ``'read x; kill -s SIG $$; exit 99'``, or killed from
outside with ``os.kill``) are wrapped in ``tornado.process.Subprocess`` on a **real** asyncio loop in
the main thread (SIGCHLD handling needs it; the virtual loop is not used here).  A case is 1-4
children (exit status 0..255 or a signal from HUP/INT/KILL/TERM/USR1/PIPE; API ``set_exit_callback`` or
``wait_for_exit(raise_error=T/F)``) plus a *program*: a generated permutation of the operations
``register(i)`` and ``release(i)`` with 0-5 event-loop iterations after each.  ``release`` closes the
child's stdin (or sends the signal) and then blocks in ``os.waitid(P_PID, pid, WEXITED | WNOWAIT)``, which
returns — without sleeping and without reaping — exactly when the child is dead (the wait itself is a
``select`` on a pidfd capped at 15 s; the cap is a harness error, exit 2).  So "exit before registration"
(release < register), "exit after registration", several children released back to back and
registrations while other zombies are pending are all reached deterministically; the loop only runs
where the program says so.

Real SIGCHLD coalescing (case flag ``coalesce``): releasing children back to back does *not* coalesce —
each death still delivers its own SIGCHLD while the harness waits.  So in these cases SIGCHLD is
*blocked* in the main thread (``pthread_sigmask``) after the children are spawned; every death then
only sets the one pending bit, and unblocking after the program delivers exactly ONE SIGCHLD for all
registered children that died meanwhile.  The "everything dead was reported" clause is evaluated right
after that, before any other SIGCHLD source (the probe child is started only afterwards).  The mask is
restored in ``finally``.

Dropped references (child flag ``drop_ref``): right after registering, the harness drops every
reference to the ``Subprocess`` object (keeps pid, stdin pipe, callback record / future) and runs
``gc.collect()`` — the documented usage ``fut = Subprocess(cmd).wait_for_exit()``.  The exit must still be
reported; ``returncode`` attributes are then not observable and not checked.

Failing callbacks (child flag ``raises``, callback API): the exit callback records its call and then
raises.  Every other child must still be reported exactly once (the failing one counts as called once);
the IOLoop's "Exception in callback" log record is captured (label only), as is anything that reaches
the asyncio loop's exception handler.

Inherited dispositions: started from a background job or under ``nohup`` the check inherits SIGINT/
SIGQUIT/SIGHUP as *ignored*, which exec passes on to the shell children — they would survive the
signal the case sends and the harness would wait for their death forever.  For the duration of a case
every inherited SIG_IGN among the signals used is replaced by a no-op handler (reset to default by
exec) and restored afterwards.

Oracle.  The expected status comes from the kernel through a different interface than Tornado's:
``waitid``'s ``si_code``/``si_status`` (exited -> status, killed/dumped -> minus the signal number); if it
disagrees with what the case intended that is a harness error, not a violation.  After every child is
known dead the loop is given 25 iterations (a signal that has been delivered needs 3-4); then for every
child: the callback ran exactly once with that status; the ``wait_for_exit`` future is done, with the
status as result, or ``CalledProcessError(returncode=status)`` iff status != 0 and raise_error;
``Subprocess.returncode`` (and the wrapped ``Popen.returncode``) agree.  Then an unrelated probe child
(exit 7) is run through the same machinery: it must be reported correctly and the earlier callbacks
must not fire again (SIGCHLD bookkeeping drained, "exactly once" across a later SIGCHLD).
Only if something is still unreported after the 25 iterations the harness also grants 0.25 s of
real time before calling it a violation (this can only make the check more lenient); a child that does
not die is the runner's watchdog's business (exit 2).

Every child is killed and reaped in ``finally``; ``Subprocess.uninitialize()`` runs at the end of each
case; the loop is closed.  Parts: ``main`` (Hypothesis, 60 cases quick) and ``fixed`` (statuses
0,1,2,126,127,128,255 and all six signals with mixed timings, always run).

Limits: real OS scheduling decides when SIGCHLD is delivered relative to the release, all asserted
clauses are independent of that; core-dumping signals are not used; Windows is out of scope.

Sensitivity (quick tier, seed 1, one mutant at a time on a scratch copy):
  * ``-os.WTERMSIG(status)`` -> ``os.WTERMSIG(status)`` ................... caught (C42.callback_status)
  * ``_try_cleanup_process(self.pid)`` dropped from set_exit_callback .... caught (C42.not_reported)
  * ``_cleanup`` only looks at the first waiting pid (no coalescing) ..... caught (C42.not_reported)
  * ``_cleanup`` reaps at most ONE exited child per SIGCHLD (``any(cls._try_cleanup_process(pid) for
    pid in ...)`` short-circuiting, ``_try_cleanup_process`` returning True when it reaped) .... caught
    (C42.not_reported, by the ``coalesce`` cases — fixed and generated — at seeds 1..3, 10-18 s; the
    earlier version of this check missed it because every death delivered its own SIGCHLD)
  * ``if ret != 0 and raise_error`` -> ``if ret > 0 and raise_error`` ...... caught (C42.future_should_raise)
  * ``os.WEXITSTATUS(status)`` -> ``status`` ............................... caught (C42.callback_status)
  * ``Subprocess._waiting`` made a ``weakref.WeakValueDictionary`` (an object the caller no longer
    references drops out of the registry; SIGCHLD reaps nothing) ......... caught (C42.not_reported, by the
    ``drop_ref`` cases with exit after registration)
  * ``_cleanup`` loops over ``os.waitpid(-1, WNOHANG)`` while a registration is pending and dispatches by
    pid (a child that terminated before its own registration is reaped by the handler and its status
    dropped; the late registration never fires) .......................... caught at seeds 1..3
    (C42.not_reported, systematically by the 8 fixed "late registration behind a pending one" cases:
    all API pairs x exit/signal, and by generated programs with 5 loop iterations after a release)
  * ``_try_cleanup_process`` calls ``subproc._set_returncode(status)`` directly instead of through
    ``io_loop.add_callback`` (the user's exit callback runs inside the SIGCHLD sweep; one that raises
    aborts the sweep and the remaining children are never reported) ...... caught (C42.not_reported, by the
    ``raises`` children under a single coalesced SIGCHLD: 4 fixed cases + generated)
  * DESIGN's "callback not cleared before invocation" is equivalent for every history in the
    statement's domain (``_set_returncode`` runs once per reaped pid), so it was replaced by the above.
"""
import asyncio
import gc
import logging
import os
import select
import signal
import subprocess

from hypothesis import strategies as st

from tornado.platform.asyncio import AsyncIOLoop
from tornado.process import CalledProcessError, Subprocess

from vlib.runner import HarnessError

PROPERTY = "C42"
READY = True
RULE = (
    "Hypothesis: 1-4 real /bin/sh children (status 0..255 biased to 0,1,2,126,127,128,255, or signal "
    "HUP/INT/KILL/TERM/USR1/PIPE sent by the child itself or from outside; callback or future API; "
    "raise_error T/F), a permutation of register/release operations with 0-5 loop iterations after each, "
    "optional probe child afterwards, optional SIGCHLD blocking so that all deaths arrive as ONE SIGCHLD, "
    "optional dropping of every reference to the Subprocess after registration, optional exit callback "
    "that raises; "
    "plus 19 fixed cases covering every listed status and signal and real coalescing; "
    "non-trivial = >=2 children with different timing classes (exit before vs after registration) or a "
    "signal exit; distinct = SHA-1 of the case"
)
ASSUMPTIONS = [
    "os.waitid(WEXITED|WNOWAIT) reports a child as dead only after SIGCHLD for it has been generated, and "
    "the process is single-threaded so the signal's wakeup byte is written before waitid returns",
    "the kernel's si_code/si_status are the true exit status (independent of the waitpid status word "
    "Tornado decodes)",
    "25 loop iterations after all children are known dead are enough for a delivered SIGCHLD to be "
    "dispatched (3-4 are needed); 0.25 s of real time is granted before a verdict",
]
TECHNIQUE = "property-based testing (Hypothesis) with real child processes: generated register/release schedules, kernel waitid() as independent status oracle"
LEVEL_TEXT = (
    "60 generated schedules per quick run (2 000 thorough) over 1-4 concurrent real children plus fixed "
    "cases for statuses 0,1,2,126,127,128,255 and six signals; exit-before-registration and "
    "exit-after-registration are forced deterministically with waitid(WNOWAIT); ordering of SIGCHLD "
    "delivery inside the kernel is whatever the OS does."
)
SHARDS = 16

SIGNALS = ["HUP", "INT", "KILL", "TERM", "USR1", "PIPE"]
SETTLE_ITERS = 25
GRACE_STEPS = 10  # x 25 ms, only entered when something is still unreported
DEATH_CAP_S = 60.0  # a released child that is not dead by then is a harness problem (exit 2)
_RESET = [signal.SIGHUP, signal.SIGINT, signal.SIGQUIT, signal.SIGTERM, signal.SIGUSR1, signal.SIGUSR2]


def _noop_handler(signum, frame):
    pass


class default_dispositions_for_children:
    """A check started from a background job or under nohup inherits SIGINT/SIGQUIT/SIGHUP as *ignored*,
    and ignored signals stay ignored across exec: the shell children would survive the signal a case
    sends them.  For the duration of a case replace every inherited SIG_IGN by a no-op *handler* (caught
    signals are reset to SIG_DFL by exec; for this process the effect is still "ignore") and unblock
    them; everything is restored on exit.  (Cheaper than preexec_fn, which forces a full fork().)"""

    def __enter__(self):
        self.saved = {}
        for sig in _RESET:
            if signal.getsignal(sig) == signal.SIG_IGN:
                self.saved[sig] = signal.signal(sig, _noop_handler)
        self.mask = signal.pthread_sigmask(signal.SIG_UNBLOCK, set(_RESET) | {signal.SIGCHLD})
        return self

    def __exit__(self, *exc):
        signal.pthread_sigmask(signal.SIG_SETMASK, self.mask)
        for sig, old in self.saved.items():
            signal.signal(sig, old)
        return False


def wait_dead(pid):
    """Block — event-driven, no polling — until `pid` is dead (zombie), without reaping it; bounded by
    DEATH_CAP_S.  -> waitid result."""
    try:
        fd = os.pidfd_open(pid)
    except (AttributeError, OSError):
        fd = None
    if fd is not None:
        try:
            if not select.select([fd], [], [], DEATH_CAP_S)[0]:
                raise HarnessError("released child %d still alive after %.0fs" % (pid, DEATH_CAP_S))
        finally:
            os.close(fd)
    info = os.waitid(os.P_PID, pid, os.WEXITED | os.WNOWAIT | (os.WNOHANG if fd is not None else 0))
    if info is None:
        raise HarnessError("pidfd readable but waitid reports child %d alive" % pid)
    return info


class Child:
    def __init__(self, idx, spec):
        self.idx = idx
        self.spec = spec
        kind = spec["kind"]
        if kind[0] == "status":
            script = "read x; exit %d" % kind[1]
            self.intended = kind[1]
        else:
            self.intended = -int(getattr(signal, "SIG" + kind[1]))
            if kind[2] == "self":
                script = "read x; kill -s %s $$; exit 99" % kind[1]
            else:
                script = "read x; read y; exit 98"
        self.sub = Subprocess(["/bin/sh", "-c", script], stdin=subprocess.PIPE,
                              stdout=subprocess.DEVNULL, stderr=subprocess.DEVNULL, close_fds=True)
        self.pid = self.sub.pid
        self.stdin = self.sub.stdin  # the pipe object alone does not keep the Subprocess/Popen alive
        self.dropped = False
        self.raised_into_registration = False
        self.calls = []
        self.future = None
        self.truth = None
        self.dead = False
        self.registered = False
        self.released = False

    def register(self):
        self.registered = True
        if self.spec["api"] == "callback":
            if self.spec.get("raises"):
                try:
                    self.sub.set_exit_callback(self._failing_callback)
                except RuntimeError:
                    # the callback ran (and failed) synchronously inside the registration: the statement
                    # does not forbid that by itself, so it is only recorded
                    self.raised_into_registration = True
            else:
                self.sub.set_exit_callback(self.calls.append)
        else:
            self.future = self.sub.wait_for_exit(raise_error=self.spec["raise_error"])
        if self.spec.get("drop_ref"):
            # the documented usage `fut = Subprocess(cmd).wait_for_exit()`: the caller keeps only the
            # future (or its callback); the library's registry must keep the object alive itself
            self.sub = None
            self.dropped = True
            gc.collect()

    def _failing_callback(self, ret):
        """An application exit callback that fails: it must not keep anybody else from being notified."""
        self.calls.append(ret)
        raise RuntimeError("exit callback of child %d failed (intended by the case)" % self.idx)

    def release(self):
        self.released = True
        kind = self.spec["kind"]
        if kind[0] == "signal" and kind[2] == "external":
            os.kill(self.pid, getattr(signal, "SIG" + kind[1]))
        else:
            self.stdin.close()
        # blocks until the child is a zombie (bounded); does not reap it
        info = wait_dead(self.pid)
        self.dead = True
        if info.si_code == os.CLD_EXITED:
            self.truth = info.si_status
        elif info.si_code in (os.CLD_KILLED, os.CLD_DUMPED):
            self.truth = -info.si_status
        else:
            raise HarnessError("unexpected si_code %r" % (info.si_code,))
        if self.truth != self.intended:
            raise HarnessError("child %r ended with %r, the case intended %r" % (self.spec, self.truth, self.intended))

    def reported(self):
        if self.spec["api"] == "callback":
            return len(self.calls) >= 1
        return self.future.done()

    def destroy(self):
        try:
            if not self.dead:
                try:
                    os.kill(self.pid, signal.SIGKILL)
                except ProcessLookupError:
                    pass
            try:
                if self.stdin is not None and not self.stdin.closed:
                    self.stdin.close()
            except OSError:
                pass
            if self.sub is None or self.sub.proc.returncode is None:
                try:
                    os.waitpid(self.pid, 0)
                except ChildProcessError:
                    pass
                if self.sub is not None:
                    self.sub.proc.returncode = -999  # reaped by the harness; keeps Popen.__del__ quiet
        finally:
            Subprocess._waiting.pop(self.pid, None)
            if self.future is not None and self.future.done() and not self.future.cancelled():
                self.future.exception()  # mark retrieved


async def spin(n):
    for _ in range(n):
        await asyncio.sleep(0)


async def settle(children):
    """Bounded by loop iterations; real time is granted only to avoid a false alarm."""
    await spin(SETTLE_ITERS)
    grace = 0
    while not all(c.reported() for c in children if c.registered) and grace < GRACE_STEPS:
        grace += 1
        await asyncio.sleep(0.025)
    if grace:
        await spin(SETTLE_ITERS)
    return grace


def verify(ctx, c, where):
    """All clauses for one child whose exit is known (c.truth)."""
    want = c.truth
    d = {"child": c.idx, "spec": c.spec, "want": want, "where": where}
    if not c.reported():
        ctx.fail("C42.not_reported", dict(d, calls=c.calls, waiting=c.pid in Subprocess._waiting))
        return
    if c.spec["api"] == "callback":
        if len(c.calls) != 1:
            ctx.fail("C42.callback_count", dict(d, calls=c.calls))
        if c.calls[0] != want or isinstance(c.calls[0], bool):
            ctx.fail("C42.callback_status", dict(d, got=c.calls[0]))
    else:
        f = c.future
        if f.cancelled():
            ctx.fail("C42.future_cancelled", d)
            return
        exc = f.exception()
        if want != 0 and c.spec["raise_error"]:
            if exc is None:
                ctx.fail("C42.future_should_raise", dict(d, result=f.result()))
            elif not isinstance(exc, CalledProcessError):
                ctx.fail("C42.future_exception_type", dict(d, exc=repr(exc)))
            elif exc.returncode != want:
                ctx.fail("C42.future_exception_returncode", dict(d, got=exc.returncode))
        else:
            if exc is not None:
                ctx.fail("C42.future_should_not_raise", dict(d, exc=repr(exc)))
            elif f.result() != want:
                ctx.fail("C42.future_result", dict(d, got=f.result()))
    if c.sub is None:
        return  # reference dropped by the caller: only the callback / future are observable
    if c.sub.returncode != want:
        ctx.fail("C42.returncode", dict(d, got=c.sub.returncode))
    if c.sub.proc.returncode != want:
        ctx.fail("C42.popen_returncode", dict(d, got=c.sub.proc.returncode))


async def scenario(ctx, case, out):
    children = []
    old_mask = None
    if Subprocess._initialized:
        raise HarnessError("Subprocess left initialized by an earlier case")
    try:
        for i, spec in enumerate(case["children"]):
            children.append(Child(i, spec))
        m = len(children)
        if case.get("coalesce"):
            # Real coalescing: while SIGCHLD is blocked every death only sets the one pending bit, so
            # unblocking after the program delivers exactly ONE SIGCHLD for all children that died.
            old_mask = signal.pthread_sigmask(signal.SIG_BLOCK, {signal.SIGCHLD})
        for op, i, yields in case["program"]:
            c = children[i % m]
            if op == "register":
                if not c.registered:
                    c.register()
            else:
                if not c.released:
                    c.release()
            await spin(yields)
        for c in children:  # a program from the shrinker may have lost operations
            if not c.released:
                c.release()
            if not c.registered:
                c.register()
        if old_mask is not None:
            signal.pthread_sigmask(signal.SIG_SETMASK, old_mask)  # the single SIGCHLD is delivered here
            old_mask = None
        # No other SIGCHLD source exists until this clause has been evaluated (the probe comes later).
        out["grace"] = await settle(children)
        for c in children:
            verify(ctx, c, "after program")
        if case["probe"]:
            probe = Child(len(children), {"kind": ("status", 7), "api": case["probe"], "raise_error": False})
            children.append(probe)
            if case["probe"] == "callback":
                probe.register()
                await spin(1)
                probe.release()
            else:
                probe.release()
                probe.register()
            out["grace"] += await settle(children)
            for c in children:
                verify(ctx, c, "after probe child")
        await spin(3)
        for c in children:
            if c.spec["api"] == "callback" and len(c.calls) > 1:
                ctx.fail("C42.callback_count", {"child": c.idx, "calls": c.calls, "where": "end"})
        left = [c.pid for c in children if c.pid in Subprocess._waiting]
        if left:
            ctx.fail("C42.waiting_not_drained", {"pids": left})
    finally:
        if old_mask is not None:
            signal.pthread_sigmask(signal.SIG_SETMASK, old_mask)
        for c in children:
            c.destroy()
        Subprocess.uninitialize()


def run_case(ctx, case):
    loop = asyncio.new_event_loop()
    asyncio.set_event_loop(loop)
    io_loop = AsyncIOLoop(asyncio_loop=loop, make_current=False)
    out = {"grace": 0, "logged": [], "loop_handler": []}

    class _Capture(logging.Handler):
        def emit(self, record):
            out["logged"].append(record.getMessage()[:120])

    # a failing exit callback is logged by the IOLoop ("Exception in callback"): keep it off stderr
    app_logger = logging.getLogger("tornado.application")
    capture, saved_propagate = _Capture(), app_logger.propagate
    app_logger.addHandler(capture)
    app_logger.propagate = False
    loop.set_exception_handler(lambda _loop, context: out["loop_handler"].append(repr(context.get("exception"))[:120]))
    try:
        with default_dispositions_for_children():
            loop.run_until_complete(scenario(ctx, case, out))
    finally:
        app_logger.removeHandler(capture)
        app_logger.propagate = saved_propagate
        try:
            io_loop.close(all_fds=False)
        finally:
            if not loop.is_closed():
                loop.close()
            asyncio.set_event_loop(None)
    # classification
    m = len(case["children"])
    first = {}
    for op, i, _y in case["program"]:
        first.setdefault(i % m, op)
    timing = {i: ("before" if first.get(i, "release") == "release" else "after") for i in range(m)}
    labels = set()
    for i, spec in enumerate(case["children"]):
        labels.add("exit_%s_registration" % timing[i])
        labels.add("api_" + spec["api"])
        if spec["kind"][0] == "signal":
            labels.add("signal_exit")
            labels.add("signal_" + spec["kind"][2])
        elif spec["kind"][1] == 0:
            labels.add("status_zero")
        else:
            labels.add("status_nonzero")
        if spec["api"] == "future":
            labels.add("raise_error_true" if spec["raise_error"] else "raise_error_false")
        if spec.get("raises") and spec["api"] == "callback":
            labels.add("exit_callback_raises")
            if case.get("coalesce") and m >= 2:
                labels.add("exit_callback_raises_in_coalesced_sweep")
        if spec.get("drop_ref"):
            labels.add("subprocess_ref_dropped")
            if timing[i] == "after":
                labels.add("ref_dropped_then_exit")
    labels.add("children_%d" % m)
    # several releases with no loop iteration in between: one SIGCHLD may cover them
    run = 0
    for op, _i, y in case["program"]:
        if op == "release":
            run += 1
            if run >= 2:
                labels.add("coalesced_release")
        if y:
            run = 0
    # a child that died unregistered, the loop ran (>=3 iterations: handler dispatched) while another
    # registration was pending, and only then was it registered
    reg, rel, loop_since_death = set(), set(), {}
    for op, i, y in case["program"]:
        i %= m
        if op == "register":
            if i in loop_since_death and loop_since_death[i] >= 3 and i not in reg and any(j in reg and j not in rel for j in range(m)):
                labels.add("late_registration_after_handler_ran_with_other_pending")
            reg.add(i)
        else:
            rel.add(i)
            if i not in reg:
                loop_since_death.setdefault(i, 0)
        if y and any(j in reg and j not in rel for j in range(m)):
            for j in loop_since_death:
                if j not in reg:
                    loop_since_death[j] += y
    if case.get("coalesce"):
        labels.add("sigchld_blocked")
        n_after = sum(1 for t in timing.values() if t == "after")
        if n_after >= 2:
            labels.add("single_sigchld_for_ge2_registered_children")
    if case["probe"]:
        labels.add("probe_child")
    if out["grace"]:
        labels.add("needed_real_time_grace")
    if out["logged"]:
        labels.add("callback_exception_logged_by_ioloop")
    if out["loop_handler"]:
        labels.add("exception_reached_asyncio_loop_handler")
    mixed = len(set(timing.values())) >= 2
    if mixed:
        labels.add("mixed_timing")
    nontrivial = (m >= 2 and mixed) or any(s["kind"][0] == "signal" for s in case["children"])
    ctx.note(case, labels, nontrivial)


# ----------------------------------------------------------------------------- generators
_kind = st.one_of(
    st.tuples(st.just("status"), st.sampled_from([0, 1, 2, 126, 127, 128, 255])),
    st.tuples(st.just("status"), st.integers(0, 255)),
    st.tuples(st.just("signal"), st.sampled_from(SIGNALS), st.sampled_from(["self", "external"])),
)
_child = st.fixed_dictionaries({
    "kind": _kind,
    "api": st.sampled_from(["callback", "future"]),
    "raise_error": st.booleans(),
    "drop_ref": st.sampled_from([False, False, True]),
    "raises": st.sampled_from([False, False, False, True]),
})


@st.composite
def case_s(draw):
    children = draw(st.lists(_child, min_size=1, max_size=4))
    m = len(children)
    ops = [("register", i) for i in range(m)] + [("release", i) for i in range(m)]
    order = draw(st.permutations(ops))
    program = [(op, i, draw(st.sampled_from([0, 0, 1, 2, 5]))) for op, i in order]
    return {"children": children, "program": program, "probe": draw(st.sampled_from([None, "callback", "future"])),
            "coalesce": draw(st.booleans())}


def fixed_cases():
    def ch(kind, api, raise_error=True):
        return {"kind": kind, "api": api, "raise_error": raise_error}

    yield {"children": [ch(("status", 0), "callback"), ch(("status", 1), "future", True), ch(("status", 2), "future", False),
                        ch(("status", 126), "callback")],
           "program": [("release", 0, 0), ("register", 1, 1), ("register", 0, 0), ("release", 1, 0), ("release", 2, 0),
                       ("release", 3, 1), ("register", 2, 0), ("register", 3, 0)],
           "probe": "callback"}
    yield {"children": [ch(("status", 127), "future", True), ch(("status", 128), "callback"), ch(("status", 255), "future", True),
                        ch(("status", 0), "future", True)],
           "program": [("register", 0, 0), ("register", 1, 0), ("register", 2, 2), ("release", 2, 0), ("release", 1, 0),
                       ("release", 0, 0), ("release", 3, 2), ("register", 3, 0)],
           "probe": "future"}
    yield {"children": [ch(("signal", "HUP", "self"), "callback"), ch(("signal", "INT", "external"), "future", True),
                        ch(("signal", "KILL", "self"), "future", False)],
           "program": [("register", 0, 1), ("release", 0, 0), ("release", 1, 0), ("release", 2, 1), ("register", 1, 0),
                       ("register", 2, 0)],
           "probe": None}
    yield {"children": [ch(("signal", "TERM", "external"), "callback"), ch(("signal", "USR1", "self"), "future", True),
                        ch(("signal", "PIPE", "self"), "callback"), ch(("signal", "KILL", "external"), "future", True)],
           "program": [("release", 0, 0), ("register", 0, 0), ("register", 1, 0), ("register", 2, 0), ("register", 3, 1),
                       ("release", 3, 0), ("release", 2, 0), ("release", 1, 0)],
           "probe": "callback"}


    # late registration behind a pending one: A is registered and still running; B exits while it is
    # not registered yet and the loop runs (so the SIGCHLD handler runs with A pending and B's zombie
    # around); only then is B registered.  B's status must still be there for it.  All API pairs.
    for api_a in ("callback", "future"):
        for api_b in ("callback", "future"):
            for n_b, kind_b in ((1, ("status", 42)), (2, ("signal", "TERM", "external"))):
                children = [ch(("status", 0), api_a, False)] + [ch(kind_b, api_b, False) for _ in range(n_b)]
                program = [("register", 0, 1)]
                program += [("release", j, 0) for j in range(1, n_b)] + [("release", n_b, 6)]
                program += [("register", j, 2) for j in range(1, n_b + 1)] + [("release", 0, 0)]
                yield {"children": children, "program": program, "probe": None, "coalesce": False}
    # a failing exit callback inside a sweep that covers several children (one SIGCHLD for all of them):
    # everybody else must still be notified.  The failing child is registered first / in the middle.
    for pos in (0, 1):
        for other_api in ("callback", "future"):
            children = [ch(("status", 11), other_api, False), ch(("status", 0), other_api, True), ch(("status", 3), "callback")]
            children.insert(pos, dict(ch(("status", 7), "callback"), raises=True))
            n = len(children)
            program = [("register", j, 0) for j in range(n)] + [("release", j, 0) for j in reversed(range(n))]
            yield {"children": children, "program": program, "probe": "callback", "coalesce": True}
    # the caller keeps no reference to the Subprocess objects (only callback / future)
    yield {"children": [dict(ch(("status", 5), "future", True), drop_ref=True), dict(ch(("status", 0), "callback"), drop_ref=True),
                        dict(ch(("signal", "TERM", "external"), "future", False), drop_ref=True)],
           "program": [("register", 0, 1), ("register", 1, 0), ("release", 0, 1), ("release", 2, 0), ("register", 2, 0),
                       ("release", 1, 0)],
           "probe": "future", "coalesce": False}
    # real coalescing: SIGCHLD blocked while several registered children die, then one delivery
    yield {"children": [ch(("status", 3), "callback"), ch(("status", 0), "future", True), ch(("signal", "TERM", "external"), "callback")],
           "program": [("register", 0, 1), ("register", 1, 0), ("register", 2, 1), ("release", 2, 0), ("release", 0, 0),
                       ("release", 1, 0)],
           "probe": "callback", "coalesce": True}
    yield {"children": [ch(("status", 9), "future", False), ch(("signal", "KILL", "self"), "future", True), ch(("status", 0), "callback"),
                        ch(("status", 255), "callback")],
           "program": [("release", 3, 0), ("register", 0, 0), ("register", 1, 2), ("register", 2, 0), ("release", 0, 1),
                       ("release", 1, 0), ("release", 2, 0), ("register", 3, 0)],
           "probe": None, "coalesce": True}


PARTS = {"main": run_case, "fixed": run_case}


def main(ctx):
    ctx.run_replays(PARTS)
    ctx.enumerate(fixed_cases(), run_case, name="fixed", exhaustive=False)
    ctx.explore(case_s(), run_case, ctx.n(60, 2000), name="main")
