"""C25 — Outgoing cookies are emitted exactly as set.

Domain: a history of 1..3 cookie calls made by one real ``RequestHandler`` (``set_cookie``,
``set_signed_cookie``, ``clear_cookie``) whose names / values / attributes are drawn from an alphabet with
separators (``; , = " \\`` SP), controls, DEL, latin-1 and non-latin-1 characters; attributes ``domain``,
``path`` (incl. "" / None), ``expires`` (int / float / time tuple / naive, UTC and offset-aware datetime),
``expires_days``, ``max_age`` (incl. 0 and negative), ``secure``, ``httponly``, ``samesite`` and the
deprecated mixed-case kwargs (``Domain=``, ``Path=``, ``Secure=``, ``HttpOnly=``, ``SameSite=``,
``Version=``, ``Comment=``).  The same name is often set twice and several names are set in one response.
The handler records for every call whether it raised, then finishes normally.

Oracle (dichotomy of the statement), with an independent Set-Cookie splitter (first ``;``-delimited pair
is the cookie, the rest are attributes) and a reference model written from the set_cookie docstring:
* a response must arrive (no bytes with the connection open = hang = failure of "either raises or is sent");
* exactly one ``Set-Cookie`` line per distinct name that was set successfully (last successful call wins),
  no line for any other name;
* attribute set of each line == requested set exactly: ``Path=/`` by default, ``Domain``, ``SameSite``,
  ``Max-Age`` when given, ``Expires`` == RFC 1123 date of the requested time (for ``expires_days`` and
  ``clear_cookie`` bracketed by the handler's own clock readings), ``Secure`` / ``HttpOnly`` iff truthy,
  legacy kwargs as given (``Comment`` compared after unquoting) — no other attribute, none twice;
* read-back: a second request carrying ``Cookie: name=<raw value taken from the Set-Cookie line>; ...``
  makes ``get_cookie(name)`` return the value that was set (``get_signed_cookie`` for signed cookies, ""
  for cleared ones) and ``request.cookies`` hold exactly those names.
* streaming responses (``write; flush; write; finish``, ``flush`` alone, two flushes): every cookie set
  before the first ``flush()`` is emitted exactly as set; a cookie call made after the headers have left
  cannot be emitted any more (EITHER raises or is ignored) and must not disturb the earlier ones;
* response endings: the cookies belong to whatever response is sent — after the cookie calls the handler may
  finish normally, ``raise HTTPError(401/403/409)``, call ``send_error(409/500)``, die with an uncaught
  exception, ``redirect()``, or produce an error page whose ``write_error`` override sets a cookie itself; the
  Set-Cookie lines of every successful call must be on that response (status as implied by the ending);
* warnings filter as a case dimension: with DeprecationWarning escalated to an error (Tornado's own test
  configuration) a call using a deprecated mixed-case keyword raises - and then must not be emitted either;
* histories: a case may span several requests through the same handler class / Application (pseudo-op
  ``next_request``); every request is judged on its own, so nothing a rejected call built may show up in a later
  valid call for the same name, in the same or in the next request;
* a call that raised has no effect at all: the cookies set by earlier successful calls (same name
  included) are still emitted exactly as set, and nothing of the rejected call is.
* a plain HTTP date given through the deprecated ``Expires=`` spelling (documented as accepted) is not
  refused when the same call without it is accepted; it is emitted as the ``expires`` attribute verbatim.
EITHER (labelled, not asserted): empty-string attributes (treated as "not requested"); edge whitespace in
legacy kwarg values (a reader strips it).

Findings of this check, all repaired in /repo since (their replays are regressions now):
  * C25.no_response.cookie_line_unencodable (F7)  — see findings_inbox/C07-cookie-line-unencodable-hang.md
  * C25.attributes_differ.legacy_kwarg_semicolon   — ``Domain="x; Secure"`` via a mixed-case kwarg bypasses the check
  * C25.attributes_differ.falsy_value_dropped      — ``max_age=0`` / ``expires=0`` are silently dropped

With the proposed patches (findings_inbox/C07-cookie-line-unencodable-hang.md, C25-legacy-kwarg-semicolon.md,
C25-falsy-value-dropped.md) applied to a scratch copy the check is quiet at seeds 1..5 without any exclusion.

Sensitivity (scratch copies, quick tier, seed 1):
  * web.py cookie attribute regexp without \x3b                      -> caught (attributes_differ: extra attribute)
  * web.py "del self._new_cookie[name]" of the previous morsel off   -> caught (attributes_differ: Domain of the 1st call survives)
  * web.py set_cookie path default "/" -> ""                         -> caught (attributes_differ: missing:path)
  * httputil.py _unquote_replace ignores octal escapes               -> caught (readback_value: ";" read back wrong)
  * web.py httponly only honoured together with secure               -> caught (attributes_differ: missing:httponly)
  * web.py set_cookie: exemption from the attribute validation widened from "comment" to ("comment", "expires"):
    Expires="<date>; Domain=evil.example; HttpOnly" through the deprecated spelling injects attributes   -> caught
    (attributes_differ extra:domain,httponly; "legacy" sweep + exploration).  Missed before: the legacy-kwarg
    generator knew only Domain/Path/SameSite/Version/Comment.  It now takes every key of
    http.cookies.Morsel._reserved of the running Python in display / upper / capitalised / lower spelling
    (Expires, Max-Age, Secure, HttpOnly, Version, Comment ..., 24 spellings + 2 unknown ones) x 23 payloads, and the
    enumerated "legacy" part runs each alone and on top of explicit parameters via set / signed / clear (1372 cases).
  * web.py the forbidden-character class for the deprecated Expires= keyword lost the semicolon:
    Expires="<date>; Domain=evil.example" accepted, attribute injected -> caught (attributes_differ; "legacy" and the new
    "attr_chars" part: 16 characters - ; , SP HTAB CR LF NUL US DEL NEL NBSP " \\ = % LS - at start / middle / end /
    followed by " Domain=evil.example" of every explicit attribute and every deprecated keyword spelling).
  * web.py set_cookie builds its morsel in ONE class-level SimpleCookie shared by all handlers and pops it at the end:
    a call that is refused late leaves its half-built morsel (Domain, HttpOnly ...) behind and the next valid call for
    that name - same request or a later one - is emitted with those attributes -> caught at seeds 1,2,3
    (attributes_differ in "shapes" and the exploration; additionally result_depends_on_earlier_cases from the runner's
    repeat pass).  New: late-rejected-then-valid histories for one name within a request and across requests
    (pseudo-op next_request, labels accept_after_reject_same_name / several_requests).
  * web.py the DeprecationWarning for mixed-case keyword arguments issued at the END of set_cookie, after the cookie
    was committed: with the warning escalated to an error the call raises AND its cookie is sent / replaces the earlier
    setting -> caught at seeds 1,2,3 (extra_cookie, attributes_differ).  Missed before: warnings were always ignored.
    New case dimension ("filter", "", "error", {}) = warnings.simplefilter("error", DeprecationWarning) around every
    cookie call (restored on exit; default: recorded and dropped); "shapes" runs 10 deprecated keywords x 3 apis with
    and without an earlier cookie of the same name, the exploration has an arm for it.
  * web.py the _new_cookie jar created in clear() (hasattr guards dropped): send_error() calls clear(), so every
    error response loses the cookies set before it -> caught at seeds 1,2,3 (cookie_missing_in_error_response;
    "shapes" part + the exploration's ending arm).  Missed before: every handler program finished normally.  A program
    may now end with ("end", "", kind, {}), kind in http401/http403/http409 (raise HTTPError), send_error409/500,
    uncaught (RuntimeError), redirect, write_error_cookie (HTTPError(418) with a write_error override that sets a
    cookie itself); the status implied by the ending and all Set-Cookie clauses are checked on that response.
  * web.py the block that turns _new_cookie into Set-Cookie headers moved from flush() into finish()'s
    "if not self._headers_written" section: with an explicit flush() before finish() the headers leave without the
    cookies -> caught at seeds 1,2,3 (cookie_missing_after_flush; deterministic "shapes" part + the exploration's
    streaming arm).  Missed before: the handler always finished without flushing.  Cases may now contain the pseudo-op
    ("flush", "", "w"|"", {}) = [write(b"part");] flush(); the model keeps every cookie set before the first flush
    and treats cookie calls after it as EITHER (cannot be emitted any more).
  * web.py attribute validation applied unchanged (SP forbidden) to the deprecated Expires= keyword, i.e. the
    tree before the F-C25-legacy-expires-space repair: Expires="Wed, 01 Jan 2030 00:00:00 GMT" raises   -> caught
    (valid_legacy_expires_rejected, replays/C25/legacy-expires-plain-date.json + "legacy" sweep).
  * web.py set_cookie drops the earlier same-name morsel *before* validating the new one, so a rejected
    call (caught by the application) deletes the cookie an earlier call had set      -> caught
    (rejected_call_removed_earlier_cookie: set('a','ok'); set('a', EURO SIGN)).  Missed before: what a raising call
    left behind was treated as unspecified; it is now asserted to be nothing (a dedicated generator arm produces
    accepted-then-rejected calls for one name, 17 kinds of rejection, label raise_after_accept_same_name).
"""
import calendar
import datetime
import re
import time
import warnings

from hypothesis import strategies as st

import tornado.web

from vlib import webutil_c2 as wu

PROPERTY = "C25"
READY = True
RULE = (
    "Hypothesis: 1..3 cookie calls (api of 3; name from 14 fixed names incl. case pairs, reserved and illegal "
    "ones; value = text <=6 over a separator/control/latin-1/non-latin-1 alphabet or shaped quoted strings, "
    "str or bytes; each attribute independently drawn incl. invalid ones) executed by one handler, followed by "
    "a read-back request; non-trivial = a value or attribute contains a separator, quote or non-ASCII "
    "character, or one name is set twice; one case in four is an accepted call followed by a rejected call "
    "for the same name, one in four a streaming response (cookie calls, flush(), optionally more calls / a second "
    "flush), one in five ends in an error response / redirect instead of a plain finish(); plus enumerated parts "
    "'shapes' (streaming shapes and response endings per api) and 'legacy'; distinct = SHA-1 of the op list"
)
ASSUMPTIONS = [
    "reference attribute model written from the set_cookie / clear_cookie / set_signed_cookie docstrings",
    "a browser returns the raw cookie-value of the Set-Cookie line verbatim in the Cookie header",
    "expires_days / clear_cookie expiry is checked against clock readings taken by the handler around the call "
    "(bracketing, +-1 s), never against a fixed wall-clock value",
    "CPython 3.12 http.cookies serialisation (octal quoting) is the cookie library in use",
]
TECHNIQUE = "property-based testing (Hypothesis): model-based op history + wire read-back round trip through the real server"
LEVEL_TEXT = (
    "random histories of <=3 cookie calls over a small adversarial alphabet; every documented attribute is "
    "varied; no proof beyond the sampled space (thorough: 80 k histories)"
)
SHARDS = 16

SECRET = "c25-secret"
GOOD_NAMES = ["a", "A", "b", "sid", "x.y", "a:b", "$v", "n~1"]
BAD_NAMES = ["path", "Expires", "a b", "a;b", "\xe4", "☃", "", "a=b", "a\r\nb"]
NAMES = GOOD_NAMES + BAD_NAMES
VALUE_ALPHABET = "ab1;,=\"\\ %|:\t\x7f\xe9\xff\x85☃\U0001f600"
FLAGS = ("secure", "httponly")
RESERVED = ("expires", "path", "comment", "domain", "max-age", "secure", "httponly", "version", "samesite")

DAYS = ["Mon", "Tue", "Wed", "Thu", "Fri", "Sat", "Sun"]
MONTHS = ["Jan", "Feb", "Mar", "Apr", "May", "Jun", "Jul", "Aug", "Sep", "Oct", "Nov", "Dec"]


def http_date(ts):
    t = time.gmtime(int(ts // 1))
    return "%s, %02d %s %04d %02d:%02d:%02d GMT" % (DAYS[t.tm_wday], t.tm_mday, MONTHS[t.tm_mon - 1], t.tm_year,
                                                    t.tm_hour, t.tm_min, t.tm_sec)


_DATE = re.compile(r"(Mon|Tue|Wed|Thu|Fri|Sat|Sun), (\d\d) (\w\w\w) (\d{4}) (\d\d):(\d\d):(\d\d) GMT")


def parse_http_date(s):
    m = _DATE.fullmatch(s)
    if not m or m.group(3) not in MONTHS:
        return None
    ts = calendar.timegm((int(m.group(4)), MONTHS.index(m.group(3)) + 1, int(m.group(2)), int(m.group(5)),
                          int(m.group(6)), int(m.group(7)), 0, 0, 0))
    return ts if http_date(ts) == s else None


def build_expires(spec):
    kind, ts = spec[0], spec[1]
    if kind == "num":
        return ts
    if kind == "tuple":
        return tuple(time.gmtime(ts))
    if kind == "struct":
        return time.gmtime(ts)
    if kind == "dt_naive":
        return datetime.datetime.fromtimestamp(ts, datetime.timezone.utc).replace(tzinfo=None)
    if kind == "dt_utc":
        return datetime.datetime.fromtimestamp(ts, datetime.timezone.utc)
    if kind == "dt_tz":
        return datetime.datetime.fromtimestamp(ts, datetime.timezone(datetime.timedelta(minutes=spec[2])))
    raise AssertionError(kind)


# --------------------------------------------------------------------------- the application
CUR = {}


def do_op(h, op):
    api, name, value, attrs = op
    kw = {}
    for k, v in attrs.items():
        if k == "expires":
            kw[k] = build_expires(v)
        elif k == "legacy":
            kw.update(sorted(v.items()))  # fixed order (a replay file stores the keys sorted)
        else:
            kw[k] = v
    # warnings filter of the case: by default warnings are recorded and dropped; with ("filter", "", "error", {})
    # DeprecationWarning is escalated to an error, as Tornado's own test runner does (restored on exit)
    with warnings.catch_warnings(record=True):
        if CUR.get("filter") == "error":
            warnings.simplefilter("error", DeprecationWarning)
        else:
            warnings.simplefilter("always")
        if api == "set":
            h.set_cookie(name, value, **kw)
        elif api == "signed":
            h.set_signed_cookie(name, value, **kw)
        elif api == "clear":
            h.clear_cookie(name, **kw)
        else:
            raise AssertionError(api)


class CookieHandler(tornado.web.RequestHandler):
    def get(self):
        c = CUR
        if c["phase"] == "set":
            for op in c["ops"]:
                t0 = time.time()
                if op[0] == "filter":
                    c["filter"] = op[2]
                    c["raised"].append(None)
                    c["times"].append((t0, t0))
                    continue
                if op[0] == "end":
                    # how the response ends: ("end", "", kind, {}) is the last op of a program
                    c["raised"].append(None)
                    c["times"].append((t0, time.time()))
                    c["done"] = True
                    kind = op[2]
                    if kind.startswith("http"):
                        raise tornado.web.HTTPError(int(kind[4:]))
                    if kind.startswith("send_error"):
                        self.send_error(int(kind[10:]))
                        return
                    if kind == "uncaught":
                        raise RuntimeError("c25: uncaught exception in the handler")
                    if kind == "redirect":
                        self.redirect("/next")
                        return
                    if kind == "write_error_cookie":
                        c["werr"] = True
                        raise tornado.web.HTTPError(418)
                    raise AssertionError(kind)
                if op[0] == "flush":
                    # streaming response: ("flush", "", "w"|"", {}) = [write a part,] flush() before finish()
                    if op[2]:
                        self.write(b"part")
                    self.flush()
                    c["raised"].append(None)
                    c["times"].append((t0, time.time()))
                    continue
                try:
                    do_op(self, op)
                    c["raised"].append(None)
                except Exception as e:
                    c["raised"].append(e)
                c["times"].append((t0, time.time()))
        else:
            for name, signed in c["read"]:
                c["got"].append(self.get_signed_cookie(name) if signed else self.get_cookie(name))
            c["names"] = sorted(self.request.cookies.keys())
        c["done"] = True
        self.write(b"ok")

    def write_error(self, status_code, **kwargs):
        if CUR.get("werr"):
            # an error page that itself sets a cookie
            self.set_cookie("werr", "1")
        super().write_error(status_code, **kwargs)


END_CODES = {"http403": 403, "http401": 401, "http409": 409, "send_error500": 500, "send_error409": 409,
             "uncaught": 500, "redirect": 302, "write_error_cookie": 418}

APP = tornado.web.Application([(r"/.*", CookieHandler)], cookie_secret=SECRET)


# --------------------------------------------------------------------------- reference model
def as_text(v):
    if isinstance(v, bytes):
        try:
            return v.decode("utf-8")
        except UnicodeDecodeError:
            return v.decode("latin-1")
    return v


def model_attrs(op, times):
    """Requested attributes of one successful call -> dict lower-name -> expected value:
    str (exact) | True (flag) | ("date", ts) | ("between", lo, hi) | ("comment", text)."""
    api, name, value, attrs = op
    a = dict(attrs)
    out = {}
    path = a.get("path", "/")
    if path:
        out["path"] = path
    if a.get("domain"):
        out["domain"] = a["domain"]
    if a.get("samesite"):
        out["samesite"] = a["samesite"]
    for f in FLAGS:
        if a.get(f):
            out[f] = True
    t0, t1 = times
    if api == "clear":
        d = -365.0
        out["expires"] = ("between", t0 + d * 86400 - 1, t1 + d * 86400 + 1)
    else:
        if a.get("max_age") is not None:
            out["max-age"] = str(a["max_age"])
        days = a.get("expires_days", 30 if api == "signed" else None)
        if a.get("expires") is not None:
            out["expires"] = ("date", a["expires"][1])
        elif days is not None:
            out["expires"] = ("between", t0 + days * 86400 - 1, t1 + days * 86400 + 1)
    for k, v in sorted(a.get("legacy", {}).items()):
        lk = k.lower()
        if lk in FLAGS:
            if v:
                out[lk] = True
            else:
                out.pop(lk, None)
        elif v == "":
            out.pop(lk, None)
        elif lk == "comment":
            out[lk] = ("comment", v)
        else:
            out[lk] = v
    return out


def falsy_dropped(op):
    a = op[3]
    return op[0] != "clear" and (a.get("max_age") == 0 or (a.get("expires") is not None and a["expires"][0] == "num"
                                                           and a["expires"][1] == 0))


def texts_of(op):
    """(plain texts that reach the Set-Cookie line verbatim, legacy non-Comment kwarg texts)."""
    api, name, value, attrs = op
    plain, legacy = [], []
    if api == "set":
        plain.append(as_text(value))
    for k in ("domain", "path", "samesite"):
        if isinstance(attrs.get(k), str):
            plain.append(attrs[k])
    for k, v in attrs.get("legacy", {}).items():
        if isinstance(v, str):
            (plain if k.lower() == "comment" else legacy).append(v)
    return plain, legacy


def header_safe(s):
    return all(c == "\t" or 0x20 <= ord(c) <= 0x7E or 0x80 <= ord(c) <= 0xFF for c in s)


def unencodable_class(ops, raised):
    """Input class of finding F7: a successful call whose Set-Cookie line cannot be a header value."""
    for op, r in zip(ops, raised):
        if r is not None:
            continue
        plain, legacy = texts_of(op)
        if any(wu.non_latin1(t) for t in plain + legacy):
            return True
        if any(not header_safe(t) or t.endswith((" ", "\t")) for t in legacy):
            return True
    return False


# --------------------------------------------------------------------------- the oracle
NEXT_REQUEST = ("next_request", "", "", {})


def evaluate(ops):
    """A case may span several requests through the same handler class / Application: the pseudo-op
    ("next_request", "", "", {}) ends one request and starts the next.  Every request is judged on its own."""
    if any(op[0] == "next_request" for op in ops):
        labels, segment = {"several_requests"}, []
        for op in list(ops) + [NEXT_REQUEST]:
            if op[0] != "next_request":
                segment.append(op)
                continue
            if segment:
                lab, prob = evaluate_request(segment)
                labels |= lab
                if prob:
                    return labels, prob
            segment = []
        return labels, None
    return evaluate_request(ops)


def evaluate_request(ops):
    labels = set()
    CUR.clear()
    CUR.update(phase="set", ops=ops, raised=[], times=[], done=False)
    o = wu.run_request(APP, wu.request_bytes("GET", "/"), "GET")
    raised, times = list(CUR["raised"]), list(CUR["times"])
    detail = {"ops": ops, "raised": [repr(r) for r in raised], "outcome": o.kind, "wire": o.wire[:700]}

    def problem(clause, extra=None, sig=None):
        d = dict(detail)
        if extra:
            d.update(extra)
        return labels, (clause, d, sig or clause)

    if len(raised) != len(ops):
        return problem("C25.handler_did_not_run_all_calls")
    for op, r in zip(ops, raised):
        labels.add("api:" + op[0])
        if op[0] in ("flush", "end", "filter"):
            if op[0] == "filter" and op[2] == "error":
                labels.add("warnings_as_errors")
            continue
        labels.add("raised" if r is not None else "accepted")
        if isinstance(r, Warning):
            labels.add("deprecated_kwarg_warning_raised")
        if r is not None:
            labels.add("raised:" + type(r).__name__)
            a = op[3]
            if any(isinstance(a.get(k), str) and ";" in a[k] for k in ("domain", "path", "samesite")):
                labels.add("semicolon_attr_rejected")
    # ---- a documented-valid input must not be refused: the docstring says mixed-case keyword arguments
    # "are currently accepted case-insensitively" and are handed to the Morsel, and an HTTP date is *the*
    # valid value of the expires attribute.  Narrow and differential: the value is a strict IMF-fixdate and
    # the very same call without that one keyword is accepted.
    for op, r in zip(ops, raised):
        if r is None or isinstance(r, Warning):   # (an escalated DeprecationWarning is a legitimate refusal)
            continue
        for k, v in sorted(op[3].get("legacy", {}).items()):
            if k.lower() == "expires" and isinstance(v, str) and wu.IMF_FIXDATE.fullmatch(v):
                labels.add("legacy_expires_plain_date_raised")
                rest = {kk: vv for kk, vv in op[3].items() if kk != "legacy"}
                other = {kk: vv for kk, vv in op[3]["legacy"].items() if kk != k}
                if other:
                    rest["legacy"] = other
                CUR.clear()
                CUR.update(phase="set", ops=[(op[0], op[1], op[2], rest)], raised=[], times=[], done=False)
                wu.run_request(APP, wu.request_bytes("GET", "/"), "GET")
                if CUR["raised"] == [None]:
                    return problem("C25.valid_legacy_expires_rejected",
                                   {"keyword": k, "value": v, "exception": repr(r)})
    # ---- the response must arrive
    if o.kind in ("hang", "dropped"):
        sig = "C25.no_response.cookie_line_unencodable" if unencodable_class(ops, raised) else None
        return problem("C25.no_response_" + o.kind, None, sig)
    if o.kind == "malformed":
        return problem("C25.malformed_response", {"error": str(o.error)})
    if o.strict is None:
        return problem("C25.strict_reader_rejects_response", {"strict_error": o.strict_error})
    r = o.resp
    want_body = b"part" * sum(1 for op in ops if op[0] == "flush" and op[2]) + b"ok"
    if any(op[0] == "flush" for op in ops):
        labels.add("flushed_before_finish")
    ending = next((op[2] for op in ops if op[0] == "end"), None)
    if ending is not None:
        labels.add("ending:" + ending)
    if ending is None:
        if r.code != 200 or r.body != want_body:
            return problem("C25.handler_response_changed", {"code": r.code, "body": r.body[:100]})
    elif "flushed_before_finish" in labels:
        # the headers (200) left before the error: EITHER for status/body; the cookie clauses still apply
        labels.add("error_after_flush")
    elif r.code != END_CODES[ending]:
        return problem("C25.ending_status", {"code": r.code, "want": END_CODES[ending]})

    # ---- model: last successful call per name
    model = {}
    # A call that raised must have NO effect on the response: "either that call raises or ..." leaves no
    # room for a rejected call changing what earlier, successful calls emit.
    accepted_before = set()
    rejected_before = set()
    count = {}
    flushed = False
    for op, rz, tm in zip(ops, raised, times):
        name = op[1]
        if op[0] in ("end", "filter"):
            continue
        if op[0] == "flush":
            flushed = True
            continue
        if flushed:
            # The header block left with the first flush(): a cookie call made after it cannot be emitted any
            # more (EITHER raises or is ignored).  Everything set BEFORE the first flush must be emitted.
            labels.add("cookie_call_after_flush")
            continue
        if rz is not None:
            if name in accepted_before:
                labels.add("raise_after_accept_same_name")
            rejected_before.add(name)
            continue
        if name in rejected_before:
            labels.add("accept_after_reject_same_name")
        accepted_before.add(name)
        count[name] = count.get(name, 0) + 1
        model[name] = (op, tm)
    if ending == "write_error_cookie" and not flushed:
        model["werr"] = (("set", "werr", "1", {}), (0.0, 0.0))   # set by the write_error override
    if ending is not None and model:
        labels.add("cookie_then_" + ("redirect" if ending == "redirect" else "error_response"))
    if any(n >= 2 for n in count.values()):
        labels.add("same_name_twice")
    if len(model) >= 2:
        labels.add("several_names")
    if model and "flushed_before_finish" in labels:
        labels.add("cookie_set_before_flush")

    lines = {}
    for v in r.get_all(b"set-cookie"):
        sc = wu.split_set_cookie(v.decode("latin-1"))
        if sc is None:
            return problem("C25.set_cookie_line_unreadable", {"line": v})
        name, raw, attrs = sc
        if name in lines:
            return problem("C25.duplicate_set_cookie_for_name", {"name": name})
        lines[name] = (raw, attrs, v)
    for name in lines:
        if name not in model:
            return problem("C25.extra_cookie", {"name": name})
    read = []
    for name, (op, tm) in model.items():
        if name not in lines:
            if ending is None and "raise_after_accept_same_name" in labels and any(
                    rz is not None and op2[1] == name for op2, rz in zip(ops, raised)):
                return problem("C25.rejected_call_removed_earlier_cookie", {"name": name})
            clause = "C25.cookie_missing"
            if "flushed_before_finish" in labels:
                clause = "C25.cookie_missing_after_flush"
            elif ending is not None:
                clause = "C25.cookie_missing_in_" + ("redirect" if ending == "redirect" else "error_response")
            return problem(clause, {"name": name})
        raw, attrs, line = lines[name]
        want = model_attrs(op, tm)
        got = {}
        for k, v in attrs:
            lk = k.lower()
            if lk in got:
                p = attr_problem(op, "C25.attribute_twice", {"name": name, "attr": k, "line": line}, False)
                if p:
                    return problem(*p)
            got[lk] = v
        bad = compare_attrs(want, got, labels)
        if bad:
            p = attr_problem(op, "C25.attributes_differ", {"name": name, "line": line, "why": bad, "want": repr(want)},
                             False)
            if p:
                return problem(*p)
        read.append((name, op[0] == "signed", raw, op))
        if raw.startswith('"') and op[0] == "set" and as_text(op[2]) not in ("",):
            labels.add("quoted_value")

    # ---- read back through Tornado's request cookie parser
    if read:
        cookie = "; ".join("%s=%s" % (n, raw) for n, _, raw, _ in read)
        CUR.clear()
        CUR.update(phase="read", read=[(n, s) for n, s, _, _ in read], got=[], names=None, done=False)
        o2 = wu.run_request(APP, wu.request_bytes("GET", "/", [("Cookie", cookie)]), "GET")
        if o2.kind != "response" or o2.resp.code != 200 or not CUR["done"]:
            return problem("C25.readback_request_failed", {"cookie": cookie, "outcome": o2.kind, "wire": o2.wire[:300]})
        for (name, signed, raw, op), got in zip(read, CUR["got"]):
            if op[0] == "clear":
                want = ""
            elif signed:
                want = op[2] if isinstance(op[2], bytes) else op[2].encode("utf-8")
            else:
                want = as_text(op[2])
            if got != want:
                return problem("C25.readback_value", {"name": name, "raw": raw, "got": got, "want": want})
            if raw.startswith('"') and op[0] == "set" and want != "":
                labels.add("quoted_value_roundtrip")
        if CUR["names"] != sorted(n for n, _, _, _ in read):
            return problem("C25.readback_names", {"got": CUR["names"], "cookie": cookie})
        labels.add("readback_done")
    return labels, None


def attr_problem(op, clause, detail, tainted):
    """Map an attribute mismatch to (clause, detail, sig) or None (EITHER)."""
    if tainted:
        return None
    legacy = op[3].get("legacy", {})
    if any(isinstance(v, str) and ";" in v and k.lower() != "comment" for k, v in legacy.items()):
        return clause, detail, "C25.attributes_differ.legacy_kwarg_semicolon"
    if falsy_dropped(op):
        return clause, detail, "C25.attributes_differ.falsy_value_dropped"
    return clause, detail, None


def compare_attrs(want, got, labels):
    missing = sorted(set(want) - set(got))
    if missing:
        return "missing:" + ",".join(missing)
    extra = sorted(set(got) - set(want))
    if extra:
        return "extra:" + ",".join(extra)
    for k, w in want.items():
        g = got[k]
        if w is True:
            if g is not None:
                return "flag_with_value:" + k
        elif isinstance(w, tuple) and w[0] == "date":
            if g != http_date(w[1]):
                return "expires:%r!=%r" % (g, http_date(w[1]))
        elif isinstance(w, tuple) and w[0] == "between":
            ts = parse_http_date(g or "")
            if ts is None or not (w[1] // 1 <= ts <= w[2]):
                return "expires_days:%r not in [%r,%r]" % (g, w[1], w[2])
        elif isinstance(w, tuple) and w[0] == "comment":
            if g is None or wu.cookie_unquote(g) != w[1]:
                return "comment:%r" % (g,)
        else:
            if g != w:
                if g is not None and g == w.strip(" "):
                    labels.add("legacy_kwarg_edge_whitespace")  # EITHER: a reader strips it
                    continue
                return "%s:%r!=%r" % (k, g, w)
    return None


def run_case(ctx, case):
    ops = [tuple(op) for op in case]
    labels, prob = evaluate(ops)
    nontrivial = "same_name_twice" in labels
    for op in ops:
        plain, legacy = texts_of(op)
        for t in plain + legacy + [as_text(op[2])]:
            if any(c in ";,=\"\\ " for c in t) or any(ord(c) > 0x7E for c in t):
                nontrivial = True
            if wu.non_latin1(t):
                labels.add("non_latin1")
    ctx.note(case, labels, nontrivial)
    if prob:
        clause, detail, sig = prob
        ctx.fail(clause, detail, sig=sig)


# --------------------------------------------------------------------------- generators
def _value():
    free = st.text(alphabet=VALUE_ALPHABET, max_size=6)
    shaped = st.sampled_from(["v", "", '"q"', 'a"b', "a\\b", "\\073", "a,b;c", "x=y", "a b", "ab\xe9", "☃", "%3B", "a;b",
                              '"', '""', "'q'", "a|b:c"])
    return st.one_of(free, shaped)


def _maybe_bytes(v, as_bytes):
    return v.encode("utf-8") if as_bytes else v


EXP_TS = [0, 1, 86400, 1700000000, 1700000000.5, 2000000000.25, 4102444800, 951782400]
ATTR_TEXT = {
    "domain": [None, "", "example.com", ".example.com", "a,b", "EX.com", "ex ample", "a;b", "\xe9.com", "☃.com", "a\x7fb"],
    "path": ["/", "/", "", None, "/x", "/a,b", "/a=b", "/a b", "/a;b", "/\xe9", "/☃", "/a\tb"],
    "samesite": [None, "Lax", "Strict", "None", "lax", "", "a;b", "☃", "La x"],
}
LEGACY_VALUES = ["x", "1", "ex.com", "a;b", "a; Secure", "\xe9", "☃", "a b", " x", "x ", "a\r\nb", "", "a,b", "a=b", "\x00",
                 "5", "01-Jan-2030", "Wed, 01 Jan 2030 00:00:00 GMT", "x;Domain=evil.example;HttpOnly",
                 "Wed, 01 Jan 2030 00:00:00 GMT; Domain=evil.example; HttpOnly", "1;Secure", "a\x7fb", "a\tb"]


def _legacy_keys():
    """Every attribute the cookie library knows (http.cookies.Morsel._reserved, whatever the running Python
    version defines) in the spellings that end up in **kwargs of set_cookie: the display spelling
    (Expires, Max-Age, HttpOnly ...), upper case, capitalised, and lower case where that is not an
    explicit parameter of set_cookie; plus spellings the library does not know (rejected)."""
    import http.cookies
    explicit = {"expires", "path", "domain", "secure", "httponly", "samesite", "max_age", "expires_days", "name", "value"}
    keys = []
    for low, shown in http.cookies.Morsel._reserved.items():
        for k in (shown if shown != low else low.capitalize(), low.upper(), low.capitalize(), low):
            if k not in explicit and k not in keys:
                keys.append(k)
    return keys + ["Max_Age", "Partitionedx"]


LEGACY_KEYS = _legacy_keys()


def _choices(api):
    """Flat list of (attribute, value) pairs; one draw per attribute keeps generation cheap."""
    out = [(k, v) for k, vals in ATTR_TEXT.items() for v in vals]
    out += [("secure", True), ("secure", False), ("httponly", True), ("httponly", False)] * 2
    if api != "clear":
        out += [("max_age", v) for v in (None, 0, 1, 3600, -1, 10 ** 10)]
        out += [("expires", ("num", t)) for t in EXP_TS]
        out += [("expires", (k, t)) for k in ("tuple", "struct", "dt_naive", "dt_utc") for t in (1, 86400, 1700000000, 4102444800)]
        out += [("expires", ("dt_tz", t, off)) for t in (86400, 1700000000) for off in (-480, 60, 330)]
        out += [("expires_days", v) for v in (None, 0, 1, 30, 0.5, -1, 365)] * 2
    if api == "signed":
        out += [("version", 1), ("version", 2)] * 3
    for k in LEGACY_KEYS:
        if api == "signed" and k == "version":
            continue  # `version` is set_signed_cookie's own parameter (the signing format), not a cookie attribute kwarg
        out += [("legacy", (k, v)) for v in LEGACY_VALUES]
        if k.lower() in FLAGS:
            out += [("legacy", (k, True)), ("legacy", (k, False))] * 3
    return out


def _to_attrs(pairs):
    d = {}
    for k, v in pairs:
        if k == "legacy":
            d.setdefault("legacy", {})[v[0]] = v[1]
        else:
            d[k] = v
    return d


def _attrs(api):
    return st.lists(st.sampled_from(_choices(api)), max_size=4).map(_to_attrs)


name_s = st.sampled_from(GOOD_NAMES * 3 + ["a", "a", "a", "b", "b", "A"] + BAD_NAMES)


def _op():
    def build(api):
        if api == "clear":
            return st.tuples(st.just(api), name_s, st.just(""), _attrs(api))
        if api == "signed":
            return st.tuples(st.just(api), name_s, st.one_of(_value(), st.binary(max_size=5)), _attrs(api))
        return st.tuples(st.just(api), name_s,
                         st.builds(_maybe_bytes, _value(), st.sampled_from([False, False, False, True])), _attrs(api))
    return st.one_of(build("set"), build("set"), build("set"), build("signed"), build("clear"))


GOOD_VALUES = ["ok", "1", 'x;y"z', "a,b", "\xe9"]
GOOD_ATTRS = [{}, {"domain": "example.com"}, {"path": "/x", "secure": True}, {"max_age": 5, "httponly": True},
              {"samesite": "Lax", "expires": ("num", 1700000000)}]
REJECTED = [  # (api, value, attrs): every way a call can be refused
    ("set", "\u20ac", {}), ("set", "a b", {}), ("set", "\u2603", {"domain": "example.com"}),
    ("set", "v", {"domain": "a;b"}), ("set", "v", {"domain": "\u2603.com"}), ("set", "v", {"path": "/a b"}),
    ("set", "v", {"path": "/\u2603"}), ("set", "v", {"samesite": "a;b"}), ("set", "v", {"legacy": {"Version": "x "}}),
    ("set", "v", {"legacy": {"Domain": "a; Secure"}}), ("set", "v", {"legacy": {"Version": "1\r\nX: y"}}),
    ("set", b"\xff", {}), ("signed", "v", {"domain": "\u2603.com"}), ("signed", "v", {"path": "/a;b"}),
    ("clear", "", {"domain": "\u2603.com"}), ("clear", "", {"path": "/a b"}), ("clear", "", {"expires": ("num", 5)}),
]


def _accept_then_reject():
    """An accepted call, then a rejected call for the SAME name (the handler catches the exception),
    optionally followed by / preceded by an unrelated call."""
    def build(name, api1, v1, a1, rej, other, other_first):
        first = (api1, name, "" if api1 == "clear" else v1, dict(a1))
        second = (rej[0], name, rej[1], dict(rej[2]))
        ops = [first, second]
        if other is not None:
            ops = [other] + ops if other_first else ops + [other]
        return ops
    return st.builds(build, st.sampled_from(GOOD_NAMES), st.sampled_from(["set", "set", "signed", "clear"]),
                     st.sampled_from(GOOD_VALUES), st.sampled_from(GOOD_ATTRS), st.sampled_from(REJECTED),
                     st.one_of(st.none(), _op()), st.booleans())


FLUSH_W = ("flush", "", "w", {})      # write(b"part"); flush()
FLUSH_0 = ("flush", "", "", {})       # flush() with nothing written yet


def _streaming():
    """Cookie calls, then an explicit flush() of partial output before finish(); optionally more cookie
    calls / another flush afterwards."""
    def build(before, fl, after, fl2):
        ops = list(before) + [fl] + list(after)
        if fl2 is not None:
            ops.append(fl2)
        return ops
    return st.builds(build, st.lists(_op(), min_size=1, max_size=2), st.sampled_from([FLUSH_W, FLUSH_W, FLUSH_0]),
                     st.lists(_op(), max_size=1), st.sampled_from([None, None, FLUSH_W]))


ENDINGS = sorted(END_CODES)
# calls that are refused only late (after the cookie object has been built): whatever they built must not survive
LATE_REJECTED = [
    ("set", "\u20ac", {"domain": "example.com", "httponly": True}),
    ("set", "\u2603", {"path": "/x", "secure": True, "max_age": 7}),
    ("set", "v", {"domain": "\u2603.com", "httponly": True, "samesite": "Strict"}),
    ("set", "v", {"path": "/\u2603", "domain": "example.com", "expires": ("num", 1700000000)}),
    ("set", "v", {"secure": True, "legacy": {"Version": "x "}}),
    ("signed", "v", {"domain": "\u2603.com", "httponly": True}),
    ("clear", "", {"domain": "\u2603.com", "path": "/x"}),
]


def _reject_then_accept():
    """A rejected call, then a valid call for the SAME name - in the same request or in the next request through
    the same handler class; optionally with warnings escalated (a deprecated keyword is then refused late, too)."""
    def build(name, rej, api2, value2, attrs2, across, werr, again):
        first = (rej[0], name, rej[1], dict(rej[2]))
        if werr:
            first = ("set", name, "w", {"domain": "example.com", "legacy": {"HttpOnly": True}})
        second = (api2, name, "" if api2 == "clear" else value2, dict(attrs2))
        ops = ([FILTER_ERROR] if werr else []) + [first] + ([NEXT_REQUEST] if across else []) + [second]
        if again:
            ops += [NEXT_REQUEST, ("set", name, "third", {})]
        return ops
    return st.builds(build, st.sampled_from(GOOD_NAMES), st.sampled_from(LATE_REJECTED),
                     st.sampled_from(["set", "set", "signed", "clear"]), st.sampled_from(GOOD_VALUES),
                     st.sampled_from(GOOD_ATTRS), st.booleans(), st.sampled_from([False, False, True]), st.booleans())
FILTER_ERROR = ("filter", "", "error", {})
DEPRECATED_KW = [{"HttpOnly": True}, {"Secure": True}, {"Version": "1"}, {"Comment": "c"}, {"SameSite": "Lax"},
                 {"Domain": "example.com"}, {"Path": "/x"}, {"Expires": "Wed, 01 Jan 2030 00:00:00 GMT"}, {"Max-Age": "5"},
                 {"HTTPONLY": True, "SECURE": True}]


def _warnings_as_errors():
    """DeprecationWarning escalated to an error; calls with deprecated mixed-case keyword arguments then raise
    and must leave no trace - in particular not replace an earlier setting of the same name."""
    def build(name, first, kw, api2, tail):
        second = (api2, name, "" if api2 == "clear" else "second", {"legacy": dict(kw)})
        ops = [FILTER_ERROR] + ([("set", name, "first", {"domain": "example.com"})] if first else []) + [second]
        return ops + list(tail)
    return st.builds(build, st.sampled_from(GOOD_NAMES), st.booleans(), st.sampled_from(DEPRECATED_KW),
                     st.sampled_from(["set", "set", "signed", "clear"]), st.lists(_op(), max_size=1))


def _with_ending():
    """Cookie calls, then the response ends in something other than a plain finish()."""
    return st.builds(lambda ops, kind: list(ops) + [("end", "", kind, {})],
                     st.lists(_op(), min_size=1, max_size=2), st.sampled_from(ENDINGS))


case_s = st.one_of(st.lists(_op(), min_size=1, max_size=3), st.lists(_op(), min_size=1, max_size=3),
                   _streaming(), _accept_then_reject(), _with_ending(), _warnings_as_errors(), _reject_then_accept())


def shape_cases():
    """Deterministic response shapes: every api x {write;flush;write;finish, flush only, cookie calls on both
    sides of the flush, two flushes, same name before and after}."""
    firsts = [("set", "a", "v", {}), ("set", "sid", 'x;y"z', {"domain": "example.com", "secure": True, "max_age": 0}),
              ("signed", "a", "v", {}), ("signed", "s", b"\xff\x00", {"httponly": True, "version": 1}),
              ("clear", "a", "", {}), ("clear", "a", "", {"path": "/x", "domain": "example.com"})]
    for f in firsts:
        for fl in (FLUSH_W, FLUSH_0):
            yield [f, fl]
            yield [f, fl, FLUSH_W]
            yield [f, ("set", "b", "2", {}), fl]
            yield [f, fl, ("set", "b", "2", {})]              # b comes too late: not emitted, a is
            yield [f, fl, (f[0], f[1], "" if f[0] == "clear" else "late", {})]   # same name again after the flush
            yield [f, ("set", f[1], "\u20ac", {}), fl]        # rejected second call, then flush
            yield [fl, f]                                      # cookie only after the flush
        # response endings: the cookies belong to whatever response is sent
        for kind in ENDINGS:
            yield [f, ("end", "", kind, {})]
            yield [f, ("set", "b", "2", {"httponly": True}), ("end", "", kind, {})]
            yield [f, ("set", f[1], "\u20ac", {}), ("end", "", kind, {})]      # rejected second call, then the ending
        yield [f, FLUSH_W, ("end", "", "http403", {})]                        # error after the headers have left
    # a late-rejected call, then a valid call for the same name: same request / next request / both
    for rej in LATE_REJECTED:
        first = (rej[0], "a", rej[1], dict(rej[2]))
        for second in (("set", "a", "ok", {}), ("signed", "a", "ok", {}), ("clear", "a", "", {}),
                       ("set", "a", "ok", {"path": "/y", "samesite": "Lax"})):
            yield [first, second]
            yield [first, NEXT_REQUEST, second]
            yield [first, NEXT_REQUEST, ("set", "b", "2", {}), second, NEXT_REQUEST, second]
    yield [FILTER_ERROR, ("set", "a", "w", {"domain": "example.com", "legacy": {"HttpOnly": True}}), NEXT_REQUEST, ("set", "a", "ok", {})]
    # warnings escalated to errors: a call with a deprecated mixed-case keyword raises and must have no effect
    for kw in DEPRECATED_KW:
        for api in ("set", "signed", "clear"):
            second = (api, "a", "" if api == "clear" else "second", {"legacy": dict(kw)})
            yield [FILTER_ERROR, second]
            yield [FILTER_ERROR, ("set", "a", "first", {"domain": "example.com"}), second]
            yield [FILTER_ERROR, ("set", "a", "first", {}), second, ("set", "b", "2", {})]
            yield [("set", "a", "first", {}), second]            # same program with the default filter: accepted

def legacy_sweep():
    """Every legacy spelling of every cookie attribute x every payload, alone and on top of explicit
    parameters, through set_cookie / set_signed_cookie / clear_cookie."""
    for k in LEGACY_KEYS:
        vals = list(LEGACY_VALUES) + ([True, False] if k.lower() in FLAGS else [])
        for v in vals:
            yield [("set", "a", "v", {"legacy": {k: v}})]
            yield [("set", "a", "v", {"domain": "example.com", "secure": True, "max_age": 7, "expires": ("num", 86400),
                                      "legacy": {k: v}})]
        for v in ("x;Domain=evil.example;HttpOnly", "a b", "ok"):
            yield [("signed", "a", "v", {"legacy": {k: v}})]
            yield [("clear", "a", "", {"legacy": {k: v}})]


SWEEP_CHARS = [";", ",", " ", "\t", "\r", "\n", "\0", "\x1f", "\x7f", "\x85", "\xa0", '"', "\\", "=", "%", "\u2028"]


def attr_char_sweep():
    """';' ',' space, controls and the edge characters of the classes through EVERY cookie attribute value: the
    explicit parameters and each deprecated keyword spelling, at the start / middle / end of an otherwise valid value."""
    stems = {"expires": "Wed, 01 Jan 2030 00:00:00 GMT", "max-age": "5", "max_age": "5"}
    for c in SWEEP_CHARS:
        for make in (lambda v: c + v, lambda v: v[:2] + c + v[2:], lambda v: v + c, lambda v: v + c + " Domain=evil.example"):
            for k in ("domain", "path", "samesite"):
                yield [("set", "a", "v", {k: make({"domain": "example.com", "path": "/dir", "samesite": "Lax"}[k])})]
            yield [("clear", "a", "", {"domain": make("example.com")})]
            yield [("signed", "a", "v", {"path": make("/dir")})]
            for k in LEGACY_KEYS:
                if k.lower() in FLAGS:
                    continue
                yield [("set", "a", "v", {"legacy": {k: make(stems.get(k.lower(), "value"))}})]


PARTS = {"main": run_case, "legacy": run_case, "shapes": run_case, "attr_chars": run_case}


def main(ctx):
    ctx.run_replays(PARTS)
    ctx.enumerate(shape_cases(), run_case, name="shapes")
    ctx.enumerate(legacy_sweep(), run_case, name="legacy")
    ctx.enumerate(attr_char_sweep(), run_case, name="attr_chars")
    ctx.explore(case_s, run_case, ctx.n(1500, 80000), name="main")
