"""C35 — Queues conserve items and match their ordering discipline.

Model-based testing of operation histories on the virtual-time loop.  A case is
``{"cls": "fifo"|"lifo"|"prio", "maxsize": 0..3, "ops": [...]}``; the ops are interpreted against a real
``tornado.queues.Queue`` / ``LifoQueue`` / ``PriorityQueue`` and a sequential reference model: a container
with the class's discipline, arrival-ordered records of blocked getters / putters / joins with deadlines,
and the unfinished-task counter.  Items are unique tokens ``(priority, serial)``.  After every op - and,
unless the op is wrapped in ``("ns", op)``, again after the loop has run to quiescence - every future ever
issued and ``qsize()/empty()/full()/maxsize`` are compared with the model:

* put / put_nowait: with a live blocked getter the item goes to the *oldest* live getter (expired =
  timed-out or cancelled getters are skipped, nobody else is); otherwise it is stored if there is room;
  otherwise ``put`` blocks and ``put_nowait`` raises QueueFull with no effect;
* get / get_nowait: the *oldest* live blocked putter's item enters the queue (that put completes), then
  the item the discipline selects is returned (FIFO oldest, LIFO newest, priority smallest); with nothing
  available ``get`` blocks and ``get_nowait`` raises QueueEmpty with no effect;
* a blocked operation whose deadline passed fails with ``tornado.util.TimeoutError`` once the loop has
  run; it and a cancelled operation have no effect, ever: a timed-out put's item never appears, a
  timed-out get never consumes an item; outcomes never change; nothing completes without a cause;
* ``qsize() <= maxsize`` for bounded queues (observed after every op);
* join: completes iff the unfinished counter is zero at the call or reaches zero before the deadline
  (even if a put follows in the same loop iteration), else TimeoutError; task_done beyond the number of
  puts raises ValueError with no effect;
* end of history (conservation): the queue is drained with get_nowait - the items and their order must
  be exactly the model's (every put item is returned exactly once or was still queued), then exactly
  ``unfinished`` task_done calls succeed, every join has completed, and one more task_done raises.

Ties (EITHER, both outcomes accepted, conservation and ordering still enforced): a blocked getter/putter
whose deadline has passed on the clock but whose timer callback has not run yet (``jump`` = time passes
inside a callback, zero/past deadlines, single loop ``step``) may be served or skipped by the
complementary operation issued at that moment; if skipped it must time out and must never be served.
A join in that situation may complete or time out.  A deadline that fired at exactly the instant of the
later complementary operation is decided (timed out: skipped); the operation arriving before the clock
reaches the deadline is decided (served).

Sensitivity (quick tier, seed 1, scratch copy of /repo/tornado/queues.py; all caught):
  M1  _consume_expired is a no-op                           -> crash.InvalidStateError@concurrent.py:future_set_result_unless_cancelled, C35.qsize
  M2  __put_internal does not increment _unfinished_tasks   -> C35.task_done_raised
  M3  LifoQueue._get pops the oldest item                   -> C35.wrong_item
  M4  put_nowait hands the getter the new item and also leaves it stored -> C35.qsize
  M5  get_nowait takes its item before admitting the blocked putter's    -> C35.wrong_item (lifo/prio, maxsize>=1)
  M6  full(): `>=` -> `>`                                   -> C35.full (and over_maxsize)
  M7  task_done: `<= 0` -> `< 0`                            -> C35.extra_task_done_accepted
  M8  put does not arm the timeout of a blocked putter      -> C35.timeout_not_delivered
  M9  _consume_expired skips only putters                   -> crash.InvalidStateError..., C35.qsize
  M10 _consume_expired skips only getters                   -> crash.InvalidStateError..., C35.qsize
  M11 __put_internal does not clear the finished event      -> C35.join_completed_without_cause
  M12 locks.Event.set (behind Queue.join) drops its `if not fut.done()` guard: the task_done matching the last
      put raises InvalidStateError when a joiner was cancelled in the same loop turn, other joiners never
      complete.  Missed by the first version at seeds 1,2,3 (cancel_oldest targeted get/put only and always let
      the loop run before task_done); now caught at seeds 1,2,3 by the "joins" part and the main part
      (cancel_join op, no-settle variants, several joiners)  -> crash.InvalidStateError@locks.py:set
  M13 PriorityQueue._put appends without sifting when the item is not smaller than the heap list's LAST element
      (round-10 seed C35-10): needs >=6 items in a particular order (0,3,1,2,4,5 -> 0,1,3,2,4,5); the first
      version held <=4 items in most histories and caught it at seed 1 only.  Now caught deterministically
      (every seed) by the "order" and "order_hist" parts                      -> C35.wrong_item
"""
import itertools

from hypothesis import strategies as st

from tornado import queues

from vlib import primhist as ph
from vlib import vtime

PROPERTY = "C35"
READY = True
RULE = (
    "Hypothesis op-list histories (<=30 ops) over Queue/LifoQueue/PriorityQueue x maxsize 0..3: put(priority "
    "0..3; no/absolute/timedelta/zero/past deadline), put_nowait, get(deadline forms), get_nowait, task_done, "
    "join(deadline forms), cancel of a pending future, advance, jump (clock moves, loop does not run), single loop "
    "step, calls without settling, plus tie blocks (deadline and complementary operation at the same instant in "
    "both orders, expired waiter at the head / in the middle); plus exhaustive enumeration of all sequences of "
    "length <=L over {put, put_t1, get, get_t1, task_done, join, cancel_oldest, tick} for each class x maxsize "
    "{0,1} (L=4 quick, 6 thorough), and of all sequences of length <=L after one put over {put, task_done, join, "
    "join_t1, cancel of the oldest pending join without running the loop, jump, loop step, tick}; plus the ordering family: every permutation of 1..7 (thorough 8) distinct "
    "priorities put into each class and drained, gets interleaved at every position for all permutations of 5 and 6 "
    "(every 7th of 7; every 3rd for fifo/lifo), every {0,1,2}-sequence of length 6 and 7 (duplicates) for the priority queue, and every "
    "permutation of 6 through put()/get() futures with maxsize 0 and 3 (oracle: reference min / oldest / newest of "
    "the items present); non-trivial = (histories) a blocked getter/putter times out or is cancelled, or a "
    "complementary operation occurs while one is blocked; distinct = SHA-1 of the case"
)
ASSUMPTIONS = [
    "the sequential reference model in this module is the intended meaning of the statement",
    "a blocked putter's item enters the queue at the moment a get hands it a slot; the get then returns what the "
    "discipline selects among the stored items including that one",
    "'timed out' means the future failed with TimeoutError; a waiter whose deadline has passed on the clock "
    "while its timer callback has not run yet may be served or skipped (EITHER)",
    "cancellation = Future.cancel() on the future returned by put/get/join",
    "items are mutually comparable unique tuples; durations are multiples of 0.25 s",
]
TECHNIQUE = "property-based testing (Hypothesis) + bounded exhaustive enumeration: operation histories against a sequential reference model on a virtual clock"
LEVEL_TEXT = (
    "bounded model-based exploration: every sequence of <=4 (thorough: <=6) basic operations is checked "
    "exhaustively for the three classes with maxsize 0 and 1; richer histories (maxsize 0..3, nowait forms, all "
    "deadline forms, ties, cancellation) are sampled (1.5k quick / 100k thorough, <=30 ops); nothing is claimed "
    "beyond those lengths"
)
SHARDS = 16

PENDING = ph.PENDING
CANCELLED = ph.CANCELLED
TIMEOUT = ph.TIMEOUT
OK = "ok"
MUST = "must_complete"
EITHER = "either"
OPEN = (PENDING, MUST, EITHER)
CLASSES = {"fifo": queues.Queue, "lifo": queues.LifoQueue, "prio": queues.PriorityQueue}
GRID_PRIOS = [2, 0, 1, 3, 0, 2, 1, 3]


class Rec:
    __slots__ = ("k", "typ", "fut", "deadline", "state", "doomed", "passed", "item", "pos")

    def __init__(self, k, typ, fut, deadline, item=None):
        self.k = k
        self.typ = typ
        self.fut = fut
        self.deadline = deadline
        self.state = PENDING
        self.doomed = False
        self.passed = False
        self.item = item  # put: the item offered; get: the item received
        self.pos = None  # where in its queue the waiter stood when it expired: "head" | "middle"


class Run:
    def __init__(self, ctx, case):
        self.ctx = ctx
        self.case = case
        self.cls = case["cls"]
        self.maxsize = case["maxsize"]
        self.q = CLASSES[self.cls](maxsize=self.maxsize)
        self.items = []  # stored items in insertion order
        self.unfinished = 0
        self.recs = []
        self.serial = 0
        self.labels = {self.cls, "maxsize_%d" % self.maxsize}
        self.nontrivial = False
        self.step_no = -1
        self.put_ok = []  # every item that entered the queue
        self.got = []  # every item handed out

    # ------------------------------------------------------------------ helpers
    def fail(self, clause, **detail):
        detail["step"] = self.step_no
        detail["cls"] = self.cls
        detail["maxsize"] = self.maxsize
        detail["ops"] = list(self.case["ops"][: self.step_no + 1])[-12:]
        self.ctx.fail(clause, detail)

    def full(self):
        return self.maxsize > 0 and len(self.items) >= self.maxsize

    def store(self, item):
        self.items.append(item)
        self.unfinished += 1
        self.put_ok.append(item)

    def pop(self):
        if self.cls == "fifo":
            it = self.items.pop(0)
        elif self.cls == "lifo":
            if len(self.items) >= 2:
                self.labels.add("lifo_order")
            it = self.items.pop()
        else:
            it = min(self.items)
            if len(self.items) >= 2 and it != self.items[0] and it != self.items[-1]:
                self.labels.add("priority_order")
            elif len(self.items) >= 2 and it != self.items[0]:
                self.labels.add("priority_not_fifo")
            self.items.remove(it)
        self.got.append(it)
        return it

    def waiting(self, typ):
        return [r for r in self.recs if r.typ == typ and r.state == PENDING]

    def acceptable(self, typ):
        t = ph.now()
        A = []
        for r in self.recs:
            if r.typ != typ or r.state != PENDING or r.doomed:
                continue
            A.append(r.k)
            if not (r.deadline <= t):
                return A
        A.append(None)
        return A

    def note_deadline(self, spec):
        if spec is not None:
            self.labels.add("deadline_" + spec[0])
            if ph.is_tie_form(spec):
                self.labels.add("deadline_zero_or_past")

    def real(self, r):
        s = ph.fstate(r.fut)
        if s[0] == ph.RESULT:
            return OK
        if s[0] == ph.ERROR:
            self.fail("C35.unexpected_exception", k=r.k, typ=r.typ, exc=repr(s[1]))
            return TIMEOUT
        return s[0]

    def served(self, typ, A, who):
        """After a complementary call: which blocked waiter of `typ` was completed by it (at most one, and
        one the model accepts).  Marks expired waiters that were passed over."""
        t = ph.now()
        done = [r for r in self.recs if r.typ == typ and r.state == PENDING and ph.fstate(r.fut)[0] == ph.RESULT]
        if len(done) > 1:
            self.fail("C35.served_several_waiters", typ=typ, ks=[r.k for r in done], by=who)
        g = done[0] if done else None
        gk = g.k if g is not None else None
        if gk not in A:
            if g is None:
                self.fail("C35.live_%ster_not_served" % typ, must_serve=A[-1], by=who,
                          why="lost wakeup: a live blocked %s was not served by %s" % (typ, who))
            elif g.doomed:
                self.fail("C35.skipped_waiter_served_later", k=gk, typ=typ)
            else:
                self.fail("C35.%ster_order" % typ, served=gk, acceptable=A,
                          why="a live waiter that arrived earlier was passed over")
        for r in self.recs:
            if r.typ != typ:
                continue
            if g is not None and r.k >= g.k:
                break
            if r.state == PENDING and not r.doomed:
                r.doomed = True
                self.labels.add("due_unfired_skipped")
            elif r.state in (TIMEOUT, CANCELLED) and not r.passed:
                r.passed = True
                kind = "timed_out" if r.state == TIMEOUT else "cancelled"
                self.labels.add("expired_%ster_%s" % (typ, "in_middle" if r.pos == "middle" else "at_head"))
                self.labels.add("%s_%ster_skipped" % (kind, typ))
                if r.state == TIMEOUT and r.deadline == t:
                    self.labels.add("tie_deadline_fired_then_complement")
        if g is not None:
            self.nontrivial = True
            self.labels.add("blocked_%ster_served" % typ)
            if g.deadline <= t:
                self.labels.add("due_unfired_served")
            g.state = OK
        return g

    # ------------------------------------------------------------------ ops
    def do_put(self, prio, spec, nowait):
        item = (prio, self.serial)
        self.serial += 1
        A = self.acceptable("get")
        if any(r.typ == "get" and r.state == PENDING and r.deadline <= ph.now() for r in self.recs):
            self.labels.add("tie_due_unfired_at_complement")
        raised = None
        fut = None
        if nowait:
            try:
                self.q.put_nowait(item)
            except queues.QueueFull as e:
                raised = e
        else:
            arg, deadline = ph.timeout_arg(spec)
            self.note_deadline(spec)
            fut = self.q.put(item) if spec is None else self.q.put(item, arg)
        g = self.served("get", A, "put")
        rec = None
        if fut is not None:
            rec = Rec(len(self.recs), "put", fut, deadline, item)
        if g is not None:
            self.store(item)
            g.item = self.pop()
            res = g.fut.result()
            if res != g.item:
                self.fail("C35.getter_got_wrong_item", got=res, want=g.item)
            entered = True
        elif self.full():
            entered = False
        else:
            self.store(item)
            entered = True
        if nowait:
            if entered and raised is not None:
                self.fail("C35.put_nowait_raised_with_room", item=item, qsize=len(self.items))
            if not entered:
                self.labels.add("put_nowait_full")
                if raised is None:
                    self.fail("C35.put_nowait_accepted_when_full", item=item, maxsize=self.maxsize)
        else:
            s = self.real(rec)
            if entered:
                if s != OK:
                    self.fail("C35.put_not_completed_with_room", item=item, state=s)
                rec.state = OK
            else:
                if s == OK:
                    self.fail("C35.put_completed_when_full", item=item, maxsize=self.maxsize)
                    rec.state = OK
                self.labels.add("put_blocks")
                if self.waiting("put"):
                    self.labels.add("two_putters_blocked")
            self.recs.append(rec)

    def do_get(self, spec, nowait):
        A = self.acceptable("put")
        if any(r.typ == "put" and r.state == PENDING and r.deadline <= ph.now() for r in self.recs):
            self.labels.add("tie_due_unfired_at_complement")
        raised = None
        fut = None
        val = None
        if nowait:
            try:
                val = self.q.get_nowait()
            except queues.QueueEmpty as e:
                raised = e
        else:
            arg, deadline = ph.timeout_arg(spec)
            self.note_deadline(spec)
            fut = self.q.get() if spec is None else self.q.get(arg)
        p = self.served("put", A, "get")
        if p is not None:
            self.store(p.item)
        want = self.pop() if self.items else None
        rec = None
        if fut is not None:
            rec = Rec(len(self.recs), "get", fut, deadline)
        if nowait:
            if want is None:
                self.labels.add("get_nowait_empty")
                if raised is None:
                    self.fail("C35.get_nowait_returned_from_empty", got=val)
            elif raised is not None:
                self.fail("C35.get_nowait_raised_with_items", want=want)
            elif val != want:
                self.fail("C35.wrong_item", got=val, want=want, via="get_nowait")
        else:
            s = self.real(rec)
            if want is None:
                if s == OK:
                    self.fail("C35.get_completed_from_empty", got=rec.fut.result())
                    rec.state = OK
                self.labels.add("get_blocks")
                if self.waiting("get"):
                    self.labels.add("two_getters_blocked")
            else:
                if s != OK:
                    self.fail("C35.get_not_completed_with_items", want=want, state=s)
                elif rec.fut.result() != want:
                    self.fail("C35.wrong_item", got=rec.fut.result(), want=want, via="get")
                rec.state = OK
                rec.item = want
            self.recs.append(rec)

    def do_task_done(self):
        raised = None
        try:
            self.q.task_done()
        except ValueError as e:
            raised = e
        if self.unfinished <= 0:
            self.labels.add("extra_task_done")
            if raised is None:
                self.fail("C35.extra_task_done_accepted")
            return
        if raised is not None:
            self.fail("C35.task_done_raised", unfinished=self.unfinished)
        self.unfinished -= 1
        if self.unfinished == 0:
            t = ph.now()
            for r in self.recs:
                if r.typ == "join" and r.state == PENDING:
                    if r.deadline <= t:
                        r.state = EITHER
                        self.labels.add("tie_due_unfired_join")
                    else:
                        r.state = MUST
                    self.labels.add("join_released")

    def do_join(self, spec):
        t = ph.now()
        arg, deadline = ph.timeout_arg(spec)
        self.note_deadline(spec)
        fut = self.q.join() if spec is None else self.q.join(arg)
        r = Rec(len(self.recs), "join", fut, deadline)
        if self.unfinished == 0:
            r.state = EITHER if deadline <= t else MUST
            self.labels.add("join_immediate")
        else:
            self.labels.add("join_pending")
        self.recs.append(r)

    def do_cancel(self, r):
        if r is None:
            return None
        live = r.state in OPEN
        ok = r.fut.cancel()
        if ok != live:
            self.fail("C35.cancel_return", k=r.k, typ=r.typ, returned=ok, model_state=r.state)
        if live:
            self.labels.add("cancel_pending_" + r.typ)
            return r.k
        self.labels.add("cancel_done_future")
        return None

    def sync_op(self, op):
        kind = op[0]
        ck = None
        if kind == "put":
            self.do_put(op[1], op[2], False)
        elif kind == "put_nowait":
            self.do_put(op[1], None, True)
        elif kind == "get":
            self.do_get(op[1], False)
        elif kind == "get_nowait":
            self.do_get(None, True)
        elif kind == "task_done":
            self.do_task_done()
        elif kind == "join":
            self.do_join(op[1])
        elif kind == "cancel":
            cand = [r for r in self.recs if r.state in OPEN]
            k = op[1]
            if k >= 6 or not cand:
                r = self.recs[k % len(self.recs)] if self.recs else None
            else:
                r = cand[k % len(cand)]
            ck = self.do_cancel(r)
        elif kind == "cancel_oldest":
            cand = [r for r in self.recs if r.state == PENDING and r.typ in ("get", "put")]
            if cand:
                ck = self.do_cancel(cand[0])
        elif kind == "cancel_join":
            cand = [r for r in self.recs if r.typ == "join" and r.state in OPEN]
            if cand:
                if len(cand) >= 2:
                    self.labels.add("cancel_join_with_other_joiners")
                ck = self.do_cancel(cand[op[1] % len(cand)])
        else:
            raise ValueError(op)
        self.reconcile("none", ck)

    # ------------------------------------------------------------------ comparison
    def expire(self, r, how):
        r.state = how
        if r.typ in ("get", "put"):
            self.nontrivial = True
            earlier_live = any(x.typ == r.typ and x.state == PENDING and x.k < r.k for x in self.recs)
            r.pos = "middle" if earlier_live else "head"
            self.labels.add("%s_%s" % (r.typ, "timed_out" if how == TIMEOUT else "cancelled"))

    def reconcile(self, ran, cancelled_k=None):
        t = ph.now()
        for r in self.recs:
            s = self.real(r)
            m = r.state
            if m in (OK, TIMEOUT, CANCELLED):
                if s != m:
                    clause = "C35.outcome_changed"
                    if s == OK:
                        clause = "C35.%s_%s_took_effect" % ("timed_out" if m == TIMEOUT else m, r.typ)
                    self.fail(clause, k=r.k, typ=r.typ, was=m, now=s)
                elif m == OK and r.typ == "get" and r.fut.result() != r.item:
                    self.fail("C35.outcome_changed", k=r.k, typ=r.typ, was=r.item, now=r.fut.result())
                continue
            if s == CANCELLED:
                if r.k != cancelled_k:
                    self.fail("C35.spurious_cancel", k=r.k, typ=r.typ)
                self.expire(r, CANCELLED)
                continue
            due = r.deadline <= t
            if m == PENDING:
                if s == PENDING:
                    if ran == "settle" and due:
                        self.fail("C35.timeout_not_delivered", k=r.k, typ=r.typ, deadline_minus_now=r.deadline - t)
                elif s == OK:
                    self.fail("C35.%s_completed_without_cause" % r.typ, k=r.k,
                              result=repr(r.fut.result()))
                    r.state = OK
                    r.item = r.fut.result() if r.typ == "get" else r.item
                elif s == TIMEOUT:
                    if not due:
                        self.fail("C35.timeout_before_deadline", k=r.k, typ=r.typ, deadline_minus_now=r.deadline - t)
                    self.expire(r, TIMEOUT)
            elif m == MUST:
                if s == PENDING:
                    if ran == "settle":
                        self.fail("C35.join_lost_wakeup", k=r.k, why="unfinished reached 0 before the deadline, join pending")
                elif s == OK:
                    r.state = OK
                elif s == TIMEOUT:
                    self.fail("C35.join_timeout_although_finished", k=r.k)
                    r.state = TIMEOUT
            elif m == EITHER:
                if s == PENDING:
                    if ran == "settle":
                        self.fail("C35.join_lost_wakeup", k=r.k, why="join never settles")
                elif s in (OK, TIMEOUT):
                    r.state = s
        # container observables
        n = len(self.items)
        rq = self.q.qsize()
        if rq != n:
            self.fail("C35.qsize", real=rq, model=n, model_items=list(self.items))
        if self.maxsize > 0 and rq > self.maxsize:
            self.fail("C35.over_maxsize", real=rq, maxsize=self.maxsize)
        if self.q.empty() != (n == 0):
            self.fail("C35.empty", real=self.q.empty(), model=(n == 0))
        if self.q.full() != self.full():
            self.fail("C35.full", real=self.q.full(), model=self.full())
        if self.q.maxsize != self.maxsize:
            self.fail("C35.maxsize", real=self.q.maxsize, model=self.maxsize)

    async def run_op(self, op):
        kind = op[0]
        if kind == "ns":
            self.labels.add("no_settle")
            self.sync_op(op[1])
        elif kind == "adv":
            await vtime.advance(op[1])
            self.reconcile("settle")
        elif kind == "jump":
            ph.jump(op[1])
            self.labels.add("jump")
            self.reconcile("none")
        elif kind == "step":
            await ph.step()
            self.reconcile("step")
        else:
            self.sync_op(op)
            await vtime.settle()
            self.reconcile("settle")

    async def finish(self):
        await vtime.settle()
        self.reconcile("settle")
        self.step_no = len(self.case["ops"])
        saved = (set(self.labels), self.nontrivial)
        # conservation: drain the queue (blocked live putters are served on the way), compare items and order
        guard = 0
        while self.items or self.waiting("put"):
            self.sync_op(("get_nowait",))
            guard += 1
            if guard > 200:
                self.fail("C35.drain_does_not_terminate")
                break
        self.sync_op(("get_nowait",))  # must raise QueueEmpty
        if sorted(self.put_ok) != sorted(self.got):
            self.fail("C35.conservation", put=self.put_ok, got=self.got)
        if len(set(self.got)) != len(self.got):
            self.fail("C35.item_returned_twice", got=self.got)
        # accounting: exactly `unfinished` task_done calls succeed, then every join has completed
        for _ in range(self.unfinished):
            self.sync_op(("task_done",))
        self.sync_op(("task_done",))  # must raise ValueError
        await vtime.settle()
        self.reconcile("settle")
        left = [r.k for r in self.recs if r.typ == "join" and r.state in OPEN]
        if left:
            self.fail("C35.join_never_completed", joins=left)
        self.labels, self.nontrivial = saved
        ph.drain([r.fut for r in self.recs])
        await vtime.settle()


async def scenario(ctx, case):
    run = Run(ctx, case)
    for i, op in enumerate(case["ops"]):
        run.step_no = i
        await run.run_op(op)
    await run.finish()
    return run


def run_case(ctx, case):
    run = vtime.run(scenario, ctx, case)
    ctx.note(case, run.labels, run.nontrivial)


# ------------------------------------------------------------------------------------- strategies
POS = [0.25, 0.5, 1.0, 1.5, 2.0]
KINDS = (["put"] * 12 + ["put_t"] * 10 + ["put_nowait"] * 5 + ["get"] * 10 + ["get_t"] * 10 + ["get_nowait"] * 5
         + ["task_done"] * 8 + ["join"] * 4 + ["join_t"] * 4 + ["cancel"] * 6 + ["cancel_join"] * 3 + ["adv"] * 10 + ["jump"] * 4 + ["step"] * 3)


def _single(kind, to, k, dt, ns, prio):
    if kind == "put":
        op = ("put", prio, None)
    elif kind == "put_t":
        op = ("put", prio, to)
    elif kind == "put_nowait":
        op = ("put_nowait", prio)
    elif kind == "get":
        op = ("get", None)
    elif kind == "get_t":
        op = ("get", to)
    elif kind == "join":
        op = ("join", None)
    elif kind == "join_t":
        op = ("join", to)
    elif kind == "cancel":
        op = ("cancel", k)
    elif kind == "cancel_join":
        op = ("cancel_join", k % 3)
    elif kind in ("adv", "jump"):
        return [(kind, dt)]
    elif kind == "step":
        return [("step",)]
    else:
        op = (kind,)
    return [("ns", op)] if ns else [op]


def _tie(form, d, variant, p):
    to = (form, d)
    P = lambda i: ("put", (p + i) % 4, None)  # noqa: E731
    G = ("get", None)
    if variant == 0:
        return [("get", to), ("adv", d), P(0)]  # getter expires exactly now, then put
    if variant == 1:
        return [("get", to), P(0), ("adv", d)]  # put first, the clock reaches the deadline afterwards
    if variant == 2:
        return [("get", to), G, ("jump", d), P(0), P(1)]  # due getter, timer not yet run, put
    if variant == 3:
        return [P(0), P(3), P(1), ("put", p, to), P(2), ("adv", d), G, G]  # expired putter at the head
    if variant == 4:
        return [P(0), P(3), P(1), P(2), ("put", p, to), P(0), ("adv", d), G, G, G]  # expired putter in the middle
    if variant == 5:
        return [G, ("get", to), G, ("adv", d), P(0), P(1)]  # expired getter in the middle
    if variant == 6:
        return [("get", to), G, ("adv", d), P(0)]  # expired getter at the head
    if variant == 7:
        return [P(0), ("join", to), ("adv", d), G, ("task_done",)]  # join times out exactly, then finishes
    if variant == 8:
        return [P(0), ("join", None), ("join", to), ("ns", ("task_done",)), ("ns", P(1)), ("adv", d)]
    if variant == 9:
        return [G, G, ("cancel", 0), P(0)]  # cancelled getter at the head
    if variant == 10:
        return [P(0), P(1), P(2), ("put", p, to), ("jump", d), G]  # due putter, timer not yet run, get
    if variant == 11:
        return [P(0), P(1), P(2), P(3), P(0), ("cancel", 1), G, G]  # cancelled putter
    if variant == 12:
        return [("ns", ("get", (form, 0.0))), P(0)]  # already-due getter and put in one iteration
    if variant == 13:
        return [P(0), ("join", to), ("jump", d), ("ns", ("task_done",)), ("step",)]
    if variant == 14:  # a joiner is cancelled and the last task_done follows before the loop runs again
        return [P(0), ("join", None), ("join", None), ("join", to), ("ns", ("cancel_join", p % 3)), ("task_done",)]
    if variant == 15:  # a joiner's timer fires; the last task_done lands between the following loop iterations
        return [P(0), ("join", None), ("join", to), ("jump", d)] + [("step",)] * (1 + p % 3) + [("ns", ("task_done",)), ("step",)]
    return [P(0), P(1), ("join", None), ("ns", ("task_done",)), ("join", None), ("ns", ("cancel_join", p % 2)),
            ("ns", ("task_done",)), ("ns", P(2)), ("join", to), ("adv", d)]


single_s = st.builds(_single, st.sampled_from(KINDS), ph.some_timeout_s(), st.integers(0, 7),
                     st.sampled_from(ph.STEPS), st.sampled_from([False] * 4 + [True]), st.integers(0, 3))
tie_s = st.builds(_tie, st.sampled_from(["abs", "td"]), st.sampled_from(POS), st.integers(0, 16), st.integers(0, 3))
block_s = st.one_of(single_s, single_s, single_s, single_s, single_s, single_s, tie_s)


def _flatten(blocks):
    return [op for b in blocks for op in b][:30]


ops_s = st.one_of(st.lists(block_s, min_size=1, max_size=30), st.lists(block_s, min_size=8, max_size=30)).map(_flatten)
case_s = st.fixed_dictionaries({
    "cls": st.sampled_from(["fifo", "lifo", "prio"]),
    "maxsize": st.sampled_from([0, 1, 1, 2, 2, 3]),
    "ops": ops_s,
})

# ------------------------------------------------------------------------------------- exhaustive part
SYMBOLS = ["put", "put_t1", "get", "get_t1", "task_done", "join", "cancel_oldest", "tick"]


def _grid_ops(seq):
    ops = []
    nput = 0
    for sym in seq:
        if sym in ("put", "put_t1"):
            ops.append(("put", GRID_PRIOS[nput % len(GRID_PRIOS)], None if sym == "put" else ("abs", 1.0)))
            nput += 1
        elif sym == "get":
            ops.append(("get", None))
        elif sym == "get_t1":
            ops.append(("get", ("abs", 1.0)))
        elif sym == "join":
            ops.append(("join", None))
        elif sym == "tick":
            ops.append(("adv", 1.0))
        else:
            ops.append((sym,))
    return ops


def grid_cases(maxlen):
    for cls in ("fifo", "lifo", "prio"):
        for maxsize in (0, 1):
            for n in range(1, maxlen + 1):
                for seq in itertools.product(SYMBOLS, repeat=n):
                    yield {"cls": cls, "maxsize": maxsize, "ops": _grid_ops(seq)}


JOIN_SYMBOLS = [("put", 1, None), ("task_done",), ("join", None), ("join", ("abs", 1.0)), ("ns", ("cancel_join", 0)),
                ("jump", 1.0), ("step",), ("adv", 1.0)]


def join_cases(maxlen):
    """join/task_done accounting with several joiners: after one put, every sequence over {put, task_done, join,
    join_t1, cancel of the oldest pending join WITHOUT running the loop, jump (deadline passes, timer not yet
    run), single loop step, tick}.  Covers task_done arriving in the same loop turn as a joiner's cancellation or
    expiry, with other joiners pending."""
    for n in range(1, maxlen + 1):
        for seq in itertools.product(JOIN_SYMBOLS, repeat=n):
            yield {"cls": "fifo", "maxsize": 0, "ops": [("put", 0, None)] + list(seq)}


# ------------------------------------------------------------------------------------- ordering discipline, systematically
def run_order_case(ctx, case):
    """Synchronous put_nowait/get_nowait on an unbounded queue: ``seq`` is a list of priorities (put) and "g"
    (get).  Oracle: a get returns, among the items present, the oldest (fifo) / newest (lifo) / smallest (prio:
    reference = min of the present items); qsize after every op; the final drain returns everything left in the
    discipline's order and then QueueEmpty."""
    cls = case["cls"]
    q = CLASSES[cls]()
    present = []
    serial = 0
    labels = {"order_" + cls, "order_items_%s" % case["items"]}

    def expect():
        if cls == "fifo":
            return present.pop(0)
        if cls == "lifo":
            return present.pop()
        it = min(present)
        if it != present[0] and it != present[-1]:
            labels.add("order_min_in_the_middle")
        present.remove(it)
        return it

    def get(step):
        want = expect()
        got = q.get_nowait()
        if got != want:
            ctx.fail("C35.wrong_item", {"cls": cls, "seq": case["seq"], "step": step, "got": got, "want": want,
                                        "present_before": sorted(present + [want]), "via": "order"})
            if got in present:  # keep the model in step with what really left the queue
                present.remove(got)
                present.append(want)

    nput = 0
    for step, x in enumerate(case["seq"]):
        if x == "g":
            if present:
                labels.add("order_get_interleaved")
                get(step)
            else:
                try:
                    q.get_nowait()
                    ctx.fail("C35.get_nowait_returned_from_empty", {"seq": case["seq"], "step": step})
                except queues.QueueEmpty:
                    pass
        else:
            item = x if case["items"] == "int" else (x, serial)
            serial += 1
            nput += 1
            q.put_nowait(item)
            present.append(item)
        if q.qsize() != len(present):
            ctx.fail("C35.qsize", {"seq": case["seq"], "step": step, "real": q.qsize(), "model": len(present)})
    step = len(case["seq"])
    while present:
        get(step)
    try:
        q.get_nowait()
        ctx.fail("C35.get_nowait_returned_from_empty", {"seq": case["seq"], "step": step})
    except queues.QueueEmpty:
        pass
    labels.add("order_%d_items" % nput)
    ctx.note(case, labels, nput >= 2)


def order_cases(thorough):
    """All permutations of 6 and 7 distinct priorities (1..5 too) for each class; for every permutation of 6 (and
    every 7th permutation of 7) gets interleaved at every position (1 or 2 gets after the first j puts); all
    sequences over {0,1,2} of length 6 and 7 (duplicates; plain ints and (priority, serial) tuples) for the
    priority queue."""
    sizes = range(1, 9 if thorough else 8)
    for cls in ("prio", "lifo", "fifo"):
        for n in sizes:
            for i, perm in enumerate(itertools.permutations(range(n))):
                perm = list(perm)
                yield {"cls": cls, "items": "int", "seq": perm}
                if n < 5 or (cls != "prio" and (n > 6 or i % 3)) or (n == 7 and i % 7) or (n == 8 and i % 97):
                    continue
                for j in range(1, n):
                    for g in (1, 2):
                        yield {"cls": cls, "items": "int", "seq": perm[:j] + ["g"] * g + perm[j:]}
                    if cls == "prio" and j + 1 < n:  # gets at two positions
                        yield {"cls": cls, "items": "int", "seq": perm[:j] + ["g"] + perm[j:j + 1] + ["g"] + perm[j + 1:]}
    for n in (6, 7):
        for seq in itertools.product((0, 1, 2), repeat=n):
            seq = list(seq)
            yield {"cls": "prio", "items": "int", "seq": seq}
            yield {"cls": "prio", "items": "tuple", "seq": seq}
            yield {"cls": "prio", "items": "tuple", "seq": seq[:4] + ["g"] + seq[4:]}


def order_history_cases():
    """Every permutation of 6 priorities through put()/get() futures on the loop (the full history machinery):
    unbounded, and maxsize 3 where the last three puts block and are admitted one by one by the gets."""
    for cls, maxsize in (("prio", 0), ("prio", 3), ("lifo", 3), ("fifo", 3)):
        for i, perm in enumerate(itertools.permutations(range(6))):
            if cls != "prio" and i % 6:
                continue
            ops = [("put", p, None) for p in perm]
            yield {"cls": cls, "maxsize": maxsize, "ops": ops + [("get", None)] * 6}
            if cls == "prio":
                yield {"cls": cls, "maxsize": maxsize, "ops": ops[:4] + [("get", None)] + ops[4:] + [("get_nowait",)] * 5}


PARTS = {"main": run_case, "grid": run_case, "joins": run_case, "order": run_order_case, "order_hist": run_case}


def main(ctx):
    ctx.run_replays(PARTS)
    ctx.explore(case_s, run_case, ctx.n(1500, 100000), name="main")
    ctx.enumerate(order_cases(ctx.thorough), run_order_case, name="order")
    ctx.enumerate(order_history_cases(), run_case, name="order_hist")
    ctx.enumerate(join_cases(6 if ctx.thorough else 4), run_case, name="joins")
    ctx.enumerate(grid_cases(6 if ctx.thorough else 4), run_case, name="grid")
