"""C45 — Log formatting never fails and cannot forge log entries.

Every case describes one log call as plain data: logger name, level, message (str / bytes valid or
invalid UTF-8 / other objects incl. one whose ``__str__`` raises), ``%``-format arguments (tuple or
mapping; matching or deliberately mismatching the template), optional exception info (real exceptions
raised and caught so they carry tracebacks: messages with newlines, bytes, non-UTF-8, forged entry
prefixes, chained/contexted, ``__str__`` raising, ``exc_info=True`` with no active exception), optional
pre-set ``exc_text``, ``stack_info``, ``extra`` values.  The record is produced by a real
``logging.Logger`` (private instance, capturing handler), its timestamp is overwritten with the case's
value, and ``LogFormatter.format(record)`` is called directly for each of several formatter
configurations: default format with ``color=False``; ``color=True`` (colours are normally unavailable
without a tty -- whatever ``_stderr_supports_color`` decides is accepted); colours *forced* by filling
the formatter's own ``_colors``/``_normal`` the way the no-curses branch does; custom ``fmt``
(``%(message)s`` only; with ``%(name)s`` and an ``extra`` key) and custom ``datefmt``.

Oracle (the statement, literally): ``format`` returns a ``str`` and raises nothing; every ``"\\n"`` in the
result is immediately followed by indentation (a space or tab), hence no output line but the first can
begin with an entry prefix.  Carriage returns and Unicode line separators are an EITHER class (the
statement says "newline character"): labelled only.  Objects whose ``__repr__`` raises are outside the
domain (the "Bad message" fallback needs ``repr``).

Sensitivity (quick tier, seed 1, scratch copies; all caught = exit 1):
  * final ``.replace("\\n", "\\n    ")`` removed ............................ caught (C45.newline_not_indented)
  * exception lines joined *after* the replace ......................... caught (C45.newline_not_indented)
  * ``replace("\\n", "\\n    ", 1)`` (first newline only) .................. caught (C45.newline_not_indented)
  * ``except Exception`` around getMessage narrowed to ``except TypeError`` caught (C45.format_raised)
  * ``LogFormatter._colors`` turned into a class-level dict filled in place and the ``else: self._normal = ""`` branch
    dropped (once any colour-enabled formatter exists, every plain one takes the colour branch and format() raises
    AttributeError) ... caught at seeds 1,2,3 (C45.format_raised, formatter history:plain) by formatter *histories*:
    2-4 LogFormatter instances per case built in a generated order with colour support present (stub curses or
    colorama + tty stderr installed as tornado.log module attributes for the constructor call only), absent, or not
    requested, all formatting the same record; plus the deterministic ``orders`` part = every order of 2 and 3
    formatter kinds on three fixed log calls (ninth-round "state carried over" mutation testing)
  * ``_safe_unicode`` without the ``repr`` fallback: *equivalent* on Python 3 (getMessage always returns
    ``str``; bytes never reach it), not counted.
"""
import contextlib
import itertools
import logging
import sys

from hypothesis import strategies as st

from tornado.log import LogFormatter

PROPERTY = "C45"
READY = True
RULE = (
    "Hypothesis cases = one log call (name, level, message kind/text, args, exception spec, exc_text, "
    "stack_info, extra) formatted by 6 LogFormatter configurations; texts are drawn from an alphabet rich in "
    "LF/CRLF, forged '[E 260101 00:00:00 mod:1]' prefixes, ANSI escapes and %-directives; non-trivial = a "
    "newline occurs in message/args/exception/exc_text/extra text or the arguments mismatch the template; "
    "distinct = SHA-1 of the case"
)
ASSUMPTIONS = [
    "'newline character' = LF; 'indentation' = at least one space or tab right after it",
    "fmt/datefmt are trusted configuration and only reference attributes that exist on the record",
    "objects in messages/args have a working __repr__; pre-set exc_text is a str (as logging caches it)",
]
TECHNIQUE = "property-based testing (Hypothesis): totality + output-shape oracle on real Logger records"
LEVEL_TEXT = "generated search over log-call shapes; texts up to ~60 characters, tracebacks up to 3 chained exceptions"
SHARDS = 16

FORGED = "\n[E 260101 00:00:00 mod:1] forged"
PIECES = ["\n", "\r\n", "\r", FORGED, "\n[I 991231 23:59:59 web:2246] 200 GET /", "\x1b[31m", "\x1b[0m", "%s", "%d", "%r",
          "%(k)s", "%%", "%", "%5.2f", "%c", "%z", "%*s", "%(missing)s", "a", "b", " ", "\t", "\n\n", "\n    ", "é", "\u2028",
          "\x85", "\x0b", "\x0c", "\x00", "日本", "\ud800", "Traceback (most recent call last):\n", "{}", "{0}"]
# free text pieces carry no digits or '*', and int arguments stay small, so that a generated template can
# never ask for an astronomically wide field ("%*d" % (10**12, 1) is a harness-side memory bomb)
text_s = st.lists(st.one_of(st.sampled_from(PIECES), st.text(
    alphabet=st.characters(exclude_characters="0123456789*", exclude_categories=["Cs"]), max_size=4)), max_size=6).map("".join)
plain_text_s = st.lists(st.sampled_from(["\n", "\r\n", FORGED, "x", "y z", "é", "\x1b[1m", "\n\n"]), max_size=5).map("".join)
bytes_s = st.one_of(
    st.binary(max_size=10),
    st.sampled_from([b"\xff", b"\xff\n[E 260101 00:00:00 mod:1] forged", b"ok\nline", b"caf\xc3\xa9", b"\xc3", b"\x80\x81\n", b"%s", b""]),
)
arg_s = st.one_of(
    st.tuples(st.just("str"), text_s),
    st.tuples(st.just("bytes"), bytes_s),
    st.tuples(st.just("int"), st.integers(-10 ** 4, 10 ** 4)),
    st.tuples(st.just("float"), st.floats(allow_nan=True, allow_infinity=True)),
    st.tuples(st.just("none"), st.none()),
    st.tuples(st.just("obj"), st.sampled_from(["str_newline", "str_raises", "list_with_newline", "exc_instance"])),
)
args_s = st.one_of(
    st.tuples(st.just("none")),
    st.tuples(st.just("tuple"), st.lists(arg_s, max_size=4)),
    st.tuples(st.just("dict"), st.dictionaries(st.sampled_from(["k", "j", "missing", "a\nb"]), arg_s, max_size=3)),
)
msg_s = st.one_of(
    st.tuples(st.just("str"), text_s),
    st.tuples(st.just("str"), text_s),
    st.tuples(st.just("bytes"), bytes_s),
    st.tuples(st.just("obj"), st.sampled_from(["str_newline", "str_raises", "list_with_newline", "exc_instance", "int", "none", "dict"])),
)
exc_one_s = st.tuples(
    st.sampled_from(["ValueError", "KeyError", "UnicodeDecodeError", "Custom", "CustomStrRaises", "OSError", "SyntaxError", "BytesArg",
                     "ExceptionGroup", "NoArgs"]),
    st.one_of(plain_text_s, text_s),
)
exc_s = st.one_of(
    st.none(),
    st.none(),
    st.tuples(st.just("raise"), st.lists(exc_one_s, min_size=1, max_size=3), st.sampled_from(["cause", "context", "suppress"])),
    st.tuples(st.just("true_without_exception")),
    st.tuples(st.just("instance"), st.lists(exc_one_s, min_size=1, max_size=1), st.just("cause")),
)
case_s = st.fixed_dictionaries({
    "name": st.sampled_from(["c45", "tornado.access", "a.b", "x\ny", "n\n[E 260101 00:00:00 mod:1] forged"]),
    "level": st.sampled_from([10, 20, 30, 40, 50, 25, 0, 5]),
    "msg": msg_s,
    "args": args_s,
    "exc": exc_s,
    "exc_text": st.one_of(st.none(), st.none(), st.none(), plain_text_s),
    "stack_info": st.sampled_from([False, False, False, True]),
    "extra_user": st.one_of(st.none(), text_s),
    "created": st.integers(0, 4 * 10 ** 9),
    "history": st.lists(st.sampled_from(["plain", "plain_custom_fmt", "color_curses", "color_colorama", "color_curses_error_only",
                                         "color_unsupported"]), max_size=4),
})


# ----------------------------------------------------------------------------- building the record
class _StrNewline:
    def __str__(self):
        return "obj line1" + FORGED

    __repr__ = __str__


class _StrRaises:
    def __str__(self):
        raise RuntimeError("str() failed\nsecond line")

    def __repr__(self):
        return "<StrRaises\nrepr>"


class _Custom(Exception):
    def __str__(self):
        return "custom: " + "".join(str(a) for a in self.args)


class _CustomStrRaises(Exception):
    def __str__(self):
        raise RuntimeError("boom\nin str")


def make_obj(kind):
    if kind == "str_newline":
        return _StrNewline()
    if kind == "str_raises":
        return _StrRaises()
    if kind == "list_with_newline":
        return ["a\nb", b"\xff\n"]
    if kind == "exc_instance":
        return ValueError("bad\nvalue")
    if kind == "int":
        return 12345
    if kind == "none":
        return None
    if kind == "dict":
        return {"k": "v\nw"}
    raise AssertionError(kind)


def make_value(spec):
    kind, v = spec
    if kind == "obj":
        return make_obj(v)
    return v


def make_exc(kind, text):
    if kind == "ValueError":
        return ValueError(text)
    if kind == "KeyError":
        return KeyError(text)
    if kind == "UnicodeDecodeError":
        return UnicodeDecodeError("utf-8", b"\xff\n" + text.encode("utf-8", "replace"), 0, 1, text)
    if kind == "Custom":
        return _Custom(text, "\n", b"\xfe")
    if kind == "CustomStrRaises":
        return _CustomStrRaises(text)
    if kind == "OSError":
        return OSError(2, text, "file\nname")
    if kind == "SyntaxError":
        return SyntaxError(text, ("file\nname.py", 1, 2, "bad\ntext\n"))
    if kind == "BytesArg":
        return ValueError(text.encode("utf-8", "replace") + b"\xff\n[E forged]")
    if kind == "ExceptionGroup":
        return ExceptionGroup(text or "eg", [ValueError(text), KeyError("k\nk")])
    if kind == "NoArgs":
        return RuntimeError()
    raise AssertionError(kind)


def _raise_chain(chain, link):
    """Raise chain[0], chained to the rest according to `link`."""
    e = make_exc(*chain[0])
    if len(chain) == 1:
        raise e
    try:
        _raise_chain(chain[1:], link)
    except BaseException as inner:
        if link == "cause":
            raise e from inner
        if link == "suppress":
            raise e from None
        raise e


class _Capture(logging.Handler):
    def __init__(self):
        logging.Handler.__init__(self, 0)
        self.records = []

    def emit(self, record):
        self.records.append(record)


def build_record(case):
    logger = logging.Logger(case["name"], 1)  # private instance, not registered with the manager
    logger.propagate = False
    cap = _Capture()
    logger.addHandler(cap)
    mkind, mval = case["msg"]
    msg = make_obj(mval) if mkind == "obj" else mval
    akind = case["args"][0]
    if akind == "none":
        args = ()
    elif akind == "tuple":
        args = tuple(make_value(a) for a in case["args"][1])
    else:
        args = ({k: make_value(v) for k, v in case["args"][1].items()},)
    kwargs = {}
    if case["extra_user"] is not None:
        kwargs["extra"] = {"user": case["extra_user"]}
    else:
        kwargs["extra"] = {"user": "-"}
    if case["stack_info"]:
        kwargs["stack_info"] = True
    exc = case["exc"]
    level = case["level"] or 1
    if exc is None:
        logger.log(level, msg, *args, **kwargs)
    elif exc[0] == "true_without_exception":
        logger.log(level, msg, *args, exc_info=True, **kwargs)
    elif exc[0] == "instance":
        logger.log(level, msg, *args, exc_info=make_exc(*exc[1][0]), **kwargs)
    else:
        try:
            _raise_chain(list(exc[1]), exc[2])
        except BaseException:
            logger.log(level, msg, *args, exc_info=sys.exc_info(), **kwargs)
    logger.removeHandler(cap)
    assert len(cap.records) == 1, cap.records
    record = cap.records[0]
    record.created = float(case["created"])  # no wall clock in the output
    record.msecs = 0.0
    if case["exc_text"] is not None:
        record.exc_text = case["exc_text"]
    return record


def forced_color_formatter(**kw):
    f = LogFormatter(color=False, **kw)
    # what LogFormatter.__init__ does when colour is supported but curses is absent
    f._colors = {levelno: "\033[2;3%dm" % code for levelno, code in LogFormatter.DEFAULT_COLORS.items()}
    f._normal = "\033[0m"
    return f


# ----------------------------------------------------------------------------- colour support, made available on demand
class _FakeTTY:
    def __init__(self, tty):
        self._tty = tty

    def isatty(self):
        return self._tty

    def write(self, data):
        return len(data)

    def flush(self):
        pass


class _SysShim:
    """Stands in for the name ``sys`` inside tornado.log: only ``stderr`` differs."""

    def __init__(self, stderr):
        self.stderr = stderr

    def __getattr__(self, name):
        return getattr(sys, name)


class _FakeCurses:
    """The four curses calls LogFormatter uses, answering like an 8-colour ANSI terminal."""

    def setupterm(self, *a, **kw):
        return None

    def tigetnum(self, cap):
        return 8 if cap == "colors" else -1

    def tigetstr(self, cap):
        return {"setaf": b"\x1b[3%p1%dm", "sgr0": b"\x1b(B\x1b[m"}.get(cap)

    def tparm(self, fmt, code):
        return b"\x1b[3%dm" % code


class _FakeColorama:
    class initialise:  # noqa: N801  (mirrors colorama.initialise.wrapped_stderr)
        wrapped_stderr = None


@contextlib.contextmanager
def color_support(mode):
    """Scoped replacement of the names tornado.log._stderr_supports_color consults (module attributes of tornado.log,
    restored in ``finally``): mode 'curses' = tty + curses, 'colorama' = tty + no curses + colorama wrapping stderr,
    'none' = stderr is not a tty."""
    import tornado.log as tlog
    saved = (tlog.sys, tlog.curses, tlog.colorama)
    tty = _FakeTTY(mode != "none")
    try:
        tlog.sys = _SysShim(tty)
        if mode == "curses":
            tlog.curses = _FakeCurses()
        elif mode == "colorama":
            tlog.curses = None
            fake = _FakeColorama()
            fake.initialise = type("initialise", (), {"wrapped_stderr": tty})
            tlog.colorama = fake
        yield
    finally:
        tlog.sys, tlog.curses, tlog.colorama = saved


HISTORY_KINDS = ["plain", "plain_custom_fmt", "color_curses", "color_colorama", "color_curses_error_only", "color_unsupported"]


def build_history_formatter(kind):
    if kind == "plain":
        return LogFormatter(color=False)
    if kind == "plain_custom_fmt":
        return LogFormatter(fmt="%(color)s%(levelname)s%(end_color)s %(message)s", color=False)
    if kind == "color_curses":
        with color_support("curses"):
            return LogFormatter(color=True)
    if kind == "color_colorama":
        with color_support("colorama"):
            return LogFormatter(color=True)
    if kind == "color_curses_error_only":
        with color_support("curses"):
            return LogFormatter(color=True, colors={logging.ERROR: 1})
    if kind == "color_unsupported":
        with color_support("none"):
            return LogFormatter(color=True)
    raise AssertionError(kind)


def judge(ctx, case, labels, fname, fmt, record):
    """The statement's oracle for one formatter: str result, no exception, every LF followed by indentation."""
    # each formatter gets a fresh copy of the record state that format() caches
    record.exc_text = case["exc_text"]
    record.__dict__.pop("message", None)
    try:
        out = fmt.format(record)
    except Exception as e:
        ctx.note(case, labels, True)
        ctx.fail("C45.format_raised", {"formatter": fname, "exc": repr(e)[:300], "case": case})
        return False
    if not isinstance(out, str):
        ctx.fail("C45.result_not_str", {"formatter": fname, "type": type(out).__name__})
    pos = out.find("\n")
    while pos != -1:
        nxt = out[pos + 1:pos + 2]
        if nxt not in (" ", "\t"):
            ctx.note(case, labels, True)
            ctx.fail("C45.newline_not_indented",
                     {"formatter": fname, "at": pos, "around": out[max(0, pos - 30):pos + 40], "case": case})
            return False
        pos = out.find("\n", pos + 1)
    if "\n" in out:
        labels.add("multiline_output")
    if fmt._colors and record.levelno in fmt._colors and "\x1b[" in out:
        labels.add("colored_output")
    return True


FORMATTERS = [
    ("plain", lambda: LogFormatter(color=False)),
    ("color_true", lambda: LogFormatter(color=True)),
    ("color_forced", forced_color_formatter),
    ("fmt_message_only", lambda: LogFormatter(fmt="%(message)s", color=False)),
    ("fmt_name_extra", lambda: LogFormatter(fmt="%(levelname)s:%(name)s:%(user)s:%(message)s", datefmt="%H:%M:%S", color=False)),
    ("fmt_color_tail", lambda: forced_color_formatter(fmt="%(asctime)s %(color)s%(message)s%(end_color)s [%(user)s]", datefmt="%Y-%m-%d")),
]

OTHER_SEPARATORS = ["\r", "\x0b", "\x0c", "\x1c", "\x1d", "\x1e", "\x85", "\u2028", "\u2029"]


def _texts_of(case):
    out = []
    if case["msg"][0] == "str":
        out.append(case["msg"][1])
    elif case["msg"][0] == "bytes":
        out.append(case["msg"][1].decode("latin-1"))
    if case["args"][0] == "tuple":
        vals = [v for v in case["args"][1]]
    elif case["args"][0] == "dict":
        vals = list(case["args"][1].values())
    else:
        vals = []
    for kind, v in vals:
        if kind == "str":
            out.append(v)
        elif kind == "bytes":
            out.append(v.decode("latin-1"))
        elif kind == "obj":
            out.append("\n")
    if case["exc"] is not None and len(case["exc"]) > 1:
        out.extend(t for _, t in case["exc"][1])
    if case["exc_text"]:
        out.append(case["exc_text"])
    if case["extra_user"]:
        out.append(case["extra_user"])
    out.append(case["name"])
    return out


def run_case(ctx, case):
    labels = set()
    record = build_record(case)
    # ---- labels from the case (what the generator really produced)
    mkind, mval = case["msg"]
    if mkind == "bytes":
        labels.add("bytes_message")
        try:
            mval.decode("utf-8")
        except UnicodeDecodeError:
            labels.add("bytes_invalid_utf8")
    if mkind == "obj":
        labels.add("object_message")
    for a in (case["args"][1] if case["args"][0] == "tuple" else case["args"][1].values() if case["args"][0] == "dict" else []):
        if a[0] == "bytes":
            try:
                a[1].decode("utf-8")
            except UnicodeDecodeError:
                labels.add("bytes_invalid_utf8")
    try:
        record.getMessage()
        if case["args"][0] != "none":
            labels.add("format_args_ok")
    except Exception:
        labels.add("bad_format_args")
    exc = case["exc"]
    if exc is not None:
        labels.add("exc_info")
        if len(exc) > 1:
            if any("\n" in t for _, t in exc[1]):
                labels.add("exc_with_newlines")
            if len(exc[1]) > 1:
                labels.add("exc_chained_" + exc[2])
            for k, _ in exc[1]:
                if k in ("CustomStrRaises", "BytesArg", "UnicodeDecodeError", "ExceptionGroup"):
                    labels.add("exc_" + k)
        else:
            labels.add("exc_info_true_without_exception")
    if case["exc_text"] is not None:
        labels.add("preset_exc_text")
    if case["stack_info"]:
        labels.add("stack_info")
    texts = _texts_of(case)
    if any("] forged" in t or "] 200 GET" in t for t in texts):
        labels.add("forged_prefix")
    if any("\x1b[" in t for t in texts):
        labels.add("ansi_in_content")
    has_nl = any("\n" in t for t in texts) or mkind == "obj"
    if any(sep in t for t in texts for sep in OTHER_SEPARATORS):
        labels.add("other_line_separator_EITHER")
    if any("\ud800" in t for t in texts):
        labels.add("lone_surrogate")

    for fname, make in FORMATTERS:
        fmt = make()
        if fname == "color_true":
            labels.add("color_true_available" if fmt._colors else "color_true_unavailable")
        if not judge(ctx, case, labels, fname, fmt, record):
            return
    # ---- formatter histories: several LogFormatter instances alive at once, constructed in the case's order with
    # colour support present (stubbed curses / colorama + tty stderr), absent, or not requested; then every one of
    # them formats the record (construction order, then reverse).  Each is judged on its own.
    history = list(case.get("history") or [])
    built = []
    for kind in history:
        built.append((kind, build_history_formatter(kind)))
        labels.add("hist_" + kind)
    if len(built) >= 2:
        labels.add("hist_two_or_more_instances")
        if any(k.startswith("color_c") for k, _ in built) and any(k.startswith("plain") for k, _ in built):
            labels.add("hist_color_and_plain_together")
    for kind, fmt in built + built[::-1]:
        if kind.startswith("color_c") and not fmt._colors:
            ctx.fail("C45.harness_color_stub_ineffective", {"kind": kind})
        if not judge(ctx, case, labels, "history:" + kind, fmt, record):
            return
    ctx.note(case, labels, nontrivial=has_nl or "bad_format_args" in labels)


# every order of two and three formatter kinds, on three fixed log calls (deterministic)
ORDER_RECORDS = [
    {"name": "c45", "level": 40, "msg": ("str", "plain message"), "args": ("none",), "exc": None, "exc_text": None,
     "stack_info": False, "extra_user": None, "created": 1700000000},
    {"name": "c45", "level": 20, "msg": ("str", "two\nlines %s" + FORGED), "args": ("tuple", [("str", "arg\nwith newline")]),
     "exc": ("raise", [("ValueError", "bad\nvalue")], "cause"), "exc_text": None, "stack_info": False, "extra_user": "u\nv",
     "created": 1700000000},
    {"name": "x\ny", "level": 25, "msg": ("bytes", b"\xff\n[E forged]"), "args": ("tuple", [("int", 1)]), "exc": None,
     "exc_text": "preset\nexc text", "stack_info": True, "extra_user": None, "created": 0},
]


def order_cases():
    for n in (2, 3):
        for hist in itertools.product(HISTORY_KINDS, repeat=n):
            for rec in ORDER_RECORDS:
                yield dict(rec, history=list(hist))


PARTS = {"main": run_case, "orders": run_case}


def main(ctx):
    ctx.run_replays(PARTS)
    ctx.enumerate(order_cases(), run_case, name="orders")
    ctx.explore(case_s, run_case, ctx.n(4000, 300000), name="main")
