"""C30 — Form bodies are parsed losslessly and untrusted bodies fail cleanly.

Three Hypothesis parts over ``tornado.httputil.parse_body_arguments`` /
``parse_multipart_form_data`` (pure functions, no loop):

* ``form``: a generated form (fields ``(name, value bytes)`` and file uploads ``(name, filename,
  content type, content bytes)``) is encoded by the encoders *in this module* (independent of
  Tornado): ``application/x-www-form-urlencoded`` (percent-encoding with ``+``/``%20`` and hex-case
  variations) or ``multipart/form-data`` (parameters as quoted-string with raw UTF-8, or RFC 2231
  ``name*=utf-8'lang'%..`` ext-values incl. ``*0*``/``*1*`` continuations and iso-8859-1; boundary
  token or quoted in the Content-Type; extra part headers; header/parameter order and case
  variations).  The boundary is chosen **after** the body is built: a generated seed is extended until
  it occurs in the encoded body exactly once per delimiter, so it occurs nowhere in the content even
  though the content is full of ``--``, CRLF and boundary-like text.  Oracle: ``arguments`` and
  ``files`` equal the form exactly (values in order per name; filename/body/content_type exact — for a file
  part sent without a Content-Type header the expected ``content_type`` is what the same part yields as
  the only part of a body, i.e. it may not depend on its siblings; no extra keys), through both entry points, also when the dictionaries were pre-populated.  Then the
  same body is re-parsed with ``ParseMultipartConfig`` limits around its own part count ``k`` and
  header size ``h``: ``max_parts < k`` must be rejected, ``max_parts >= k`` accepted;
  ``max_part_header_size < h`` rejected, every limit ``>= h`` accepted — checked at ``h, h+1, h+2, h+3, h+4``
  (``h`` = bytes of the largest part's header lines up to, not including, the blank-line terminator:
  the terminator separates the headers from the content and is not counted; this is how the tree
  counts, the docs are silent on it); ``enabled=False`` must raise ``HTTPInputError``.  The same
  edges are then configured through the documented global channel ``set_parse_body_config()`` (previous
  configuration restored in ``finally``) and both entry points are called *without* ``config=``: the
  limits in force at call time must apply (k parts accepted at max_parts=k together with a header
  limit from ``h..h+4``, rejected at k-1; header h-1 rejected; ``enabled=False`` rejected).
* ``mutate``: one or two single-byte mutations (replace/insert/delete) of such an encoded body or of
  its Content-Type, random small limits, optional ``Content-Encoding`` header.
* ``arbitrary``: bodies glued from delimiter/header/garbage fragments under odd content types.
  For both: the call returns (then the dictionaries have the documented shape) or raises
  ``HTTPInputError`` — any other exception is a violation.

Empty parts (a delimiter line directly followed by the next one; option ``empty_parts``) are malformed and
the documentation of ``max_parts`` ("The maximum number of parts accepted ... Each <input> element ...
corresponds to at least one part") does not say whether they count.  So for a body with m real and e
empty parts every limit in ``m .. m+e-1`` is EITHER (accept or HTTPInputError); asserted under every
reading: a limit below m is refused, and whenever the body is accepted the result is exactly the m real
parts.  (The tree counts every piece between delimiters; a variant that does not count empty pieces is
therefore *not* flagged — by design, see Sensitivity.)

EITHER classes (statement silent; only "returns or HTTPInputError" is asserted): empty field name,
empty filename, non-empty preamble / epilogue other than one CRLF, and exactly two structural classes
of backslash-escaped quoted-string values that the cgi-derived splitter does not recover: a value
ending in a backslash that is followed by another parameter, and a value of >= 2 characters that
itself starts and ends with ``"``.  Every other name/filename containing ``"`` or ``\\`` — in particular
exactly ``"`` (sent as ``name="\\""``), exactly ``\\``, ``a"b``, ``\\"`` — is asserted to round-trip exactly
(label ``quoted_dquote_backslash_exact``; the boundary between the classes was established
exhaustively over {" \\ a ; = SP} up to length 4 against the current tree).
Run time is not asserted.

Sensitivity (quick tier, seed 1, one mutant at a time on a scratch copy):
  * ``value = part[eoh + 4 : -2]`` -> ``-1`` ............................... caught (C30.multipart_exact)
  * ``len(parts) > config.max_parts`` -> ``>=`` ........................... caught (C30.limit_parts_below_max_rejected)
  * ``except Exception`` in parse_body_arguments narrowed to
    ``except HTTPInputError`` (UnicodeDecodeError escapes) ............... caught (C30.other_exception)
  * quoted-boundary stripping removed ................................... caught (C30.multipart_exact)
  * ``eoh > config.max_part_header_size`` check removed .................. caught (C30.limit_header_over_accepted)
  * ``_parseparam``: quote counting removed (split on every ``;``) ....... caught (C30.multipart_exact)
  * ``parse_qs_bytes`` keep_blank_values dropped ......................... caught (C30.urlencoded_exact)
  * ``_parse_header`` final quote-strip guard ``len(value) >= 2 and ...`` -> ``value and ...`` (a value
    that is exactly one ``"`` becomes empty: field rejected as 'missing name', file turned into an
    argument) ............................................................ caught (C30.multipart_exact[.rejected])
  * ``"application/unknown"`` default hoisted out of the per-part loop (a file without Content-Type
    that follows a typed file inherits the earlier file's type) .......... caught (C30.multipart_exact;
    label ``untyped_file_after_typed_file``)

  * ``parse_multipart_form_data(..., config=_DEFAULT_PARSE_BODY_CONFIG.multipart)`` as a definition-time
    default, call-time ``if config is None`` lookup removed (direct calls keep the import-time limits
    after ``set_parse_body_config``) ...................................... caught
    (C30.global_limit_parts_over_accepted via parse_multipart_form_data)

  * header terminator searched only within the limit (``part.find(b"\\r\\n\\r\\n", 0, max_part_header_size)``,
    "not found" = too large): limits ``h..h+3`` refuse a body that is within the limit ... caught
    (C30.limit_header_within_rejected via config=, C30.global_limit_within_rejected via the global channel)

  * NOT flagged, by design: empty pieces filtered before the part count (``parts = [p for p in parts if p]``;
    empty parts no longer count against ``max_parts``) — the docs are silent on whether an empty part is
    a "part", so both countings are inside the EITHER band ``m..m+e-1``; the sound sub-clauses (limit < m
    refused, accepted result exact) hold for both.

Findings of this check (write-ups in findings_inbox/; both since repaired in /repo and marked fixed,
their replays under replays/C30/ now hold as regression replays):
  * F-C30-max-parts-off-by-one: a body with exactly ``max_parts`` parts is rejected (the empty text
    before the first delimiter is counted); sig ``C30.limit_parts_at_max_rejected``.
  * F-C30-rfc2231-quote-backslash: ext-value parameters whose value contains ``"`` or ``\\`` come back
    with the escaping added by ``email.utils.decode_params``; sig
    ``C30.multipart_exact.rfc2231_dquote_or_backslash``.
  Both proposed patches were applied to a scratch copy: no exclusions left, all clauses quiet.
"""
from hypothesis import strategies as st

from vlib.runner import HarnessError, Violation

from tornado import httputil

from tornado.httputil import (
    HTTPFile,
    HTTPHeaders,
    HTTPInputError,
    ParseBodyConfig,
    ParseMultipartConfig,
    parse_body_arguments,
    parse_multipart_form_data,
)

PROPERTY = "C30"
_IMPORT_TIME_CONFIG = httputil._DEFAULT_PARSE_BODY_CONFIG
READY = True
RULE = (
    "Hypothesis: forms of <=6 items (names/filenames from ASCII, punctuation ; = % ' * & +, controls, "
    "non-ASCII incl. astral; values/contents glued from CRLF, '--', boundary-like and header-like "
    "fragments and random bytes), encoded urlencoded or multipart by the module's own encoders with "
    "the boundary extended until absent from the content; each multipart body re-parsed under 7 limit "
    "configurations around its own part count/header size; plus 1-2 single-byte mutations of encoded "
    "bodies / content types and fragment-glued arbitrary bodies; non-trivial = multipart with >=1 file "
    "part and content containing CRLF or '--' (form part), or a mutated/arbitrary body that reaches the "
    "multipart parser; distinct = SHA-1 of the case"
)
ASSUMPTIONS = [
    "the urlencoded / RFC 7578 + RFC 2231/5987 encoders written in this module are correct",
    "urlencoded names come back as the latin-1 view of their UTF-8 bytes (documented in parse_qs_bytes)",
    "'max number of parts accepted' counts the parts of the body (not the empty text before the first "
    "delimiter); 'size of the headers' of a part = the h bytes of its header lines without the blank-line "
    "terminator (docs silent on the terminator; this is the tree's counting), so limits >= h admit it",
    "clean failure is asserted at parse_body_arguments (the entry point every caller uses); direct calls "
    "of parse_multipart_form_data are only made with well-formed bodies",
    "filename* wins or loses against a plain filename fallback: either is accepted",
]
TECHNIQUE = "property-based testing (Hypothesis): independent encoder round-trip + totality (allowed-exception) oracle + limit edges"
LEVEL_TEXT = (
    "every generated form (<=6 items, <=~1 KiB) round-trips exactly through both entry points under "
    "urlencoded, quoted-string and RFC 2231 encodings; mutated and glued bodies only ever raise "
    "HTTPInputError; limits are enforced at k-1/k/k+1 and h-1/h+4.  Bounded by the generator's "
    "alphabets and sizes; no claim for bodies >64 KiB or for run time."
)
SHARDS = 16

# ----------------------------------------------------------------------------- generators
NAME_PLAIN = "abcXYZ019_-. "
NAME_PUNCT = ";=%'*&+,:/()<>[]{}@!#$^`|~? \t"
NAME_UNI = "äß€Ж中\U0001f600\x80\x85 \xa0\xff"
NAME_CTL = "\n\r\x00\x01\x1f\x7f\x0b"
NAME_QUOTE = "\"\\"


def _name(min_size=1):
    return st.one_of(
        st.text(alphabet=NAME_PLAIN, min_size=min_size, max_size=8),
        st.text(alphabet=NAME_PLAIN + NAME_PUNCT, min_size=min_size, max_size=8),
        st.text(alphabet=NAME_PLAIN + NAME_UNI, min_size=min_size, max_size=6),
        st.text(alphabet=NAME_PLAIN + NAME_PUNCT + NAME_UNI + NAME_CTL, min_size=min_size, max_size=6),
        st.text(alphabet=NAME_PLAIN + NAME_PUNCT + NAME_QUOTE, min_size=min_size, max_size=6),
        st.sampled_from(["a", "a", "b", "file", "utf-8''x", "a*", "a*0*", "name", "filename"]),
        st.sampled_from(['"', '"', "\\", '"\\', '\\"', "\\\\", 'a"', '"a', 'a"b', "a\\b", "\\a", '""', '"a"', "a\\"]),
    )


VALUE_FRAGS = [
    b"\r\n", b"--", b"\r\n--", b"--\r\n", b"\r\n\r\n", b"bnd", b"--bnd", b"--bnd--", b"--bnd\r\n", b"-", b"\n", b"\r",
    b'Content-Disposition: form-data; name="x"', b"\xff\xfe", b"\x00", b"a", b"=", b"&", b"+", b"%41", b"%", b" ",
    b"\xc3\xa4", b";", b"q", b"qq",
]
_value = st.lists(st.one_of(st.sampled_from(VALUE_FRAGS), st.binary(max_size=6)), max_size=8).map(b"".join)

CTYPES = [
    None, "text/plain", "application/octet-stream", "image/png", "text/plain; charset=utf-8",
    'application/x-weird+json; a="b;c"', "text/x-ünï", "multipart/mixed; boundary=bnd",
]
EXTRA_HEADERS = [
    "Content-Transfer-Encoding: binary", 'X-Custom: a; b="c"; name="zz"', "content-id: <1@x>",
    "Content-Length: 3", "X-Empty:", "X-Utf8: ä€",
]
STYLES = ["quoted", "quoted", "ext", "ext_cont", "ext_latin1", "ext_fallback"]

_item_opts = st.fixed_dictionaries({
    "nstyle": st.sampled_from(["quoted", "quoted", "quoted", "ext", "ext_cont"]),  # sampled_from keeps duplicates
    "fstyle": st.sampled_from(STYLES),
    "fname_first": st.booleans(),
    "hdr_case": st.integers(0, 2),
    "disp_pos": st.integers(0, 3),
    "extra": st.lists(st.integers(0, len(EXTRA_HEADERS) - 1), max_size=2, unique=True),
    "sep": st.sampled_from(["; ", ";", " ; ", ";  "]),
    "lang": st.sampled_from(["", "", "en", "de-CH"]),
    "cs_upper": st.booleans(),
    "pct_all": st.booleans(),
    "hex_lower": st.booleans(),
    "cuts": st.lists(st.integers(0, 40), min_size=1, max_size=2),
    "cont_rev": st.booleans(),
    "field_ctype": st.booleans(),
})

_field = st.tuples(st.just("field"), _name(), _value, _item_opts)
# None = the part carries no Content-Type header; weighted so that typed and untyped files mix in every order
_file = st.tuples(st.just("file"), _name(), _name(), st.sampled_from(CTYPES + [None, None, None]), _value, _item_opts)
_either_item = st.one_of(
    st.tuples(st.just("field"), st.just(""), _value, _item_opts),
    st.tuples(st.just("file"), _name(), st.just(""), st.sampled_from(CTYPES), _value, _item_opts),
)

_form_opts = st.fixed_dictionaries({
    "bseed": st.text(alphabet="bnd-_'()+,./:=? 0", min_size=1, max_size=10),
    "bquote": st.booleans(),
    "ct_sep": st.sampled_from(["; ", ";", " ; "]),
    "ct_charset": st.sampled_from(["", "", "before", "after"]),
    "tail": st.sampled_from(["\r\n"] * 6 + ["", "", "epilogue", "preamble"]),
    # positions of bare delimiter lines (a delimiter directly followed by the next one = an empty part)
    "empty_parts": st.tuples(st.sampled_from([1] * 8 + [0]), st.lists(st.integers(0, 6), min_size=1, max_size=3)).map(
        lambda t: t[1] if t[0] == 0 else []),
    "prepop": st.booleans(),
    "plus": st.booleans(),
    "hex_lower": st.booleans(),
    "raw_safe": st.booleans(),
    "blank_style": st.booleans(),
    "with_headers": st.booleans(),
})

_empty_name_field = st.tuples(st.just("field"), st.just(""), _value, _item_opts)
mp_form_s = st.fixed_dictionaries({
    "enc": st.just("multipart"),
    "items": st.lists(st.one_of(_field, _file, _file), max_size=6),
    "opt": _form_opts,
})
url_form_s = st.fixed_dictionaries({
    "enc": st.just("url"),
    "items": st.lists(_field, max_size=6),
    "opt": _form_opts,
})
either_mp_form_s = st.fixed_dictionaries({
    "enc": st.just("multipart"),
    "items": st.lists(st.one_of(_field, _either_item), min_size=1, max_size=3),
    "opt": _form_opts,
})
either_url_form_s = st.fixed_dictionaries({
    "enc": st.just("url"),
    "items": st.lists(st.one_of(_field, _empty_name_field), min_size=1, max_size=3),
    "opt": _form_opts,
})


def _weighted(*pairs):
    """one_of de-duplicates identical strategy objects, so weights are made of distinct mapped copies."""
    out = []
    for strat, n in pairs:
        out += [strat.map(lambda x: x) for _ in range(n)]
    return st.one_of(*out)


form_s = _weighted((mp_form_s, 5), (url_form_s, 2), (either_mp_form_s, 1), (either_url_form_s, 1))
mutable_form_s = _weighted((mp_form_s, 4), (url_form_s, 1))

# ----------------------------------------------------------------------------- encoders (independent of tornado)
UNRESERVED = frozenset(b"ABCDEFGHIJKLMNOPQRSTUVWXYZabcdefghijklmnopqrstuvwxyz0123456789-._~")
URL_RAW_SAFE = frozenset(b"*'()!/:@,$")
ATTR_CHAR = frozenset(b"ABCDEFGHIJKLMNOPQRSTUVWXYZabcdefghijklmnopqrstuvwxyz0123456789!#$&+-.^_`|~")
HEADER_FORBIDDEN = frozenset(list(range(0, 9)) + list(range(10, 32)) + [127])


def pct(data, keep, lower):
    out = []
    for b in data:
        if b in keep:
            out.append(chr(b))
        else:
            out.append(("%%%02x" if lower else "%%%02X") % b)
    return out  # list of atoms: a cut between atoms never splits a %XX triplet


def url_component(data, opt):
    keep = UNRESERVED | URL_RAW_SAFE if opt["raw_safe"] else UNRESERVED
    atoms = pct(data, keep, opt["hex_lower"])
    if opt["plus"]:
        atoms = ["+" if a in ("%20",) else a for a in atoms]
    return "".join(atoms)


def encode_urlencoded(items, opt):
    pairs = []
    for it in items:
        _, name, value, _o = it
        n = url_component(name.encode("utf-8"), opt)
        if value == b"" and opt["blank_style"]:
            pairs.append(n)  # "name" without "=": a blank value
        else:
            pairs.append(n + "=" + url_component(value, opt))
    return "&".join(pairs).encode("ascii")


def has_forbidden_ctl(s):
    return any(ord(c) in HEADER_FORBIDDEN for c in s)


def effective_style(s, style):
    """A raw control character cannot be sent in a part header: such strings need an ext-value."""
    if style in ("quoted", "ext_fallback") and has_forbidden_ctl(s):
        return "ext"
    if style == "ext_latin1":
        try:
            s.encode("latin-1")
        except UnicodeEncodeError:
            return "ext"
    return style


def encode_param(pname, s, style, o):
    """-> list of 'pname=...' strings for one Content-Disposition parameter."""
    if style == "quoted":
        return ['%s="%s"' % (pname, s.replace("\\", "\\\\").replace('"', '\\"'))]
    charset = "iso-8859-1" if style == "ext_latin1" else "utf-8"
    raw = s.encode("latin-1" if style == "ext_latin1" else "utf-8")
    if o["cs_upper"]:
        charset = charset.upper()
    atoms = pct(raw, frozenset() if o["pct_all"] else ATTR_CHAR, o["hex_lower"])
    prefix = "%s'%s'" % (charset, o["lang"])
    if style == "ext_cont" and len(atoms) >= 2:
        cuts = sorted({1 + c % (len(atoms) - 1) for c in o["cuts"]})
        segs, prev = [], 0
        for c in cuts + [len(atoms)]:
            segs.append("".join(atoms[prev:c]))
            prev = c
        out = []
        for i, seg in enumerate(segs):
            out.append("%s*%d*=%s%s" % (pname, i, prefix if i == 0 else "", seg))
        if o["cont_rev"]:
            out.reverse()
        return out
    out = ["%s*=%s%s" % (pname, prefix, "".join(atoms))]
    if style == "ext_fallback":
        out.insert(0 if o["cont_rev"] else 1, '%s="fallback.bin"' % pname)
    return out


def disposition_params(it):
    """-> [(value, effective style, [encoded 'p=...' strings])] in the order they are sent."""
    kind, name, o = it[0], it[1], it[-1]
    style = effective_style(name, o["nstyle"])
    out = [(name, style, encode_param("name", name, style, o))]
    if kind == "file":
        fstyle = effective_style(it[2], o["fstyle"])
        f = (it[2], fstyle, encode_param("filename", it[2], fstyle, o))
        out = [f] + out if o["fname_first"] else out + [f]
    return out


def quoted_string_unspecified(value, is_last):
    """The two structural classes of quoted-string values that Tornado's cgi-derived splitter/unquoter
    does not recover (statement/docs silent, DESIGN: EITHER): a value ending in a backslash that is
    followed by another parameter (the closing `\\"` is taken for an escaped quote), and a value of
    >= 2 characters that itself starts and ends with a double quote (stripped once more).  Every other
    value made of quotes/backslashes — including exactly `"`, exactly `\\`, `a"b`, `\\"` ... — round-trips
    (verified exhaustively over the alphabet {" \\ a ; = SP} up to length 4) and is asserted exactly."""
    return (value.endswith("\\") and not is_last) or (len(value) >= 2 and value[0] == '"' and value[-1] == '"')


def encode_part_headers(it):
    kind, name, o = it[0], it[1], it[-1]
    params = [p for _v, _st, enc in disposition_params(it) for p in enc]
    hname = ["Content-Disposition", "content-disposition", "CONTENT-DISPOSITION"][o["hdr_case"]]
    disp = hname + ": form-data" + "".join(o["sep"] + p for p in params)
    lines = [EXTRA_HEADERS[i] for i in o["extra"]]
    if kind == "file" and it[3] is not None:
        lines.append(["Content-Type", "content-type", "CONTENT-TYPE"][o["hdr_case"]] + ": " + it[3])
    elif kind == "field" and o["field_ctype"]:
        lines.append("Content-Type: text/plain; charset=utf-8")
    lines.insert(min(o["disp_pos"], len(lines)), disp)
    return "\r\n".join(lines).encode("utf-8")


TOKEN_CHARS = frozenset("ABCDEFGHIJKLMNOPQRSTUVWXYZabcdefghijklmnopqrstuvwxyz0123456789!#$%&'*+-.^_`|~")


def encode_multipart(items, opt):
    """-> (content_type, body, boundary, k, h, quoted) or None if no boundary is available."""
    headers = [encode_part_headers(it) for it in items]
    seed = opt["bseed"].rstrip(" ") or "b"
    epilogue = b"\r\nepilogue -- text\r\n" if opt["tail"] == "epilogue" else (b"" if opt["tail"] in ("", "preamble") else b"\r\n")
    preamble = b"This is a multipart message.\r\n" if opt["tail"] == "preamble" else b""
    empties = [p % (len(items) + 1) for p in opt.get("empty_parts", [])]
    for ext in range(0, 50):
        boundary = seed + "Z" * ext
        if len(boundary) > 70:
            return None
        b = boundary.encode("ascii")
        chunks = [preamble]
        for idx, (it, h) in enumerate(zip(items, headers)):
            chunks += [b"--", b, b"\r\n"] * empties.count(idx)  # bare delimiter lines = empty parts
            chunks += [b"--", b, b"\r\n", h, b"\r\n\r\n", it[-2], b"\r\n"]
        chunks += [b"--", b, b"\r\n"] * empties.count(len(items))
        chunks += [b"--", b, b"--", epilogue]
        body = b"".join(chunks)
        # the boundary must occur nowhere in the content: exactly one occurrence per delimiter
        n, start = 0, 0
        while True:
            i = body.find(b, start)
            if i < 0:
                break
            n += 1
            start = i + 1
        if n == len(items) + 1 + len(empties):
            break
    else:
        return None
    quoted = opt["bquote"] or not all(c in TOKEN_CHARS for c in boundary)
    bparam = 'boundary="%s"' % boundary if quoted else "boundary=" + boundary
    params = [bparam]
    if opt["ct_charset"] == "before":
        params.insert(0, "charset=utf-8")
    elif opt["ct_charset"] == "after":
        params.append("charset=utf-8")
    ctype = "multipart/form-data" + "".join(opt["ct_sep"] + p for p in params)
    k = len(items)
    h = max([len(x) for x in headers] or [0])
    return ctype, body, boundary, k, h, quoted


# ----------------------------------------------------------------------------- oracle helpers
def shape_ok(arguments, files):
    """The documented shape of the output dictionaries."""
    if not isinstance(arguments, dict) or not isinstance(files, dict):
        return False
    for k, vs in arguments.items():
        if not isinstance(k, str) or not isinstance(vs, list) or not all(isinstance(v, bytes) for v in vs):
            return False
    for k, fs in files.items():
        if not isinstance(k, str) or not isinstance(fs, list):
            return False
        for f in fs:
            if not isinstance(f, HTTPFile):
                return False
            if not (isinstance(f.filename, str) and isinstance(f.body, bytes) and isinstance(f.content_type, str)):
                return False
    return True


def call_clean(ctx, clause, ctype, body, headers=None, config=None, arguments=None, files=None):
    """parse_body_arguments must return or raise HTTPInputError.  -> (ok, arguments, files)"""
    arguments = {} if arguments is None else arguments
    files = {} if files is None else files
    try:
        if config is None:
            parse_body_arguments(ctype, body, arguments, files, headers)
        else:
            parse_body_arguments(ctype, body, arguments, files, headers, config=config)
    except HTTPInputError:
        return False, arguments, files
    # any other exception escapes: from tornado frames the runner reports crash.<Type>@...; make the
    # report independent of where the innermost frame is (email.utils, urllib) by not catching here
    if not shape_ok(arguments, files):
        ctx.fail(clause + "_shape", {"ctype": ctype, "body": body, "arguments": repr(arguments)[:300], "files": repr(files)[:300]})
    return True, arguments, files


def call_total(ctx, clause, ctype, body, headers=None, config=None):
    try:
        return call_clean(ctx, clause, ctype, body, headers, config)
    except Violation:
        raise
    except Exception as e:  # wrong exception type, wherever the innermost frame is
        ctx.fail("C30.other_exception", {"ctype": ctype, "body": body, "exception": repr(e)},
                 sig="C30.other_exception." + type(e).__name__)
        return False, {}, {}


def files_view(files):
    return {k: [(f.filename, f.content_type, f.body) for f in fs] for k, fs in files.items()}


def compare_files(got, want):
    """want: name -> list of (set of acceptable filenames, ctype or None, body)."""
    if set(got) != set(want):
        return False
    for k in want:
        if len(got[k]) != len(want[k]):
            return False
        for (gf, gc, gb), (wf, wc, wb) in zip(got[k], want[k]):
            if gf not in wf or gb != wb:
                return False
            if wc is not None and gc != wc:
                return False
    return True


def classify(case):
    """-> (either_labels, finding_sig or None, labels)"""
    either, labels, finding = set(), set(), None
    enc = case["enc"]
    for it in case["items"]:
        kind, name, o = it[0], it[1], it[-1]
        if name == "":
            either.add("either_empty_name")
        if enc != "multipart":
            continue
        if kind == "file" and it[2] == "":
            either.add("either_empty_filename")
        dparams = disposition_params(it)
        for idx, (s, style, _enc) in enumerate(dparams):
            if style == "quoted":
                labels.add("quoted_param")
                if '"' in s or "\\" in s:
                    if quoted_string_unspecified(s, idx == len(dparams) - 1):
                        either.add("either_quoted_trailing_backslash_or_wrapped_in_quotes")
                    else:
                        labels.add("quoted_dquote_backslash_exact")
                        if s in ('"', "\\"):
                            labels.add("quoted_single_quote_or_backslash_char")
            if style != "quoted":
                labels.add("rfc2231")
                if style == "ext_cont":
                    labels.add("rfc2231_continuation")
                if style == "ext_latin1":
                    labels.add("rfc2231_latin1")
                if style == "ext_fallback":
                    labels.add("rfc2231_with_fallback")
                if '"' in s or "\\" in s:
                    finding = "C30.multipart_exact.rfc2231_dquote_or_backslash"
            if any(ord(c) > 127 for c in s):
                labels.add("non_ascii_param")
            if has_forbidden_ctl(s):
                labels.add("control_char_param")
    if enc == "multipart" and case["opt"]["tail"] in ("epilogue", "preamble"):
        either.add("either_" + case["opt"]["tail"])
    if enc == "multipart" and case["opt"].get("empty_parts"):
        either.add("either_empty_parts")
    return either, finding, labels


def solo_content_type(case, it):
    """content_type Tornado reports for file part `it` when it is the ONLY part of a body.  The default
    for a part without a Content-Type header is coded, not documented, so its value is not asserted;
    what "recovers exactly those files" does require is that it cannot depend on the sibling parts."""
    opt = dict(case["opt"], tail="\r\n", prepop=False)
    built = build({"enc": "multipart", "items": [it], "opt": opt})
    if built is None:
        return None
    a, f = {}, {}
    try:
        parse_body_arguments(built[0], built[1], a, f)
    except HTTPInputError:
        return None
    got = [x for fs in f.values() for x in fs]
    if len(got) != 1 or not isinstance(got[0].content_type, str):
        return None
    return got[0].content_type


def expected(case):
    args, files = {}, {}
    for it in case["items"]:
        if it[0] == "field":
            key = it[1] if case["enc"] == "multipart" else it[1].encode("utf-8").decode("latin-1")
            args.setdefault(key, []).append(it[2])
        else:
            o = it[-1]
            names = {it[2]}
            if effective_style(it[2], o["fstyle"]) == "ext_fallback":
                names.add("fallback.bin")
            ctype = it[3] if it[3] is not None else solo_content_type(case, it)
            files.setdefault(it[1], []).append((names, ctype, it[4]))
    return args, files


def build(case):
    """-> (ctype, body, meta) or None"""
    if case["enc"] == "url":
        body = encode_urlencoded(case["items"], case["opt"])
        ctype = "application/x-www-form-urlencoded"
        if case["opt"]["ct_charset"]:
            ctype += case["opt"]["ct_sep"] + "charset=UTF-8"
        return ctype, body, None
    enc = encode_multipart(case["items"], case["opt"])
    if enc is None:
        return None
    return enc[0], enc[1], enc[2:]


# ----------------------------------------------------------------------------- part: form
def run_form(ctx, case):
    built = build(case)
    if built is None:
        return ctx.note(case, {"boundary_unavailable"}, False)
    ctype, body, meta = built
    either, finding, labels = classify(case)
    labels.add(case["enc"])
    opt = case["opt"]
    headers = HTTPHeaders({"Content-Type": ctype, "Content-Length": str(len(body))}) if opt["with_headers"] else None
    content = b"".join(it[-2] for it in case["items"])
    has_file = any(it[0] == "file" for it in case["items"])
    nontrivial = case["enc"] == "multipart" and has_file and (b"\r\n" in content or b"--" in content)
    if meta is not None and meta[3]:
        labels.add("quoted_boundary")
    if nontrivial:
        labels.add("file_with_crlf_or_dashes")
    if case["enc"] == "multipart":
        seen_typed = False
        for it in case["items"]:
            if it[0] != "file":
                continue
            if it[3] is None:
                labels.add("untyped_file")
                if seen_typed:
                    labels.add("untyped_file_after_typed_file")
            else:
                seen_typed = True
                if "untyped_file" in labels:
                    labels.add("typed_file_after_untyped_file")
    if len(case["items"]) == 0:
        labels.add("empty_form")
    if len({it[1] for it in case["items"]}) < len(case["items"]):
        labels.add("repeated_name")

    if either == {"either_empty_parts"}:
        # Empty parts (bare delimiter lines) are malformed and the docs do not say whether they count
        # against max_parts: accepting or refusing such a body is EITHER at every limit from the number
        # of real parts m up to m + e.  What holds under every reading: if the body is accepted the
        # result is exactly the m real parts (nothing mis-framed, nothing invented), and a limit below
        # m is refused.
        m, e = len(case["items"]), len(opt["empty_parts"])
        want_a, want_f = expected(case)
        for max_parts in sorted({m - 1, m, m + e - 1, m + e, 100}):
            if max_parts < 0:
                continue
            cfg = ParseBodyConfig(multipart=ParseMultipartConfig(max_parts=max_parts, max_part_header_size=1 << 20))
            ok, a, f = call_total(ctx, "C30.empty_parts", ctype, body, headers, cfg)
            d = {"ctype": ctype, "body": body, "real_parts": m, "empty_parts": e, "max_parts": max_parts}
            if ok and max_parts < m:
                ctx.fail("C30.limit_parts_over_accepted", d, sig="C30.limit_parts_over_accepted.with_empty_parts")
            if ok and (a != want_a or not compare_files(files_view(f), want_f)):
                ctx.fail("C30.empty_parts_misparsed", dict(d, arguments=a, files=files_view(f), want_arguments=want_a))
            if m <= max_parts < m + e:
                labels.add("empty_parts_band_accepted" if ok else "empty_parts_band_rejected")
        labels |= either
        return ctx.note(case, labels, False)
    if either:
        ok, a, f = call_total(ctx, "C30.either", ctype, body, headers)
        labels |= either
        labels.add("either_accepted" if ok else "either_rejected")
        return ctx.note(case, labels, False)

    want_args, want_files = expected(case)
    pre_a, pre_f = {}, {}
    if opt["prepop"] and case["items"]:
        labels.add("prepopulated")
        first = case["items"][0]
        key = first[1] if case["enc"] == "multipart" else first[1].encode("utf-8").decode("latin-1")
        pre_a = {key: [b"PRE"], "\x00other": [b"x"]}
        pre_f = {key: [HTTPFile(filename="pre", body=b"p", content_type="x/y")]}
    exp_a = {k: list(v) for k, v in pre_a.items()}
    for k, v in want_args.items():
        exp_a.setdefault(k, []).extend(v)
    exp_f = {k: [({f.filename}, f.content_type, f.body) for f in v] for k, v in pre_f.items()}
    for k, v in want_files.items():
        exp_f.setdefault(k, []).extend(v)

    def exact(clause, a, f, extra):
        if a != exp_a or not compare_files(files_view(f), exp_f):
            d = {"ctype": ctype, "body": body, "arguments": a, "files": files_view(f),
                 "want_arguments": exp_a, "want_files": {k: [(sorted(n), c, b) for n, c, b in v] for k, v in exp_f.items()}}
            d.update(extra)
            sig = finding if (finding and clause == "C30.multipart_exact") else clause
            ctx.fail(clause, d, sig=sig)
            return False
        return True

    clause = "C30.multipart_exact" if case["enc"] == "multipart" else "C30.urlencoded_exact"
    a = {k: list(v) for k, v in pre_a.items()}
    f = {k: list(v) for k, v in pre_f.items()}
    try:
        parse_body_arguments(ctype, body, a, f, headers)
    except HTTPInputError as e:
        ctx.fail(clause, {"ctype": ctype, "body": body, "raised": str(e)},
                 sig=finding if (finding and case["enc"] == "multipart") else clause + ".rejected")
        return ctx.note(case, labels | {"finding_class"}, nontrivial)
    if not exact(clause, a, f, {"via": "parse_body_arguments"}):
        return ctx.note(case, labels | {"finding_class"}, nontrivial)
    if finding:
        labels.add("finding_class_passed")

    if case["enc"] == "url":
        # multipart limits / the enabled flag do not concern urlencoded bodies
        a2, f2 = {k: list(v) for k, v in pre_a.items()}, {k: list(v) for k, v in pre_f.items()}
        cfg = ParseBodyConfig(multipart=ParseMultipartConfig(enabled=False, max_parts=0, max_part_header_size=0))
        try:
            parse_body_arguments(ctype, body, a2, f2, headers, config=cfg)
        except HTTPInputError as e:
            ctx.fail("C30.urlencoded_affected_by_multipart_config", {"body": body, "raised": str(e)})
        else:
            exact(clause, a2, f2, {"via": "multipart disabled"})
        return ctx.note(case, labels, nontrivial)

    boundary, k, h, _quoted = meta
    # direct entry point, boundary as the header carried it
    a2, f2 = {k_: list(v) for k_, v in pre_a.items()}, {k_: list(v) for k_, v in pre_f.items()}
    try:
        parse_multipart_form_data(boundary.encode("ascii"), body, a2, f2)
    except HTTPInputError as e:
        ctx.fail(clause, {"via": "parse_multipart_form_data", "body": body, "raised": str(e)}, sig=clause + ".rejected")
    else:
        exact(clause, a2, f2, {"via": "parse_multipart_form_data"})

    # ---- limits around this body's own part count k and header size h
    def limited(**kw):
        a3, f3 = {k_: list(v) for k_, v in pre_a.items()}, {k_: list(v) for k_, v in pre_f.items()}
        cfg = ParseBodyConfig(multipart=ParseMultipartConfig(**kw))
        try:
            parse_body_arguments(ctype, body, a3, f3, headers, config=cfg)
        except HTTPInputError as e:
            return False, str(e), a3, f3
        return True, None, a3, f3

    labels.add("limit_edge")
    big = 1 << 20
    ok, msg, a3, f3 = limited(max_parts=k + 1, max_part_header_size=big)
    if not ok:
        ctx.fail("C30.limit_parts_below_max_rejected", {"k": k, "max_parts": k + 1, "body": body, "raised": msg})
    else:
        exact(clause, a3, f3, {"via": "max_parts=k+1"})
    ok, msg, a3, f3 = limited(max_parts=k, max_part_header_size=big)
    if not ok:
        ctx.fail("C30.limit_parts_at_max_rejected", {"k": k, "max_parts": k, "body": body, "raised": msg},
                 sig="C30.limit_parts_at_max_rejected")
    else:
        exact(clause, a3, f3, {"via": "max_parts=k"})
    if k >= 1:
        ok, msg, a3, f3 = limited(max_parts=k - 1, max_part_header_size=big)
        if ok:
            ctx.fail("C30.limit_parts_over_accepted", {"k": k, "max_parts": k - 1, "body": body})
    if k >= 1:
        ok, msg, a3, f3 = limited(max_parts=big, max_part_header_size=h - 1)
        if ok:
            ctx.fail("C30.limit_header_over_accepted", {"h": h, "max_part_header_size": h - 1, "body": body})
        # exact edge: every limit >= h admits this body (the blank-line terminator is not part of "the
        # headers"), in particular h, h+1, h+2, h+3 where an implementation that needs the terminator
        # inside the limit would refuse it
        for extra in (0, 1, 2, 3, 4):
            ok, msg, a3, f3 = limited(max_parts=big, max_part_header_size=h + extra)
            if not ok:
                ctx.fail("C30.limit_header_within_rejected",
                         {"h": h, "max_part_header_size": h + extra, "body": body, "raised": msg})
            else:
                exact(clause, a3, f3, {"via": "max_part_header_size=h+%d" % extra})
    ok, msg, a3, f3 = limited(enabled=False)
    if ok:
        ctx.fail("C30.disabled_accepted", {"body": body})

    # ---- the same limits configured through the documented *global* channel, set_parse_body_config():
    # both entry points, called without config=, must use the limits in force at call time.
    def with_global(via, **kw):
        a4, f4 = {k_: list(v) for k_, v in pre_a.items()}, {k_: list(v) for k_, v in pre_f.items()}
        previous = httputil._DEFAULT_PARSE_BODY_CONFIG
        httputil.set_parse_body_config(ParseBodyConfig(multipart=ParseMultipartConfig(**kw)))
        try:
            if via == "parse_body_arguments":
                parse_body_arguments(ctype, body, a4, f4, headers)
            else:
                parse_multipart_form_data(boundary.encode("ascii"), body, a4, f4)
        except HTTPInputError as e:
            return False, str(e), a4, f4
        finally:
            httputil.set_parse_body_config(previous)
        return True, None, a4, f4

    labels.add("global_config_limits")
    for via in ("parse_body_arguments", "parse_multipart_form_data"):
        d = {"via": via + " with set_parse_body_config", "k": k, "h": h, "body": body}
        within = h + (len(body) + (via == "parse_multipart_form_data")) % 5  # h..h+4, varies over cases/entry points
        ok, msg, a4, f4 = with_global(via, max_parts=k, max_part_header_size=within)
        if not ok:
            ctx.fail("C30.global_limit_within_rejected", dict(d, max_parts=k, max_part_header_size=within, raised=msg))
        else:
            exact(clause, a4, f4, {"via": d["via"]})
        if k >= 1:
            ok, msg, a4, f4 = with_global(via, max_parts=k - 1)
            if ok:
                ctx.fail("C30.global_limit_parts_over_accepted", dict(d, max_parts=k - 1))
            ok, msg, a4, f4 = with_global(via, max_part_header_size=h - 1)
            if ok:
                ctx.fail("C30.global_limit_header_over_accepted", dict(d, max_part_header_size=h - 1))
        ok, msg, a4, f4 = with_global(via, enabled=False)
        if ok:
            ctx.fail("C30.global_disabled_accepted", d)
    if httputil._DEFAULT_PARSE_BODY_CONFIG is not _IMPORT_TIME_CONFIG:
        raise HarnessError("global parse-body config not restored")
    ctx.note(case, labels, nontrivial)


# ----------------------------------------------------------------------------- part: mutate
_mut = st.tuples(st.sampled_from(["replace", "replace", "insert", "delete"]), st.sampled_from(["body", "body", "body", "ctype"]),
                 st.integers(0, 4000), st.one_of(st.integers(0, 255), st.sampled_from([0xFF, 0x0A, 0x0D, 0x22, 0x2D, 0x3B, 0x25, 0x00, 0x5C, 0x80])))
_cfg = st.one_of(st.none(), st.tuples(st.booleans(), st.integers(0, 8), st.integers(0, 120)))
mutate_s = st.fixed_dictionaries({
    "form": mutable_form_s,
    "muts": st.lists(_mut, min_size=1, max_size=2),
    "cfg": _cfg,
    "content_encoding": st.sampled_from([None, None, None, "gzip", ""]),
})


def apply_mut(data, m):
    op, _target, pos, byte = m
    if op == "insert":
        p = pos % (len(data) + 1)
        return data[:p] + bytes([byte]) + data[p:]
    if not data:
        return data
    p = pos % len(data)
    if op == "delete":
        return data[:p] + data[p + 1:]
    return data[:p] + bytes([byte]) + data[p + 1:]


def make_cfg(cfg):
    if cfg is None:
        return None
    return ParseBodyConfig(multipart=ParseMultipartConfig(enabled=cfg[0], max_parts=cfg[1], max_part_header_size=cfg[2]))


def run_mutate(ctx, case):
    built = build(case["form"])
    if built is None:
        return ctx.note(case, {"boundary_unavailable"}, False)
    ctype, body, _meta = built
    ct_bytes = ctype.encode("latin-1")
    for m in case["muts"]:
        if m[1] == "ctype":
            ct_bytes = apply_mut(ct_bytes, m)
        else:
            body = apply_mut(body, m)
    ctype2 = ct_bytes.decode("latin-1")
    headers = None
    if case["content_encoding"] is not None:
        headers = HTTPHeaders({"Content-Encoding": case["content_encoding"]})
    ok, a, f = call_total(ctx, "C30.mutated", ctype2, body, headers, make_cfg(case["cfg"]))
    labels = {"mutated_" + case["form"]["enc"], "mutation_accepted" if ok else "mutation_clean_failure"}
    if any(m[1] == "ctype" for m in case["muts"]):
        labels.add("mutated_content_type")
    if headers is not None:
        labels.add("content_encoding_header")  # statement silent: returns or HTTPInputError
    ctx.note(case, labels, ctype2.startswith("multipart/form-data"))


# ----------------------------------------------------------------------------- part: arbitrary
ARB_FRAGS = [
    b"--B\r\n", b"--B--", b"--B", b"\r\n", b"\r\n\r\n", b"\n", b"--", b"B", b"--B--\r\n",
    b'Content-Disposition: form-data; name="a"', b"Content-Disposition: form-data", b'; filename="f"', b'; name="',
    b"Content-Disposition: attachment; name=a", b"content-disposition:form-data;name=a", b"Content-Type: text/plain",
    b"; name*=utf-8''%FF%zz", b"; name*0*=utf-8'", b"; name*1*=%", b"; name*x*=1", b"; name*99999999999999999999*=1", b"; name*=bogus-charset''%41",
    b"; name*=''", b";;;", b'"', b"\\", b"\xff", b"\x00", b"\xc3", b" \t", b":", b"X: y", b" folded", b"a=1&b=2", b"%", b"%zz", b"&&=&", b"v",
    b"; name=\"" + b"\\\"" * 5, b"=" * 3,
]
ARB_CTYPES = [
    "multipart/form-data; boundary=B", "multipart/form-data;boundary=B", 'multipart/form-data; boundary="B"', "multipart/form-data",
    "multipart/form-data; boundary=", 'multipart/form-data; boundary="', 'multipart/form-data; boundary=""', "multipart/form-dataxyz; boundary=B",
    "multipart/form-data; boundary=B; boundary=C", "multipart/form-data; charset=x; boundary=B; q", "multipart/form-data; boundary=ä",
    "multipart/form-data; Boundary=B", "multipart/form-data; boundary=\U0001f600B", "application/x-www-form-urlencoded",
    "application/x-www-form-urlencoded; charset=utf-8", "application/x-www-form-urlencodedxyz", "application/json", "", "multipart/mixed; boundary=B",
]
arbitrary_s = st.fixed_dictionaries({
    "ctype": st.one_of(st.sampled_from(ARB_CTYPES), st.sampled_from(ARB_CTYPES[:3])),
    "frags": st.lists(st.one_of(st.integers(0, len(ARB_FRAGS) - 1), st.binary(max_size=5)), max_size=24),
    "cfg": _cfg,
    "content_encoding": st.sampled_from([None, None, None, "gzip"]),
})


def run_arbitrary(ctx, case):
    body = b"".join(ARB_FRAGS[x] if isinstance(x, int) else x for x in case["frags"])
    headers = HTTPHeaders({"Content-Encoding": case["content_encoding"]}) if case["content_encoding"] else None
    ok, a, f = call_total(ctx, "C30.arbitrary", case["ctype"], body, headers, make_cfg(case["cfg"]))
    labels = {"arbitrary_accepted" if ok else "arbitrary_clean_failure"}
    if ok and (a or f):
        labels.add("arbitrary_parsed_something")
    ctx.note(case, labels, case["ctype"].startswith("multipart/form-data"))


PARTS = {"form": run_form, "mutate": run_mutate, "arbitrary": run_arbitrary}


def main(ctx):
    ctx.run_replays(PARTS)
    ctx.explore(form_s, run_form, ctx.n(1200, 100000), name="form")
    ctx.explore(mutate_s, run_mutate, ctx.n(900, 60000), name="mutate")
    ctx.explore(arbitrary_s, run_arbitrary, ctx.n(700, 60000), name="arbitrary")
