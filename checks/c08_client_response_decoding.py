"""C08 — The HTTP client decodes any response stream exactly as a strict parser does.

Domain: one response byte stream per case, built from a grammar (0-2 interim 1xx responses, status
line variants, header list, body framing Content-Length / chunked / close-delimited / none,
gzip content-coding variants) plus ONE named mutation or a cut offset, so the reference class of
every case (MUST-ACCEPT(code, reason, headers, body) / MUST-REJECT / EITHER / FIRST-OR-ERROR) is
known by construction; ``httpref.parse_responses`` is run as an independent cross-check of the
accept and the reject-by-mutation classes (a disagreement is a harness error, not a violation).
The stream is delivered to ``SimpleAsyncHTTPClient`` (fake ``tcp_client`` -> MemoryIOStream, virtual
clock) twice: with the generated segmentation and in one segment; the end of the stream is FIN
(with or after the data), RST, or nothing (connection left open).  Options: method GET/HEAD/POST,
decompress_response, streaming_callback, header_callback, max_body_size / max_header_size placed
around the real sizes (including max_body_size=0: only empty bodies are acceptable), request/connect timeouts on or off.

Oracle: accept => fetch returns that code, reason, header multimap (Content-Encoding renamed to
X-Consumed-Content-Encoding when decoded) and body (== concatenation of streaming chunks);
reject => fetch fails (never returns a response); always: completes exactly once, is never
pending once FIN/RST and all timeouts were delivered, delivered body <= max_body_size, same
outcome for both segmentations.  EITHER classes (only the universal clauses + "a returned
response has the scripted status / a prefix of the decodable body"): bare-LF line endings,
obs-fold, empty line before the status line, chunk extensions, trailers, 204 with
Content-Length != 0 or Transfer-Encoding, invalid framing headers on bodiless responses,
HTTP-version other than 1.x, truncated / corrupt / garbage-suffixed gzip, close-delimited body
ended by RST, wire body larger than max_body_size although the decoded body fits, header block
larger than max_header_size.

History dimension: a case is one fetch or 2-3 fetches through ONE client (see M9 below); the oracle is per fetch.

Parts: "grid" = deterministic sweep (every mutation x 6 client/stream configurations; every gzip variant x framing
x decompress x max_body_size placement x streaming), "main" = Hypothesis exploration.

Open findings on the current tree (known_findings.d/C08.json, findings_inbox/C08-*.md), each with a narrow sig:
  close-delimited body ignores max_body_size; 1xx fall-through in _read_message (extra bytes to streaming_callback,
  1xx returned as the response); malformed head never reported (hang without timeouts); multi-member gzip truncated
  to the first member.  All four disappear (no KNOWN-FINDING line, 0 violations) with the proposed patches applied.

Oracle corrections made while building (false alarms, not findings): identical duplicated Content-Length values may
be collapsed to one value in the returned headers (RFC 9110 8.6 allows it); invalid framing headers on bodiless
responses (HEAD/204/304) are EITHER, not reject - EITHER about accepting or rejecting the response only: delivering
body bytes for such a response is always a violation.

Sensitivity (quick tier, seed 1, scratch copies of /repo/tornado, one mutant at a time):
  M1 _read_message: skip the 1xx "Content-Length/Transfer-Encoding" check          -> caught  C08.reject_returned_response
  M2 _read_body: 204 treated like 200 (204 branch disabled)                        -> caught  C08.accept_no_response (peer keeps
     the connection open; first version of the check missed it: no 204 without Content-Length + open connection was
     generated -> grid row + label no_body_status_no_framing_header_peer_open added)
  M3 _read_message: HEAD no longer sets skip_body                                  -> caught  C08.accept_no_response
  M4 _GzipMessageDelegate.data_received: decompressed-size check removed           -> caught  C08.body_exceeds_max_body_size
  M5 _read_chunked_body: CRLF after chunk data not checked                         -> caught  C08.reject_returned_response
  M6 _read_body: unequal duplicate Content-Length values accepted                  -> caught  C08.reject_returned_response
  M11 _GzipMessageDelegate._next_member: "too short to tell" test wrong for EMPTY leftover (later gzip members dropped when a
     delivery boundary falls exactly at the end of a member)  -> caught at seeds 1,2,3  C08.body_mismatch - by the deterministic
     family "multi-member gzip x segment boundary / HTTP chunk boundary exactly at the member end" (grid; case field
     `seg_member_end`), added after a re-verification showed that sampling alone had stopped finding it at some seeds.
     Harness fix from the same re-verification: the generator-vs-reference self-check compared headers as one ordered list across
     names (tree-independent, but it fired as exit 2 while a new header kind was being added); it now compares per-name
     multimaps, and the tree-dependent assertions ("client did not connect", history member not run, unexpected exception from
     _Connector.start) are reported as violations instead of harness errors.
  M10 HTTPHeaders.parse_line: obs-fold continuation trimmed with str.strip() instead of strip(HTTP_WHITESPACE) (0x85 / 0xA0 at
     the edge of a folded line are lost; 0x1c-0x1f there are silently dropped instead of rejected)
     -> caught at seeds 1,2,3  C08.folded_header_value.  Found by independent "boundary / encoding" mutation testing: the obs-fold
     EITHER class only compared the status.  Added: if a folded response is accepted, its header multimap must equal the two
     parts joined by SP(s) with every other octet intact; mutations value_edge_obstext (accept) / fold_edge_obstext (EITHER) /
     value_edge_ctl / fold_edge_ctl (reject: CTL is never field content) with a deterministic family over every octet that
     str.strip() eats but HTTP does not (0x0b 0x0c 0x1c-0x1f 0x7f 0x85 0xA0, plus 0x80 / 0xFF) x begin / end / both ends x plain
     value / fold continuation; 0x85 and 0xA0 were added to the value alphabet.
  M9 _create_connection: HTTP1ConnectionParameters built once and cached on the CLIENT although `decompress` is per request
     -> caught at seeds 1,2,3 (C08.headers / C08.body_mismatch on the later fetch).  Found by independent "state carried over"
     mutation testing: every case used a fresh client for a single fetch.  REUSE is now a generated dimension: a case may carry a
     `history` of 1-2 further fetches through the SAME client (about 40 % of sampled cases + deterministic grid rows: every
     (decompress, streaming, header_callback) x (decompress, ...) pair on gzip and plain bodies, 3-fetch orders, and re-use of the
     client after a malformed / corrupt / left-open / truncated / reset fetch); per-request options and the scripted stream
     differ per fetch, client limits are those of the first fetch, each response is judged independently (log records per fetch).
  M8 _read_body: the 204 check lost its `is_chunked or` term (204 + Transfer-Encoding: chunked delivers the chunk data)
     -> caught at seeds 1,2,3  C08.body_delivered_for_bodiless_response.  Found by independent mutation testing: the
     "invalid framing headers on a body-less response" EITHER class only compared the status, and the only 204+TE case sent
     an empty chunked body.  New universal clause: a 204 / 304 / response to HEAD never delivers a non-empty body (response.body
     and streaming chunks), whatever the class; new mutations bodiless_{te,cl,both}_payload put TE: chunked + chunk data,
     Content-Length > 0 + data, or both behind a 204 / 304 / HEAD response (they keep the case's own body-less form).
  M7 SimpleAsyncHTTPClient.initialize: `self.max_body_size = max_body_size or max_buffer_size` (0 treated like None)
     -> caught at seeds 1,2,3  C08.body_exceeds_max_body_size (max_body_size=0, 1200-byte body delivered).  Found by
     independent mutation testing: limits used to be clamped to >= 1; now max_body_size=0 is a placement of its own in the
     strategy (("Z", 0)), in the gzip x framing x decompress x streaming grid, and in a sweep of empty / 1-byte / small
     bodies x framing x streaming x (plain, interim, 204, HEAD, gzip, connection left open); limits relative to an empty
     body are no longer clamped either.  (HTTPRequest has no per-request max_body_size, so the client level is the only channel.)
"""
import gzip as _gzip
import re

from hypothesis import strategies as st

from tornado.httpclient import HTTPRequest

from vlib import clientharness as ch
from vlib import httpref, vtime
from vlib.httpharness import LogCapture

PROPERTY = "C08"
READY = True
RULE = (
    "Hypothesis draws a response description (interim 1xx list, version, status, reason, header list, "
    "framing, payload <=16 KiB, gzip variant, chunk sizes) plus one named mutation out of ~60 or a cut "
    "offset, an end-of-stream kind (FIN with data / FIN later / RST / left open), a segmentation, and client "
    "options (method, decompress, streaming/header callbacks, max_body_size and max_header_size at the real "
    "sizes -1/0/+k, timeouts on/off); each case is run with the generated segmentation and in one segment. "
    "non-trivial = >=2 segments delivered and (interim response or chunked or gzip or a mutation/cut); "
    "distinct = SHA-1 of the case"
)
ASSUMPTIONS = [
    "the class of each case (accept/reject/either) is fixed by construction from RFC 9110/9112 and cross-checked "
    "against vlib/httpref.py; httpref is the 'strict HTTP/1.1 reader' of the statement",
    "gzip content-coding = RFC 1952 file format (one or more members), reference decoder = zlib",
    "Tornado's documented leniencies (bare LF, obs-fold, leading empty line) and unsupported features (chunk "
    "extensions, trailers) are EITHER classes: only universal safety is asserted",
    "max_buffer_size is left at its default (100 MB) so max_body_size is the only size limit in play",
    "a rejected stream that is only reported at the request timeout counts as 'fails with an error'; with "
    "timeouts disabled (0) and the peer's FIN delivered the fetch must still complete",
]
TECHNIQUE = "property-based testing (Hypothesis): grammar + named mutations with a by-construction three-valued reference, in-memory transport, virtual clock, differential over segmentations"
LEVEL_TEXT = (
    "exploration: a few hundred (quick) to ~40k (thorough) generated response streams, bodies <= 16 KiB, one "
    "mutation per stream, two segmentations each; no claim beyond the generated grammar"
)
SHARDS = 16

# --------------------------------------------------------------------------- mutation tables
HEAD_REJECT = [  # malformed status line / header block of the final response
    "status_no_sp", "status_2digit", "status_4digit", "status_alpha", "status_double_sp",
    "version_short", "version_long", "version_lower", "version_alpha",
    "header_no_colon", "header_sp_before_colon", "header_bad_name", "header_empty_name",
    "header_nul_value", "header_del_value", "header_ctl_value", "header_bare_cr_value",
    # a control character (0x0b, 0x0c, 0x1c-0x1f, 0x7f: whitespace for str.strip(), but not HTTP whitespace) at the edge of
    # a field value / of an obs-fold continuation: never valid field content
    "value_edge_ctl", "fold_edge_ctl",
]
CL_REJECT = [
    "cl_conflict", "cl_plus", "cl_neg", "cl_hex", "cl_space", "cl_empty", "cl_underscore", "cl_sup2",
    "cl_list_diff", "cl_huge20", "cl_huge4400", "cl_te_both", "cl_short",
]
TE_REJECT = ["te_unknown", "te_identity", "te_list", "te_dup"]
CHUNK_REJECT = [
    "chunk_size_zz", "chunk_size_empty", "chunk_size_neg", "chunk_size_0x", "chunk_size_trailing_sp",
    "chunk_size_plus", "chunk_no_crlf", "chunk_lf_only", "chunk_missing_last", "chunk_short_data",
]
INTERIM_REJECT = ["interim_cl", "interim_te"]
# value_edge_obstext: an obs-text octet that str.strip() would eat (0x85 NEL, 0xA0 NBSP) or a plain one at the edge of a value
ACCEPT_VARIANTS = ["cl_dup_same", "cl_list_same", "cl_leading_zeros", "te_case", "value_edge_obstext"]
EDGE_OBSTEXT = [0x80, 0x85, 0xA0, 0xFF]
EDGE_CTL = [0x0B, 0x0C, 0x1C, 0x1D, 0x1E, 0x1F, 0x7F]
FOLD_EITHER = {"obs_fold", "fold_edge_obstext"}
EITHER_MUTS = [
    "bare_lf", "bare_lf_one", "obs_fold", "leading_crlf", "chunk_ext", "chunk_trailer",
    "nobody_cl_nonzero_204", "nobody_te_204", "version_20", "version_09",
    # a body-less response (204 / 304 / answer to HEAD) that announces a body AND is followed by those bytes: the client
    # may ignore or reject the header, but must never deliver the bytes as the body of this response
    "bodiless_te_payload", "bodiless_cl_payload", "bodiless_both_payload",
    # obs-fold whose continuation text begins / ends with an obs-text octet (0x85, 0xA0, ...): if the client accepts the fold,
    # the value is the two parts joined by SP(s) with those octets intact
    "fold_edge_obstext",
]
BODILESS_PAYLOAD = {"bodiless_te_payload", "bodiless_cl_payload", "bodiless_both_payload"}
FIRST_OR_ERROR = ["trailing_bytes"]

CL_GROUP = set(CL_REJECT) | {"cl_dup_same", "cl_list_same", "cl_leading_zeros"}
CHUNK_GROUP = set(CHUNK_REJECT) | {"chunk_ext", "chunk_trailer", "te_case"}
FRAMING_REJECT = set(CL_REJECT) | set(TE_REJECT) | set(CHUNK_REJECT)
ALL_MUTS = (HEAD_REJECT + CL_REJECT + TE_REJECT + CHUNK_REJECT + INTERIM_REJECT + ACCEPT_VARIANTS
            + EITHER_MUTS + FIRST_OR_ERROR)

HEADER_NAMES = ["X-A", "x-a", "X-b", "Set-Cookie", "Content-Type", "Etag", "Server", "set-cookie"]
VALUE_ALPHABET = "ab1,;=\"/ \t\xe9\xff~\x85\xa0"
REASONS = ["OK", "", "Not Found", "Caf\xe9 \xff!", "a\tb", "Continue"]
CODES = [200, 200, 200, 204, 206, 301, 304, 404, 500]


# --------------------------------------------------------------------------- strategy
def _value():
    return st.text(alphabet=VALUE_ALPHABET, max_size=8).map(lambda s: s.strip(" \t"))


payload_s = st.one_of(
    st.binary(max_size=40),
    st.binary(max_size=300),
    st.tuples(st.binary(min_size=1, max_size=6), st.integers(1, 2700)).map(lambda t: (t[0] * t[1])[:16384]),
)

seg_s = st.fixed_dictionaries({
    "sizes": st.lists(st.sampled_from([1, 1, 2, 3, 5, 7, 17, 64, 300]), min_size=0, max_size=40),
    "cycle": st.booleans(),
    "blk": st.sampled_from([500, 4096, 70000]),
})


@st.composite
def case_s(draw):
    """One fetch, or (about every third case) a history of 2-3 fetches through ONE client: per-request options
    (decompress_response, streaming/header callbacks, timeouts, method) and the scripted response vary per fetch, the
    client-level limits are those of the first fetch; every response is judged independently of the others."""
    case = draw(member_s())
    n_more = draw(st.sampled_from([0, 0, 0, 0, 1, 1, 2]))
    if n_more:
        case["history"] = [draw(member_s()) for _ in range(n_more)]
    return case


@st.composite
def member_s(draw):
    mut = draw(st.one_of(st.none(), st.none(), st.sampled_from(ALL_MUTS), st.sampled_from(ALL_MUTS)))
    cut = None
    if mut is None and draw(st.integers(0, 3)) == 0:
        cut = draw(st.integers(0, 1000))
    n_interim = draw(st.sampled_from([0, 0, 0, 1, 1, 2]))
    if mut in INTERIM_REJECT and n_interim == 0:
        n_interim = 1
    interim = [[draw(st.sampled_from([100, 102, 103])), draw(st.lists(st.tuples(st.sampled_from(HEADER_NAMES), _value()), max_size=2))]
               for _ in range(n_interim)]
    enc = draw(st.sampled_from([None, None, None, "gzip", "gzip", "multi", "trunc", "crc", "magic", "mid", "garbage"]))
    return {
        "method": draw(st.sampled_from(["GET", "GET", "GET", "HEAD", "POST"])),
        "interim": interim,
        "version": draw(st.sampled_from(["HTTP/1.1", "HTTP/1.1", "HTTP/1.0"])),
        "code": draw(st.sampled_from(CODES)),
        "reason": draw(st.sampled_from(REASONS)),
        "headers": draw(st.lists(st.tuples(st.sampled_from(HEADER_NAMES), _value(), st.sampled_from(["", " ", "\t", "  "])), max_size=4)),
        "fpos": draw(st.integers(0, 4)),
        "framing": draw(st.sampled_from(["cl", "cl", "chunked", "chunked", "close"])),
        "payload": draw(payload_s),
        "enc": enc,
        "trunc": draw(st.integers(1, 30)),
        "chunks": draw(st.lists(st.integers(1, 700), min_size=1, max_size=6)),
        "hexfmt": draw(st.integers(0, 2)),
        "mut": mut,
        "cut": cut,
        "end": draw(st.sampled_from(["eof", "eof", "eof_later", "open", "rst"])),
        "seg": draw(seg_s),
        "decompress": draw(st.booleans()),
        "streaming": draw(st.booleans()),
        "header_cb": draw(st.sampled_from([False, False, True])),
        "mbs": draw(st.one_of(st.none(), st.none(), st.tuples(st.sampled_from(["B", "W"]), st.sampled_from([-1, 0, 1, 40])),
                                 st.just(("Z", 0)))),
        "mhs": draw(st.one_of(st.none(), st.none(), st.none(), st.sampled_from([-1, 0, 7]))),
        "timeouts": draw(st.sampled_from([True, True, False])),
        "edge": draw(st.tuples(st.sampled_from(EDGE_OBSTEXT + EDGE_CTL), st.integers(0, 2))),
    }


# --------------------------------------------------------------------------- building the stream
def L1(s):
    return s.encode("latin-1")


def gz(data):
    return _gzip.compress(data, compresslevel=6, mtime=0)


def encode_body(payload, enc, trunc):
    """-> (wire_body W, gzip_kind) ; gzip_kind None|valid|multi|invalid_prefix|invalid_loose|garbage"""
    if enc is None:
        return payload, None
    if enc == "gzip":
        return gz(payload), "valid"
    if enc == "multi":
        h = len(payload) // 2
        return gz(payload[:h]) + gz(payload[h:]), "multi"
    g = gz(payload)
    if enc == "trunc":
        k = min(trunc, len(g) - 1)
        return g[: len(g) - k], "invalid_prefix"
    if enc == "crc":
        b = bytearray(g)
        b[-8] ^= 0x55
        return bytes(b), "invalid_prefix"
    if enc == "magic":
        b = bytearray(g)
        b[0] ^= 0xFF
        return bytes(b), "invalid_prefix"
    if enc == "mid":
        b = bytearray(g)
        b[10 + (len(g) - 18) // 2] ^= 0x10
        return bytes(b), "invalid_loose"
    if enc == "garbage":
        return g + b"GARBAGE!", "garbage"
    raise AssertionError(enc)


def chunk_pieces(W, sizes, hexfmt):
    """-> list of [size_line_without_crlf, data] for the data chunks"""
    out = []
    pos = 0
    i = 0
    while pos < len(W):
        n = min(sizes[i % len(sizes)], len(W) - pos)
        fmt = ["%x", "%X", "%04x"][hexfmt]
        out.append([(fmt % n).encode(), W[pos:pos + n]])
        pos += n
        i += 1
    return out


class Built:
    pass


def build(case):
    """Construct the byte stream and the reference verdict, by construction."""
    b = Built()
    mut = case["mut"]
    method = case["method"]
    code = case["code"]
    framing = case["framing"]
    payload = case["payload"]
    enc = case["enc"]
    labels = set()

    # -- make the case compatible with its mutation (the builder is the source of truth)
    interim_list = [list(x) for x in case["interim"]]
    if mut in INTERIM_REJECT and not interim_list:
        interim_list = [[100, []]]
    b.interim = interim_list
    if mut in CL_GROUP or (mut == "trailing_bytes" and framing == "close"):
        framing = "cl"
    if mut in CHUNK_GROUP:
        framing = "chunked"
        if not payload:
            payload = b"x"
    if mut in TE_REJECT:
        framing = "chunked"
    if mut in ("nobody_cl_nonzero_204", "nobody_te_204"):
        code = 204
        method = "GET" if method == "HEAD" else method
    if mut in ("cl_short",) and not payload:
        payload = b"xy"
    if mut in BODILESS_PAYLOAD:
        if not (method == "HEAD" or code in (204, 304)):
            code = 204  # keep the case's own body-less form (HEAD / 204 / 304) if it has one
        if not payload:
            payload = b"hello"
    nobody = method == "HEAD" or code in (204, 304)
    W, gzkind = encode_body(payload, enc, case["trunc"])
    b.member1_len = len(gz(payload[: len(payload) // 2])) if enc == "multi" else 0
    if mut == "cl_short" and not W:
        W = b"xy"

    # -- header list of the final response
    hdrs = []  # (name, raw value bytes incl. OWS, expected value str)
    for name, value, ows in case["headers"]:
        hdrs.append((name, L1(ows + value + ows), value))
    if enc is not None:
        hdrs.append(("Content-Encoding", b" gzip", "gzip"))
    fr = None
    if code == 204 and mut is None:
        # a plain 204 carries no framing header, or Content-Length: 0
        fr = [("Content-Length", b" 0", "0")] if framing == "cl" else []
    if fr is None:
        n = len(W)
        cl = str(n)
        if framing == "cl":
            fr = [("Content-Length", L1(" " + cl), cl)]
            if mut == "cl_conflict":
                fr = [("Content-Length", L1(" " + cl), cl), ("content-length", L1(" " + str(n + 1)), str(n + 1))]
            elif mut == "cl_plus":
                fr = [("Content-Length", L1(" +" + cl), "+" + cl)]
            elif mut == "cl_neg":
                fr = [("Content-Length", L1(" -" + cl), "-" + cl)]
            elif mut == "cl_hex":
                fr = [("Content-Length", L1(" 0x%x" % n), "0x%x" % n)]
            elif mut == "cl_space":
                fr = [("Content-Length", L1(" " + cl + " " + cl), cl + " " + cl)]
            elif mut == "cl_empty":
                fr = [("Content-Length", b"", "")]
            elif mut == "cl_underscore":
                fr = [("Content-Length", L1(" 1_" + cl), "1_" + cl)]
            elif mut == "cl_sup2":
                fr = [("Content-Length", L1(" " + cl + "\xb2"), cl + "\xb2")]
            elif mut == "cl_list_diff":
                fr = [("Content-Length", L1(" %d, %d" % (n, n + 1)), "%d, %d" % (n, n + 1))]
            elif mut == "cl_huge20":
                fr = [("Content-Length", b" 99999999999999999999", "9" * 20)]
            elif mut == "cl_huge4400":
                fr = [("Content-Length", b" " + b"9" * 4400, "9" * 4400)]
            elif mut == "cl_te_both":
                fr = [("Content-Length", L1(" " + cl), cl), ("Transfer-Encoding", b" chunked", "chunked")]
            elif mut == "cl_short":
                fr = [("Content-Length", L1(" " + str(n + 3)), str(n + 3))]
            elif mut == "cl_dup_same":
                fr = [("Content-Length", L1(" " + cl), cl), ("content-length", L1(" " + cl), cl)]
            elif mut == "cl_list_same":
                fr = [("Content-Length", L1(" %s, %s" % (cl, cl)), "%s, %s" % (cl, cl))]
            elif mut == "cl_leading_zeros":
                fr = [("Content-Length", L1(" 00" + cl), "00" + cl)]
            elif mut == "nobody_cl_nonzero_204":
                fr = [("Content-Length", L1(" " + str(max(n, 1))), str(max(n, 1)))]
        elif framing == "chunked":
            v = "chunked"
            if mut == "te_case":
                v = "Chunked"
            elif mut == "te_unknown":
                v = "gzip"
            elif mut == "te_identity":
                v = "identity"
            elif mut == "te_list":
                v = "identity, chunked"
            fr = [("Transfer-Encoding", L1(" " + v), v)]
            if mut == "te_dup":
                fr = fr + [("Transfer-Encoding", b" chunked", "chunked")]
        else:
            fr = []
        if mut == "nobody_te_204":
            fr = [("Transfer-Encoding", b" chunked", "chunked")]
    if mut in BODILESS_PAYLOAD:
        fr = []
        if mut in ("bodiless_cl_payload", "bodiless_both_payload"):
            fr.append(("Content-Length", L1(" %d" % len(W)), str(len(W))))
        if mut in ("bodiless_te_payload", "bodiless_both_payload"):
            fr.append(("Transfer-Encoding", b" chunked", "chunked"))
    pos = min(case["fpos"], len(hdrs))
    hdrs[pos:pos] = fr

    # -- status line
    version = case["version"]
    reason = case["reason"]
    sl = L1("%s %d %s" % (version, code, reason))
    if mut == "status_no_sp":
        sl = L1("%s %d" % (version, code))
    elif mut == "status_2digit":
        sl = L1("%s %d %s" % (version, code // 10, reason))
    elif mut == "status_4digit":
        sl = L1("%s %d0 %s" % (version, code, reason))
    elif mut == "status_alpha":
        sl = L1("%s 2x0 %s" % (version, reason))
    elif mut == "status_double_sp":
        sl = L1("%s  %d %s" % (version, code, reason))
    elif mut == "version_short":
        sl = L1("HTTP/1 %d %s" % (code, reason))
    elif mut == "version_long":
        sl = L1("HTTP/1.10 %d %s" % (code, reason))
    elif mut == "version_lower":
        sl = L1("http/1.1 %d %s" % (code, reason))
    elif mut == "version_alpha":
        sl = L1("HTTP/x.y %d %s" % (code, reason))
    elif mut == "version_20":
        sl = L1("HTTP/2.0 %d %s" % (code, reason))
    elif mut == "version_09":
        sl = L1("HTTP/0.9 %d %s" % (code, reason))

    lines = [sl] + [L1(n) + b":" + raw for n, raw, _ in hdrs]
    expected_headers = [(n, v) for n, _, v in hdrs]
    bad = {
        "header_no_colon": b"X-Bad value",
        "header_sp_before_colon": b"X-Bad : v",
        "header_bad_name": b"X(Bad): v",
        "header_empty_name": b": v",
        "header_nul_value": b"X-Bad: a\x00b",
        "header_del_value": b"X-Bad: a\x7fb",
        "header_ctl_value": b"X-Bad: a\x01b",
        "header_bare_cr_value": b"X-Bad: a\rb",
    }
    if mut in bad:
        lines.insert(1 + min(case["fpos"], len(lines) - 1), bad[mut])
    if mut in ("value_edge_obstext", "value_edge_ctl", "fold_edge_obstext", "fold_edge_ctl"):
        code_, pos_ = case.get("edge") or (0xA0, 0)
        pool = EDGE_OBSTEXT if mut.endswith("obstext") else EDGE_CTL
        ch_ = bytes([pool[code_ % len(pool)] if code_ < 0x100 and code_ not in pool else code_ if code_ in pool else pool[0]])
        text = [ch_ + b"mid", b"mid" + ch_, ch_ + b"mid" + ch_][pos_ % 3]
        if mut.startswith("value_edge"):
            k_ = min(case["fpos"], len(lines) - 1)
            lines.insert(1 + k_, b"X-Edge: \t" + text + b" \t")
            if mut == "value_edge_obstext":
                expected_headers.insert(k_, ("X-Edge", text.decode("latin-1")))
        else:
            lines.insert(1, b"X-Fold: v1")
            lines.insert(2, b" \t" + text + b"\t ")
            expected_headers.insert(0, ("X-Fold", "v1 " + text.decode("latin-1")))
    if mut == "obs_fold":
        lines.insert(1, b"X-Fold: v1")
        lines.insert(2, b"  \tcont")
        expected_headers.insert(0, ("X-Fold", "v1 cont"))
    eol = b"\r\n"
    if mut == "bare_lf":
        head = b"\n".join(lines) + b"\n\n"
    elif mut == "bare_lf_one":
        head = lines[0] + b"\r\n" + b"".join(ln + (b"\n" if i == 0 else b"\r\n") for i, ln in enumerate(lines[1:])) + b"\r\n"
        if len(lines) == 1:
            head = lines[0] + b"\n\r\n"
    else:
        head = eol.join(lines) + b"\r\n\r\n"
    if mut == "leading_crlf":
        head = b"\r\n" + head

    # -- interim responses
    iblocks = []
    for idx, (icode, ihdrs) in enumerate(interim_list):
        ilines = [L1("HTTP/1.1 %d %s" % (icode, {100: "Continue", 102: "Processing", 103: "Early Hints"}[icode]))]
        for n, v in ihdrs:
            ilines.append(L1(n + ": " + v))
        if idx == len(interim_list) - 1:
            if mut == "interim_cl":
                ilines.append(b"Content-Length: 0")
            elif mut == "interim_te":
                ilines.append(b"Transfer-Encoding: chunked")
        iblocks.append(b"\r\n".join(ilines) + b"\r\n\r\n")

    # -- body bytes on the wire
    trailing = b""
    if nobody:
        wire_body = b""
        if mut == "nobody_cl_nonzero_204":
            wire_body = W[:1] or b"x"
        elif mut == "nobody_te_204":
            wire_body = b"0\r\n\r\n"
        elif mut == "bodiless_cl_payload":
            wire_body = W
        elif mut in BODILESS_PAYLOAD:
            wire_body = b"".join(sz + b"\r\n" + data + b"\r\n"
                                 for sz, data in chunk_pieces(W, case["chunks"], case["hexfmt"])) + b"0\r\n\r\n"
    elif framing == "chunked" and mut not in TE_REJECT:
        pieces = chunk_pieces(W, case["chunks"], case["hexfmt"])
        k = 0  # index of the mutated piece
        last = b"0\r\n\r\n"
        enc_pieces = []
        for i, (szline, data) in enumerate(pieces):
            term = b"\r\n"
            szeol = b"\r\n"
            if i == k:
                if mut == "chunk_size_zz":
                    szline = b"zz"
                elif mut == "chunk_size_empty":
                    szline = b""
                elif mut == "chunk_size_neg":
                    szline = b"-" + szline
                elif mut == "chunk_size_0x":
                    szline = b"0x" + szline
                elif mut == "chunk_size_trailing_sp":
                    szline = szline + b" "
                elif mut == "chunk_size_plus":
                    szline = b"+" + szline
                elif mut == "chunk_no_crlf":
                    term = b"XY"
                elif mut == "chunk_lf_only":
                    szeol = b"\n"
                elif mut == "chunk_ext":
                    szline = szline + b";ext=1"
                elif mut == "chunk_short_data":
                    szline = b"%x" % (len(data) + 5)
            enc_pieces.append(szline + szeol + data + term)
        if mut == "chunk_missing_last":
            last = b""
        elif mut == "chunk_trailer":
            last = b"0\r\nX-Trailer: v\r\n\r\n"
        if mut == "chunk_short_data":
            enc_pieces = enc_pieces[:1]
            last = b""
        wire_body = b"".join(enc_pieces) + last
    else:
        wire_body = W
    if mut == "trailing_bytes":
        trailing = b"HTTP/1.1 200 OK\r\n" if len(W) % 2 else b"XYZ"

    b.stream = b"".join(iblocks) + head + wire_body + trailing
    b.head_end = len(b"".join(iblocks)) + len(head)
    b.blocks = [len(x) for x in iblocks] + [len(head)]
    b.method, b.code, b.nobody, b.framing, b.W, b.payload, b.gzkind = method, code, nobody, framing, W, payload, gzkind
    b.reason = reason
    b.mut = mut

    # -- reference verdict from the structure of the stream
    decode = case["decompress"] and enc is not None
    exp_headers = list(expected_headers)
    if decode:
        exp_headers = [(n, v) for n, v in exp_headers if n.lower() != "content-encoding"] + [("X-Consumed-Content-Encoding", "gzip")]
    b.exp_headers = exp_headers
    b.decode = decode

    cut = None
    if case["cut"] is not None and mut is None:
        cut = (len(b.stream) * case["cut"]) // 1000
        if cut >= len(b.stream):
            cut = None
    b.cut = cut
    delivered = b.stream if cut is None else b.stream[:cut]
    b.delivered = delivered
    end = case["end"]

    verdict = None  # (kind, why)
    body_wire = W  # the wire body a strict reader extracts (before content decoding)
    if mut in HEAD_REJECT:
        verdict = ("reject", "head:" + mut)
    elif mut in INTERIM_REJECT:
        verdict = ("reject", "interim:" + mut)
    elif mut in FRAMING_REJECT:
        verdict = ("either", "framing_mut_on_bodiless") if nobody else ("reject", "framing:" + mut)
    elif mut in EITHER_MUTS:
        verdict = ("either", mut)
    elif code == 204 and any(n.lower() == "transfer-encoding" or (n.lower() == "content-length" and v.strip("0") != "")
                             for n, _, v in fr):
        verdict = ("either", "nobody_cl_nonzero_204")
    elif mut == "trailing_bytes":
        verdict = ("first_or_error", "trailing_bytes")
    if verdict is None or verdict[0] == "first_or_error":
        # structurally valid stream (possibly cut)
        complete = True
        if cut is not None:
            if cut < b.head_end:
                complete = False
                verdict = ("reject", "cut_in_head")
            elif nobody:
                pass
            elif framing == "close":
                body_wire = W[: cut - b.head_end]
            else:
                complete = False
                verdict = ("reject", "cut_in_body")
        if complete and verdict is None:
            self_delimited = nobody or framing in ("cl", "chunked")
            if end == "open" and not self_delimited:
                verdict = ("reject", "open_close_delimited")
            elif end == "rst" and not self_delimited:
                verdict = ("either", "rst_close_delimited")
        elif not complete and end == "open":
            verdict = ("reject", "open_incomplete:" + verdict[1])
    b.body_wire = b"" if nobody else body_wire
    # content decoding
    b.gz_prefix_of = None
    if verdict is None or verdict[0] == "first_or_error":
        if nobody or not decode:
            exp_body = b.body_wire
        else:
            if body_wire != W:  # cut close-delimited gzip
                if gzkind in ("valid", "multi", "garbage", "invalid_prefix"):
                    verdict = ("either", "gzip_cut")
                    b.gz_prefix_of = payload
                else:
                    verdict = ("either", "gzip_loose")
                exp_body = None
            elif gzkind in ("valid", "multi"):
                exp_body = payload
                if gzkind == "multi":
                    labels.add("gzip_multi_member")
            elif gzkind in ("invalid_prefix", "garbage"):
                verdict = ("either", "gzip_" + enc)
                b.gz_prefix_of = payload
                exp_body = None
            else:
                verdict = ("either", "gzip_loose")
                exp_body = None
    else:
        exp_body = None
    if verdict is None:
        verdict = ("accept", "")
    b.exp_body = exp_body

    # -- limits
    b.max_body_size = None
    if case["mbs"] is not None:
        base = len(exp_body) if (case["mbs"][0] == "B" and exp_body is not None) else len(b.body_wire)
        # ("Z", 0): the boundary configuration max_body_size=0 - only empty bodies are acceptable (0 is a limit, not "unset")
        b.max_body_size = 0 if case["mbs"][0] == "Z" else max(0, base + case["mbs"][1])
    b.max_header_size = None
    if case["mhs"] is not None:
        b.max_header_size = max(20, max(b.blocks) + case["mhs"])
    if case.get("client_limits") is not None:
        # later fetch of a history: the limits are the client's, fixed by the first fetch of the case
        b.max_body_size, b.max_header_size = case["client_limits"]
    if verdict[0] in ("accept", "first_or_error"):
        M = b.max_body_size
        if M is not None and not nobody:
            if len(exp_body) > M:
                verdict = ("reject", "body_over_max" + (":close_delimited_plain" if framing == "close" and not decode else ""))
            elif len(b.body_wire) > M:
                verdict = ("either", "wire_over_max")
        if verdict[0] != "reject" and b.max_header_size is not None and max(b.blocks) > b.max_header_size:
            verdict = ("either", "header_over_limit")
    b.verdict = verdict

    # -- labels
    if interim_list:
        labels.add("interim_1xx")
    if method == "HEAD":
        labels.add("head")
    if mut in BODILESS_PAYLOAD:
        labels.add("bodiless_with_payload_%s" % ("head" if method == "HEAD" else code))
    if code in (204, 304):
        labels.add("no_body_status")
        if not fr and end == "open":
            labels.add("no_body_status_no_framing_header_peer_open")
    if framing == "close" and not nobody:
        labels.add("close_delimited")
    if framing == "chunked" and not nobody:
        labels.add("chunked")
    if enc is not None:
        labels.add("gzip")
        if decode:
            labels.add("gzip_decoded")
    if mut is not None:
        labels.add("mutated")
        labels.add("mut:" + mut)
    if cut is not None:
        labels.add("cut")
    labels.add("class_" + verdict[0])
    if verdict[0] == "reject":
        labels.add("reject_expected")
    if verdict[0] == "either":
        labels.add("either:" + verdict[1].split(":")[0])
    if b.max_body_size is not None:
        labels.add("max_body_size")
        if b.max_body_size == 0:
            labels.add("max_body_size_zero")
            if not nobody and len(b.body_wire) > 0:
                labels.add("max_body_size_zero_nonempty_body")
    b.labels = labels
    return b


def cross_check(b, case):
    """httpref must agree with the by-construction class where it can decide (harness self-check)."""
    kind = b.verdict[0]
    if kind == "accept":
        try:
            rs = httpref.parse_responses(b.delivered, [b.method], closed=True)
        except httpref.RefError as e:
            raise AssertionError("generator/reference disagreement (accept vs RefError %s): %r" % (e, case))
        fin = rs[-1]
        if fin.code != b.code or fin.body != b.body_wire or len(rs) != len(b.interim) + 1:
            raise AssertionError("generator/reference disagreement on accept result: %r vs %r" % (fin, case))
        # (tree-independent self-check of generator vs reference reader; per-name value lists - the relative order of
        # DIFFERENT names is not part of the header multimap)
        want = multimap([(n, v) for n, v in b.exp_headers if n.lower() not in ("x-consumed-content-encoding",)])
        got = multimap([(n, v) for n, v in fin.headers if not (b.decode and n.lower() == "content-encoding")])
        if want != got:
            raise AssertionError("generator/reference disagreement on headers: %r vs %r" % (got, want))
    if kind == "reject" and b.mut is not None and b.verdict[1].split(":")[0] in ("head", "interim", "framing"):
        try:
            httpref.parse_responses(b.stream, [b.method], closed=True)
        except httpref.RefError:
            return
        except ValueError:
            if b.mut == "cl_huge4400":  # httpref itself hits Python's int-digit limit: not a number it can accept
                return
            raise
        raise AssertionError("generator/reference disagreement (reject-by-mutation accepted by httpref): %r" % (case,))


# --------------------------------------------------------------------------- running the client
def segments_for(n, seg, one):
    if one or n == 0:
        return None
    sizes = list(seg["sizes"])
    if not sizes:
        return None
    out = []
    total = 0
    limit = 600
    while total < n and len(out) < limit:
        for s in sizes:
            out.append(s)
            total += s
            if total >= n or len(out) >= limit:
                break
        if not seg["cycle"]:
            break
    while total < n:
        out.append(seg["blk"])
        total += seg["blk"]
    return out


def run_members(members, one_segment):
    """Run the fetches of one case - one or several, through ONE SimpleAsyncHTTPClient, one after the other, each with its
    own per-request options and its own scripted connection - and return one state dict per fetch."""
    states = [{"chunks": [], "hlines": []} for _ in members]
    b0 = members[0][1]

    async def scenario(logs):
        fake = ch.FakeTCPClient()
        ckw = {}
        if b0.max_body_size is not None:
            ckw["max_body_size"] = b0.max_body_size
        if b0.max_header_size is not None:
            ckw["max_header_size"] = b0.max_header_size
        client = ch.make_client(fake, **ckw)
        for idx, (case, b) in enumerate(members):
            state = states[idx]
            chunks, hlines = state["chunks"], state["hlines"]
            log0 = len(logs.records)
            kw = dict(method=b.method, follow_redirects=False, decompress_response=case["decompress"])
            if b.method == "POST":
                kw["body"] = b"x=1"
            if case["streaming"]:
                kw["streaming_callback"] = chunks.append
            if case["header_cb"]:
                kw["header_callback"] = hlines.append
            if not case["timeouts"]:
                kw["connect_timeout"] = 0
                kw["request_timeout"] = 0
            req = HTTPRequest("http://h.test/p?q=1", **kw)
            n0 = len(fake.calls)
            fut = client.fetch(req, raise_error=False)
            dc = ch.DoneCounter(fut)
            await ch.settle(fake)
            if len(fake.calls) != n0 + 1 or fake.calls[n0].stream is None:
                state["no_connect"] = True
                break
            s = fake.calls[n0].stream
            state["request"] = bytes(s.wire)
            data = b.delivered
            segs = segments_for(len(data), case["seg"], one_segment)
            if case.get("seg_member_end") and not one_segment and b.member1_len:
                # a TCP segment ends exactly where the first gzip member ends (then `seg_member_end`-byte segments)
                segs = [b.head_end + b.member1_len] + [case["seg_member_end"]] * 40
            s.feed(data, segs)
            end = case["end"]
            if end == "eof":
                s.feed_eof()
            elif end == "rst":
                s.feed_reset()
            await ch.settle(fake)
            if end == "eof_later":
                s.feed_eof()
                await ch.settle(fake)
            state["done_at_quiescence"] = fut.done()
            if not fut.done() and case["timeouts"]:
                await ch.advance(fake, 25.0)
                state["late"] = True
            state["outcome"] = ch.outcome(fut)
            state["done_count"] = dc.count
            state["segments"] = s.read_calls
            state["stream_closed"] = s.closed()
            # orderly teardown of this connection: nothing may outlive the case (or leak into the next fetch)
            if not s.closed():
                s.feed_eof()
                await ch.settle(fake)
                if not s.closed():
                    s.close()
                    await ch.settle(fake)
            state["outcome_after_teardown"] = ch.outcome(fut)
            state["done_count_final"] = dc.count
            state["log_errors"] = [r for r in logs.records[log0:]
                                   if r[0] in ("tornado.application", "tornado.general", "asyncio") and r[1] >= 40]
        client.close()

    with LogCapture() as logs:
        vtime.run(scenario, logs)
    return states


def multimap(pairs):
    d = {}
    for n, v in pairs:
        d.setdefault(n.lower(), []).append(v)
    return d


def summarize(o):
    if o[0] == "response":
        r = o[1]
        return ("response", r.code, r.reason, sorted(multimap(r.headers.get_all()).items()), r.body)
    if o[0] == "error":
        return ("error", type(o[1]).__name__, str(o[1])[:200])
    return ("pending",)


def evaluate(ctx, case, b, st_, tag):
    kind, why = b.verdict
    o = st_["outcome"]
    summ = summarize(o)
    interim = bool(b.interim)
    base = {"run": tag, "class": kind, "why": why, "outcome": summ, "stream": b.delivered[:600], "end": case["end"]}

    # the request the client wrote must itself be one well-formed request of the right method
    try:
        rq = ch.parse_request(st_["request"])
    except ch.ReqError as e:
        ctx.fail("C08.request_malformed", dict(base, error=str(e), request=st_["request"][:400]))
        rq = None
    if rq is not None and rq.method != b.method:
        ctx.fail("C08.request_method", dict(base, got=rq.method))

    # ---- universal clauses
    if st_["done_count_final"] > 1:
        ctx.fail("C08.completes_more_than_once", dict(base, count=st_["done_count_final"]))
    peer_finished = case["end"] in ("eof", "eof_later", "rst")
    if o[0] == "pending":
        legit_wait = (not case["timeouts"]) and not peer_finished
        if not legit_wait:
            sig = "C08.fetch_never_completes"
            head_refused = (kind == "reject" and why.startswith("head:")) or (kind == "either" and why in ("version_20", "version_09"))
            # (with an interim response in front the current tree returns the 1xx instead - fall-through finding -
            # so this class only shows up there once that one is repaired; the root cause is the same as without 1xx)
            if head_refused and not case["timeouts"]:
                sig = "C08.fetch_never_completes.malformed_head_no_timeout"
            ctx.fail("C08.fetch_never_completes", dict(base, timeouts=case["timeouts"]), sig=sig)
            return summ
    # Structural class of the open finding "after an interim response _read_message falls through and reads a
    # body for the 1xx": an interim response was sent, the request is not HEAD, and the symptom is one of
    # (i) bytes reach streaming_callback that are not part of the final body, (ii) the 1xx itself is returned.
    fall_stream = interim and b.method != "HEAD" and case["streaming"]
    fall_1xx = interim and o[0] == "response" and o[1].code in (100, 102, 103)
    delivered_body = b"".join(st_["chunks"]) if case["streaming"] else (o[1].body if o[0] == "response" else b"")
    if b.max_body_size is not None and len(delivered_body) > b.max_body_size:
        sig = "C08.body_exceeds_max_body_size"
        if b.framing == "close" and not b.nobody and not b.decode and not fall_1xx:
            sig = "C08.body_exceeds_max_body_size.close_delimited_plain"
        elif fall_1xx or fall_stream:
            # leftover bytes of the connection are handed to streaming_callback after the final response (open finding)
            sig = "C08.after_interim_fallthrough"
        ctx.fail("C08.body_exceeds_max_body_size",
                 dict(base, delivered=len(delivered_body), max_body_size=b.max_body_size), sig=sig)
        return summ

    if b.nobody and delivered_body:
        # whatever the class: 204 / 304 / a response to HEAD has no body - bytes after its header block belong to the
        # next response (or are garbage), also when Content-Length / Transfer-Encoding announce a body
        ctx.fail("C08.body_delivered_for_bodiless_response",
                 dict(base, code=b.code, method=b.method, delivered=delivered_body[:100], delivered_len=len(delivered_body)))
        return summ

    def compare_response(clause_prefix, exp_body):
        r = o[1]
        if r.code != b.code:
            ctx.fail(clause_prefix + "_code", dict(base, want=b.code), sig=clause_prefix + "_code")
        if b.reason and r.reason != b.reason:
            ctx.fail("C08.reason", dict(base, want=b.reason))
        got_h, want_h = multimap(r.headers.get_all()), multimap(b.exp_headers)
        if got_h != want_h and b.mut in ("cl_dup_same", "cl_list_same"):
            # RFC 9110 8.6: a recipient MAY replace identical duplicated Content-Length values by the single value
            want_h = dict(want_h, **{"content-length": [str(len(b.W))]})
        if got_h != want_h:
            ctx.fail("C08.headers", dict(base, want=sorted(want_h.items())))
        if case["streaming"]:
            got = b"".join(st_["chunks"])
            if r.body != b"":
                ctx.fail("C08.streaming_body_not_empty", dict(base))
        else:
            got = r.body
            if st_["chunks"]:
                ctx.fail("C08.unexpected_streaming", dict(base))
        if got != exp_body:
            sig = "C08.body_mismatch"
            if b.gzkind == "multi" and b.decode and exp_body.startswith(got) and got == b.payload[: len(b.payload) // 2]:
                sig = "C08.body_mismatch.gzip_multi_member_first_only"
            elif b.mut == "trailing_bytes" and fall_stream and got.startswith(exp_body):
                sig = "C08.after_interim_fallthrough"
            ctx.fail("C08.body_mismatch", dict(base, got=got[:200], got_len=len(got), want=exp_body[:200], want_len=len(exp_body),
                                               chunks=[c[:40] for c in st_["chunks"][:8]]), sig=sig)
        if case["header_cb"]:
            check_header_callback(ctx, base, b, st_["hlines"])

    if kind == "accept":
        if o[0] != "response":
            ctx.fail("C08.accept_no_response", dict(base, late=st_.get("late", False)))
            return summ
        if st_.get("late"):
            ctx.fail("C08.accept_only_after_timeout", dict(base))
        compare_response("C08.accept", b.exp_body)
        errs = st_["log_errors"]
        if errs:
            ctx.fail("C08.error_logged_on_valid_response", dict(base, logs=errs[:3]))
    elif kind == "reject":
        if o[0] == "response":
            sig = "C08.reject_returned_response"
            if why == "body_over_max:close_delimited_plain":
                sig = "C08.body_exceeds_max_body_size.close_delimited_plain"
            elif fall_1xx and why.startswith("head:"):
                sig = "C08.after_interim_fallthrough"
            elif b.gzkind == "multi" and b.decode and why == "body_over_max" and delivered_body == b.payload[: len(b.payload) // 2]:
                # open finding: only the first gzip member is decoded (so the size limit is never reached)
                sig = "C08.body_mismatch.gzip_multi_member_first_only"
            ctx.fail("C08.reject_returned_response", dict(base), sig=sig)
    elif kind == "first_or_error":
        if o[0] == "response":
            compare_response("C08.first", b.exp_body)
    else:  # either
        if o[0] == "response":
            r = o[1]
            if r.code != b.code and why not in ("version_20", "version_09"):
                ctx.fail("C08.either_wrong_status", dict(base, want=b.code))
            if why in FOLD_EITHER:
                # a client that accepts the fold replaces it by one or more SP (RFC 9112 5.2) and keeps every other octet
                norm = lambda d: {k: [re.sub(r"^v1 +", "v1 ", v) for v in vs] for k, vs in d.items()}  # noqa: E731
                if norm(multimap(r.headers.get_all())) != norm(multimap(b.exp_headers)):
                    ctx.fail("C08.folded_header_value", dict(base, want=sorted(multimap(b.exp_headers).items())))
            if b.gz_prefix_of is not None:
                got = b"".join(st_["chunks"]) if case["streaming"] else r.body
                if not b.gz_prefix_of.startswith(got):
                    ctx.fail("C08.gzip_extra_bytes", dict(base, got=got[:200], payload=b.gz_prefix_of[:200]))
    return summ


def check_header_callback(ctx, base, b, hlines):
    text = "".join(hlines)
    blocks = text.split("\r\n\r\n")
    if len(blocks) < 2 or blocks[-1] != "":
        ctx.fail("C08.header_callback_shape", dict(base, lines=hlines[:12]))
        return
    last = blocks[-2].split("\r\n")
    parts = last[0].split(" ", 2)
    if len(parts) < 2 or parts[1] != str(b.code):
        ctx.fail("C08.header_callback_status", dict(base, line=last[0]))
    pairs = []
    for ln in last[1:]:
        n, _, v = ln.partition(": ")
        pairs.append((n, v))
    if multimap(pairs) != multimap(b.exp_headers):
        ctx.fail("C08.header_callback_headers", dict(base, got=pairs, want=b.exp_headers))


DETERMINISTIC_EITHER = {"bare_lf", "bare_lf_one", "obs_fold", "leading_crlf", "chunk_ext", "chunk_trailer",
                        "nobody_cl_nonzero_204", "nobody_te_204", "version_20", "version_09",
                        "bodiless_te_payload", "bodiless_cl_payload", "bodiless_both_payload", "fold_edge_obstext",
                        "framing_mut_on_bodiless", "wire_over_max", "header_over_limit"}


def members_of(case):
    """The fetches of a case: the case itself plus the optional `history` of further fetches through the same client."""
    b = build(case)
    out = [(case, b)]
    for extra in case.get("history") or []:
        m = dict(extra)
        m["client_limits"] = (b.max_body_size, b.max_header_size)
        out.append((m, build(m)))
    return out


def run_case(ctx, case):
    members = members_of(case)
    for m, b in members:
        cross_check(b, m)
    sts1 = run_members(members, one_segment=False)
    sts2 = run_members(members, one_segment=True)
    if any(st.get("no_connect") or "outcome" not in st for st in sts1 + sts2):
        # depends on the tree under test (the client did not open exactly one connection for a fetch): a violation
        ctx.fail("C08.no_connection_for_fetch", {"case": {k: v for k, v in case.items() if k not in ("payload", "history")}})
        ctx.note(case, {"no_connection"}, False)
        return
    labels = set()
    nontrivial = False
    for idx, (m, b) in enumerate(members):
        tag = "" if len(members) == 1 else "fetch#%d of %d through one client, " % (idx + 1, len(members))
        lab, nt = judge_member(ctx, m, b, sts1[idx], sts2[idx], tag)
        labels |= lab
        nontrivial = nontrivial or nt
    if len(members) > 1:
        labels.add("history_%d_fetches_one_client" % len(members))
        if len({m["decompress"] for m, _ in members}) > 1:
            labels.add("history_decompress_differs")
        if len({(m["streaming"], m["header_cb"], m["timeouts"], b.method) for m, b in members}) > 1:
            labels.add("history_request_options_differ")
    ctx.note(case, labels, nontrivial)


def judge_member(ctx, case, b, st1, st2, tag):
    s1 = evaluate(ctx, case, b, st1, tag + "segmented")
    s2 = evaluate(ctx, case, b, st2, tag + "one_segment")
    kind, why = b.verdict
    if kind != "either" or why in DETERMINISTIC_EITHER:
        a, c = s1, s2
        if a[0] == "error" and c[0] == "error":
            pass  # the error type may depend on where the bytes stopped
        elif a != c:
            ctx.fail("C08.segmentation_dependent", {"class": kind, "why": why, "segmented": a, "one_segment": c,
                                                    "stream": b.delivered[:600], "run": tag})
        if case["streaming"] and b"".join(st1["chunks"]) != b"".join(st2["chunks"]) and a[0] == "response":
            ctx.fail("C08.segmentation_dependent_chunks", {"class": kind, "why": why, "segmented": a, "one_segment": c, "run": tag})
    labels = set(b.labels)
    if st1["outcome"][0] == "error":
        labels.add("outcome_error")
        if st1.get("late"):
            labels.add("error_only_at_timeout")
    elif st1["outcome"][0] == "response":
        labels.add("outcome_response")
    else:
        labels.add("outcome_pending_peer_open")
    if case["streaming"]:
        labels.add("streaming")
    if case["header_cb"]:
        labels.add("header_callback")
    multi_seg = st1["segments"] >= 3
    if multi_seg:
        labels.add("multi_segment")
    nontrivial = multi_seg and bool(b.interim or "chunked" in labels or "gzip" in labels or case["mut"] or b.cut is not None)
    return labels, nontrivial


def _base(**kw):
    c = {"method": "GET", "interim": [], "version": "HTTP/1.1", "code": 200, "reason": "OK",
         "headers": [("X-A", "v1", " "), ("x-a", "v;2", "")], "fpos": 1, "framing": "cl", "payload": b"hello world " * 3,
         "enc": None, "trunc": 3, "chunks": [5, 1, 9], "hexfmt": 0, "mut": None, "cut": None, "end": "eof",
         "seg": {"sizes": [7, 1, 2], "cycle": True, "blk": 500}, "decompress": True, "streaming": False,
         "header_cb": False, "mbs": None, "mhs": None, "timeouts": True}
    c.update(kw)
    return c


def grid_cases():
    """Deterministic sweep: every mutation under four client/stream configurations, and every gzip variant under
    every framing / decompress / max_body_size placement (so the quick tier never depends on sampling luck)."""
    for mut in [None] + ALL_MUTS:
        yield _base(mut=mut)
        yield _base(mut=mut, interim=[[100, []]], streaming=True, end="eof_later", framing="chunked", hexfmt=1)
        yield _base(mut=mut, method="POST", enc="gzip", header_cb=True, timeouts=False, framing="close", version="HTTP/1.0",
                    reason="")
        yield _base(mut=mut, code=204, interim=[[103, [("X-A", "e")]], [100, []]], end="open", reason="Caf\xe9", framing="close")
        yield _base(mut=mut, code=304, end="open", framing="chunked", streaming=True)
        yield _base(mut=mut, method="HEAD", end="rst", seg={"sizes": [1], "cycle": True, "blk": 500})
    for enc in [None, "gzip", "multi", "trunc", "crc", "magic", "mid", "garbage"]:
        for framing in ["cl", "chunked", "close"]:
            for decompress in [True, False]:
                for mbs in [None, ("B", -1), ("B", 0), ("W", -1), ("W", 0), ("Z", 0)]:
                    for streaming in [False, True]:
                        yield _base(enc=enc, framing=framing, decompress=decompress, mbs=mbs, streaming=streaming,
                                    payload=b"abcdefgh" * 150, chunks=[100, 333])
    # multi-member gzip with a delivery boundary EXACTLY at the end of the first member: a TCP segment boundary
    # (Content-Length / close-delimited / chunked framing) and an HTTP chunk boundary (chunk size == member length)
    for payload in [b"hello world", b"abcdefgh" * 150, b"\x00" * 3]:
        m1 = len(gz(payload[: len(payload) // 2]))
        for streaming in (False, True):
            for rest in (1, 7, 4096):
                for framing in ("cl", "close"):
                    yield _base(enc="multi", payload=payload, framing=framing, streaming=streaming, seg_member_end=rest)
                yield _base(enc="multi", payload=payload, framing="chunked", chunks=[m1, 5], streaming=streaming,
                            seg={"sizes": [rest], "cycle": True, "blk": 4096})
                yield _base(enc="multi", payload=payload, framing="chunked", chunks=[m1], hexfmt=2, streaming=streaming,
                            seg={"sizes": [], "cycle": False, "blk": 70000}, interim=[[100, []]])
    # boundary family: every octet that str.strip() treats as whitespace but HTTP does not (plus first/last obs-text),
    # at the begin / end / both ends of a plain field value and of an obs-fold continuation
    for code_ in EDGE_OBSTEXT:
        for pos_ in range(3):
            yield _base(mut="value_edge_obstext", edge=(code_, pos_))
            yield _base(mut="fold_edge_obstext", edge=(code_, pos_), header_cb=True)
    for code_ in EDGE_CTL:
        for pos_ in range(3):
            yield _base(mut="value_edge_ctl", edge=(code_, pos_))
            yield _base(mut="fold_edge_ctl", edge=(code_, pos_))
    # histories: 2-3 fetches through one client whose per-request options differ (each judged on its own)
    for enc in ["gzip", None]:
        for d1 in (True, False):
            for d2 in (True, False):
                for s1 in (False, True):
                    for s2 in (False, True):
                        yield _base(enc=enc, decompress=d1, streaming=s1, header_cb=s2,
                                    history=[_base(enc=enc, decompress=d2, streaming=s2, header_cb=s1, framing="chunked",
                                                   timeouts=not s1)])
    for order in [(True, False, True), (False, True, False), (False, False, True)]:
        yield _base(enc="gzip", decompress=order[0], mbs=("B", 0),
                    history=[_base(enc="gzip", decompress=d, method=mth, framing=fr)
                             for d, mth, fr in zip(order[1:], ("POST", "GET"), ("close", "chunked"))])
    for first in [_base(mut="status_no_sp"), _base(enc="crc"), _base(end="open", framing="close", timeouts=False),
                  _base(cut=500, framing="chunked"), _base(mut="cl_conflict", end="rst")]:
        # the client is used again after every way a fetch can end (malformed, corrupt, left open, truncated, reset)
        yield dict(first, history=[_base(enc="gzip", decompress=True, streaming=True), _base(enc="gzip", decompress=False)])
    # max_body_size=0 with empty, 1-byte and small bodies, every framing and body-less status, with/without interim
    for payload in [b"", b"x", b"hello world"]:
        for framing in ["cl", "chunked", "close"]:
            for streaming in [False, True]:
                for kw in [{}, {"interim": [[100, []]]}, {"code": 204}, {"method": "HEAD"}, {"enc": "gzip"},
                           {"enc": "gzip", "decompress": False}, {"end": "open"}]:
                    yield _base(payload=payload, framing=framing, streaming=streaming, mbs=("Z", 0), **kw)


PARTS = {"main": run_case, "grid": run_case}


def main(ctx):
    ctx.run_replays(PARTS)
    ctx.enumerate(grid_cases(), run_case, name="grid", exhaustive=False)
    ctx.explore(case_s(), run_case, ctx.n(1000, 200000), name="main")
