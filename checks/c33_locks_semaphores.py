"""C33 — Locks and semaphores never over-grant, lose wakeups or skip the queue.

Model-based testing of operation histories on the virtual-time loop.  A case is
``{"kind": "sem"|"bounded"|"lock", "v": initial value, "ops": [...]}``; the ops are interpreted against a
real ``Semaphore(v)`` / ``BoundedSemaphore(v)`` / ``Lock()`` and against a sequential reference model
(free-permit counter + arrival-ordered acquire records with deadlines).  After every op (and, unless the
op is wrapped in ``("ns", op)``, after the loop has been run to quiescence) the state of *every* acquire
future ever issued is compared with the model:

* an acquire with a free permit is granted at once, otherwise it waits (never granted without a release:
  *no over-grant*);
* a release that is allowed hands the permit to the oldest live waiter - waiters that timed out or were
  cancelled are skipped, nobody else is - or, with no live waiter, returns it to the counter (*arrival
  order*, *no lost wakeup*, *no permit left unused while a live waiter waits*);
* a waiter whose deadline has passed fails with ``tornado.util.TimeoutError`` once the loop has run, a
  cancelled waiter stays cancelled, and neither is ever granted afterwards; outcomes never change;
* releasing a BoundedSemaphore at its initial value raises ValueError, an unlocked Lock RuntimeError,
  with no effect on the state; any other release must not raise;
* at the end of every history the real counter is probed: exactly ``model.value`` further acquires are
  granted immediately and the next one waits (*conservation*).

Ties (EITHER classes, both outcomes accepted, conservation still required): a release issued while a
waiter's deadline has already passed on the clock but its timer callback has not run yet (``jump``: time
passes inside a callback; past/zero deadlines followed by a release in the same loop iteration; ``step``:
a single loop iteration) may grant that waiter or skip it - if skipped it is doomed: it must time out
and must never be granted.  A deadline that fired at exactly the instant of a later release is decided
(timed out: skipped), and a release before the clock reaches the deadline is decided (granted).

Release paths exercised: ``release()``, the context manager returned by ``acquire()`` (``with (yield
sem.acquire())`` form) and ``async with`` (a spawned coroutine holding the primitive until told to leave).

Sensitivity (quick tier, seed 1, scratch copy of /repo/tornado/locks.py):
  M1 Semaphore.release does not skip done waiters (permit handed to a timed-out/cancelled waiter and lost)
                                                              -> caught: C33.permit_lost / C33.lost_wakeup
  M2 Semaphore.release: `_value -= 1` missing on hand-off     -> caught: C33.permit_conjured
  M3 Semaphore.acquire grants when `_value >= 0`              -> caught: C33.over_grant
  M4 BoundedSemaphore.release: `>=` -> `>`                    -> caught: C33.over_release_accepted
  M5 Semaphore.release pops the newest waiter (LIFO)          -> caught: C33.queue_order
  M6 _garbage_collect keeps the done waiters, drops live ones -> caught: C33.lost_wakeup (gc part + main)
  M7 Lock.release swallows the ValueError                     -> caught: C33.over_release_accepted
  M8 acquire no longer removes the timer when the waiter completes -> NOT caught: behaviourally equivalent
     for this statement (the stale timer finds the waiter done and does nothing)
"""
import asyncio
import itertools

from hypothesis import strategies as st

from tornado import locks

from vlib import primhist as ph
from vlib import vtime

PROPERTY = "C33"
READY = True
RULE = (
    "Hypothesis op-list histories (<=30 ops; Semaphore/BoundedSemaphore with initial value 0..3 and Lock; ops: "
    "acquire with no/absolute/timedelta/zero/past deadline, release, release through the acquire result's "
    "context manager, async-with user + leave, cancel of an acquire future, advance(dt), jump(dt) = clock moves "
    "without running the loop, single loop step, any call without settling afterwards, bulk of 101/150 timed-out "
    "acquires) plus an exhaustive enumeration of all sequences of length <=L over {acq, acq_t1, rel, "
    "cancel_oldest, tick} for Semaphore(0..2), BoundedSemaphore(1) and Lock (L=5 quick, 7 thorough); "
    "non-trivial = an allowed release passes over >=1 timed-out or cancelled waiter and grants a later live "
    "waiter (>=2 waiters were queued, a timeout/cancel fell between enqueue and release); distinct = SHA-1 of the case"
)
ASSUMPTIONS = [
    "the sequential reference model in this module is the intended meaning of the statement",
    "'timed out' means the acquire future failed with TimeoutError; a waiter whose deadline has passed on the "
    "clock while its timer callback has not run yet may be granted or skipped by a release (EITHER)",
    "cancellation = Future.cancel() on the future returned by acquire() (for async-with: Task.cancel() while "
    "the task waits in __aenter__)",
    "durations are multiples of 0.25 s so virtual-time sums are exact",
]
TECHNIQUE = "property-based testing (Hypothesis) + bounded exhaustive enumeration: operation histories against a sequential reference model on a virtual clock"
LEVEL_TEXT = (
    "bounded model-based exploration: every sequence of <=5 (thorough: <=7) basic operations is checked "
    "exhaustively for five configurations, richer histories (timeouts of every documented form, ties, "
    "cancellation, context-manager releases, timeout-GC threshold) are sampled (1.5k quick / 100k thorough, "
    "<=30 ops); nothing is claimed beyond those lengths"
)
SHARDS = 16

GRANTED = "granted"
PENDING = ph.PENDING
TIMEOUT = ph.TIMEOUT
CANCELLED = ph.CANCELLED


class Rec:
    __slots__ = ("k", "via", "fut", "deadline", "state", "doomed", "passed", "user", "spec")

    def __init__(self, k, via, fut, deadline, spec=None, user=None):
        self.k = k
        self.via = via
        self.fut = fut
        self.deadline = deadline
        self.state = PENDING
        self.doomed = False
        self.passed = False
        self.user = user
        self.spec = spec


async def _user(obj, u):
    async with obj:
        u["entered"] = True
        await u["gate"]
    u["left"] = True


class Run:
    def __init__(self, ctx, case):
        self.ctx = ctx
        self.case = case
        self.kind = case["kind"]
        if self.kind == "lock":
            self.obj = locks.Lock()
            self.initial = 1
        elif self.kind == "bounded":
            self.obj = locks.BoundedSemaphore(case["v"])
            self.initial = case["v"]
        else:
            self.obj = locks.Semaphore(case["v"])
            self.initial = case["v"]
        self.value = self.initial
        # spy on the public acquire() so the future awaited inside `async with` can be observed synchronously
        self.last_acquire = None
        orig = self.obj.acquire

        def spy(*a, **kw):
            f = orig(*a, **kw)
            self.last_acquire = f
            return f

        self.obj.acquire = spy
        self.recs = []
        self.labels = {self.kind}
        self.nontrivial = False
        self.release_A = None  # acceptable grantees of the release performed by the current op
        self.step_no = -1
        self.fired = 0  # timeouts delivered (the implementation's clean-up counter advances with these)

    # ------------------------------------------------------------------ observation
    def fail(self, clause, **detail):
        detail["step"] = self.step_no
        detail["kind"] = self.kind
        detail["v"] = self.case["v"]
        detail["ops"] = list(self.case["ops"][: self.step_no + 1])[-12:]
        self.ctx.fail(clause, detail)

    def real(self, r):
        s = ph.fstate(r.fut)
        if s[0] == ph.RESULT:
            return GRANTED
        if s[0] == ph.ERROR:
            self.fail("C33.acquire_unexpected_exception", k=r.k, exc=repr(s[1]))
            return TIMEOUT
        return s[0]

    def check_users(self):
        """After the loop has run: an async-with user is inside its block iff its acquire was granted."""
        for r in self.recs:
            if r.via != "aw":
                continue
            u = r.user
            if u["entered"] != (r.state == GRANTED):
                self.fail("C33.async_with_entered_mismatch", k=r.k, entered=u["entered"], model=r.state)
            if r.state in (PENDING, GRANTED) and not u["leaving"] and u["task"].done():
                self.fail("C33.async_with_task_ended_early", k=r.k)

    def pending(self):
        return [r for r in self.recs if r.state == PENDING]

    def acceptable(self):
        """Who may receive the permit of a release issued now: due-but-unfired waiters may be granted or
        skipped; the first live waiter must be granted if reached; None = back to the counter."""
        t = ph.now()
        A = []
        for r in self.recs:
            if r.state != PENDING or r.doomed:
                continue
            A.append(r.k)
            if not (r.deadline <= t):
                return A
        A.append(None)
        return A

    def pre_release(self):
        if self.kind != "sem" and self.value >= self.initial:
            return "raise"
        t = ph.now()
        for r in self.recs:
            if r.state == TIMEOUT and not r.passed and r.deadline == t:
                self.labels.add("tie_deadline_fired_then_release")
            if r.state == PENDING and r.deadline <= t:
                self.labels.add("tie_due_unfired_at_release")
        return self.acceptable()

    def judge_release(self, pre, raised, how="rel"):
        if pre == "raise":
            want = RuntimeError if self.kind == "lock" else ValueError
            if how == "cm":  # the exception type is documented for release() only
                want = (RuntimeError, ValueError)
            if raised is None:
                self.fail("C33.over_release_accepted", value=self.value, initial=self.initial)
            elif not isinstance(raised, want):
                self.fail("C33.over_release_wrong_exception", exc=repr(raised), want=repr(want))
            self.labels.add("over_release")
            self.release_A = None
        else:
            if raised is not None:
                self.fail("C33.release_raised", exc=repr(raised), value=self.value, initial=self.initial)
                self.release_A = None
            else:
                self.release_A = pre

    def reconcile(self, ran, cancelled_k=None):
        self._reconcile(ran, cancelled_k)
        if ran == "settle":
            self.check_users()

    def _reconcile(self, ran, cancelled_k=None):
        """Compare every acquire record with the model after an op.  ran: "none" | "step" | "settle"."""
        t = ph.now()
        newly = []
        for r in self.recs:
            s = self.real(r)
            if r.state != PENDING:
                if s != r.state:
                    clause = "C33.outcome_changed"
                    if s == GRANTED:
                        clause = "C33.%s_waiter_granted" % r.state
                    self.fail(clause, k=r.k, was=r.state, now=s)
                continue
            due = r.deadline <= t
            if s == PENDING:
                if ran == "settle" and due:
                    self.fail("C33.timeout_not_delivered", k=r.k, deadline_minus_now=r.deadline - t)
            elif s == GRANTED:
                newly.append(r)
            elif s == TIMEOUT:
                if not due:
                    self.fail("C33.timeout_before_deadline", k=r.k, deadline_minus_now=r.deadline - t)
                r.state = TIMEOUT
                self.fired += 1
                if self.fired == 101:
                    self.labels.add("gc_threshold")
            elif s == CANCELLED:
                if r.k != cancelled_k:
                    self.fail("C33.spurious_cancel", k=r.k)
                r.state = CANCELLED
        A = self.release_A
        self.release_A = None
        if A is None:
            if newly:
                self.fail("C33.over_grant", granted=[r.k for r in newly], value=self.value,
                          why="waiter granted although no permit was released")
                for r in newly:
                    r.state = GRANTED
            return
        if len(newly) > 1:
            self.fail("C33.over_grant", granted=[r.k for r in newly], why="one release granted several waiters")
        g = newly[0] if newly else None
        gk = g.k if g is not None else None
        if gk not in A:
            if g is None:
                self.fail("C33.lost_wakeup", must_grant=A[-1], why="permit released, live waiter still pending")
            elif g.doomed:
                self.fail("C33.skipped_waiter_granted_later", k=gk, acceptable=A)
            else:
                self.fail("C33.queue_order", granted=gk, acceptable=A,
                          why="a live waiter that arrived earlier was passed over")
        skipped_t = skipped_c = 0
        for r in self.recs:
            if g is not None and r.k >= g.k:
                break
            if r.state == PENDING and not r.doomed:
                r.doomed = True  # due waiter passed over by this release: must time out, never be granted
                self.labels.add("due_unfired_skipped")
            elif r.state in (TIMEOUT, CANCELLED) and not r.passed:
                r.passed = True
                if r.state == TIMEOUT:
                    skipped_t += 1
                else:
                    skipped_c += 1
        if g is None:
            self.value += 1
            self.labels.add("release_to_counter")
        else:
            if g.deadline <= t:
                self.labels.add("due_unfired_granted")
            g.state = GRANTED
            self.labels.add("release_to_waiter")
            if skipped_t or skipped_c:
                self.nontrivial = True
        if skipped_t:
            self.labels.add("timeout_then_release")
        if skipped_c:
            self.labels.add("cancel_then_release")

    # ------------------------------------------------------------------ ops
    def do_acquire(self, spec):
        arg, deadline = ph.timeout_arg(spec)
        fut = self.obj.acquire() if spec is None else self.obj.acquire(arg)
        r = Rec(len(self.recs), "fut", fut, deadline, spec)
        s = self.real(r)
        if spec is not None:
            self.labels.add("deadline_" + spec[0])
            if ph.is_tie_form(spec):
                self.labels.add("deadline_zero_or_past")
        if self.value > 0:
            if s != GRANTED:
                self.fail("C33.free_permit_not_granted", value=self.value, got=s)
            self.value -= 1
            r.state = GRANTED
            self.labels.add("acquire_immediate")
        else:
            if s == GRANTED:
                self.fail("C33.over_grant", value=self.value, k=r.k, why="acquire granted with no free permit")
                r.state = GRANTED
            elif s == TIMEOUT and not (deadline <= ph.now()):
                self.fail("C33.timeout_before_deadline", k=r.k)
            self.labels.add("acquire_waits")
            if len(self.pending()) >= 1:
                self.labels.add("two_waiters_queued")
        self.recs.append(r)
        return r

    def do_release(self, how="rel", rec=None):
        pre = self.pre_release()
        raised = None
        try:
            if how == "rel":
                self.obj.release()
            else:
                with rec.fut.result():
                    pass
        except Exception as e:  # judged below
            raised = e
        self.judge_release(pre, raised, how)

    def do_cancel(self, k):
        pend = self.pending()
        if k >= 6 or not pend:
            if not self.recs:
                return None
            r = self.recs[k % len(self.recs)]
        else:
            r = pend[k % len(pend)]
        return self.cancel_rec(r)

    def cancel_rec(self, r):
        if r.via == "aw":
            if r.state != PENDING:
                return None
            r.user["task"].cancel()  # cancels the acquire future the task is waiting on
            self.labels.add("cancel_async_with")
            return r.k
        ok = r.fut.cancel()
        if ok != (r.state == PENDING):
            self.fail("C33.cancel_return", k=r.k, returned=ok, model_state=r.state)
        if r.state == PENDING:
            self.labels.add("cancel_pending")
            return r.k
        self.labels.add("cancel_done_future")
        return None

    def sync_op(self, op):
        """Perform a synchronous call; returns the k of a record cancelled by it (or None)."""
        kind = op[0]
        if kind == "acq":
            self.do_acquire(op[1])
        elif kind == "rel":
            self.do_release()
        elif kind == "rel_cm":
            cands = [r for r in self.recs if r.via == "fut" and r.state == GRANTED]
            if cands:
                self.labels.add("release_via_context_manager")
                self.do_release("cm", cands[op[1] % len(cands)])
        elif kind == "cancel":
            return self.do_cancel(op[1])
        elif kind == "cancel_oldest":
            pend = self.pending()
            if pend:
                return self.cancel_rec(pend[0])
        else:
            raise ValueError(op)
        return None

    async def run_op(self, op):
        kind = op[0]
        if kind == "ns":
            self.labels.add("no_settle")
            ck = self.sync_op(op[1])
            self.reconcile("none", ck)
        elif kind in ("acq", "rel", "rel_cm", "cancel", "cancel_oldest"):
            ck = self.sync_op(op)
            self.reconcile("none", ck)
            await vtime.settle()
            self.reconcile("settle")
        elif kind == "adv":
            await vtime.advance(op[1])
            self.reconcile("settle")
        elif kind == "jump":
            ph.jump(op[1])
            self.labels.add("jump")
            self.reconcile("none")
        elif kind == "step":
            await ph.step()
            self.reconcile("step")
        elif kind == "aw":
            u = {"entered": False, "left": False, "leaving": False,
                 "gate": asyncio.get_running_loop().create_future()}
            self.last_acquire = None
            u["task"] = asyncio.ensure_future(_user(self.obj, u))
            # the coroutine calls acquire() on the first iteration of this settle
            immediate = self.value > 0
            if immediate:
                self.value -= 1
            await vtime.settle()
            if self.last_acquire is None:
                self.fail("C33.async_with_did_not_acquire")
                u["task"].cancel()
                return
            r = Rec(len(self.recs), "aw", self.last_acquire, ph.NEVER, None, u)
            s = self.real(r)
            if immediate:
                if s != GRANTED:
                    self.fail("C33.free_permit_not_granted", via="async with", got=s)
                r.state = GRANTED
            elif s == GRANTED:
                self.fail("C33.over_grant", via="async with", why="entered with no free permit")
                r.state = GRANTED
            self.recs.append(r)
            self.labels.add("async_with")
            self.reconcile("settle")
        elif kind == "leave":
            inside = [r for r in self.recs if r.via == "aw" and r.state == GRANTED and not r.user["leaving"]]
            if inside:
                r = inside[op[1] % len(inside)]
                r.user["leaving"] = True
                pre = self.pre_release()
                r.user["gate"].set_result(None)
                await vtime.settle()
                t = r.user["task"]
                if not t.done():
                    self.fail("C33.async_with_exit_hangs", k=r.k)
                raised = None if t.cancelled() else t.exception()
                self.judge_release(pre, raised)
                self.labels.add("async_with_exit")
                self.reconcile("settle")
        elif kind == "bulk":
            if self.value == 0:
                n = op[1]
                for _ in range(n):
                    self.do_acquire(("abs", 0.5))
                self.reconcile("none")
                await vtime.advance(0.5)
                self.reconcile("settle")
                self.labels.add("bulk_timeouts")
        else:
            raise ValueError(op)

    async def finish(self):
        await vtime.settle()
        self.reconcile("settle")
        # conservation probe: the real counter equals the model's
        self.step_no = len(self.case["ops"])
        live = self.pending()
        extra = []
        if not live:
            for i in range(self.value):
                f = self.obj.acquire()
                extra.append(f)
                if ph.fstate(f)[0] != ph.RESULT:
                    self.fail("C33.permit_lost", probe=i, model_value=self.value,
                              why="the model has free permits the implementation does not grant")
        f = self.obj.acquire()
        extra.append(f)
        if ph.fstate(f)[0] != ph.PENDING:
            self.fail("C33.permit_conjured", model_value=self.value, live_waiters=len(live),
                      why="the implementation grants more permits than the model has")
        await vtime.settle()
        # clean up: nothing outlives the case
        ph.drain(extra)
        tasks = []
        for r in self.recs:
            if r.via == "fut":
                ph.drain([r.fut])
            else:
                t = r.user["task"]
                if not t.done():
                    t.cancel()
                tasks.append(t)
        await vtime.settle()
        for t in tasks:
            if t.done() and not t.cancelled():
                t.exception()


async def scenario(ctx, case):
    run = Run(ctx, case)
    for i, op in enumerate(case["ops"]):
        run.step_no = i
        await run.run_op(op)
    await run.finish()
    return run


def run_case(ctx, case):
    run = vtime.run(scenario, ctx, case)
    ctx.note(case, run.labels, run.nontrivial)


# ------------------------------------------------------------------------------------- strategies
KINDS = (["acq"] * 10 + ["acq_t"] * 14 + ["rel"] * 16 + ["cancel"] * 6 + ["rel_cm"] * 3 + ["adv"] * 10
         + ["jump"] * 4 + ["step"] * 3 + ["aw"] * 6 + ["leave"] * 6 + ["bulk"] * 2)
POS = [0.25, 0.5, 1.0, 1.5, 2.0]


def _single(kind, to, k, dt, ns, n):
    if kind == "acq":
        op = ("acq", None)
    elif kind == "acq_t":
        op = ("acq", to)
    elif kind == "rel":
        op = ("rel",)
    elif kind == "cancel":
        op = ("cancel", k)
    elif kind == "rel_cm":
        op = ("rel_cm", k % 4)
    elif kind in ("adv", "jump"):
        return [(kind, dt)]
    elif kind == "leave":
        return [("leave", k % 4)]
    elif kind == "bulk":
        return [("bulk", n)]
    else:
        return [(kind,)]
    return [("ns", op)] if ns else [op]


def _tie(form, d, variant):
    """Blocks that put a deadline and a release at the same virtual instant (both orders) or an expired
    waiter at the head / in the middle of the queue.  They matter when no permit is free."""
    acq = ("acq", (form, d))
    if variant == 0:
        return [acq, ("adv", d), ("rel",)]  # the timer fires exactly at the deadline, then release
    if variant == 1:
        return [acq, ("rel",), ("adv", d)]  # release first, the clock reaches the deadline afterwards
    if variant == 2:
        return [acq, ("jump", d), ("rel",)]  # clock exactly at the deadline, timer not yet run, release
    if variant == 3:
        return [acq, ("jump", d + 0.25), ("ns", ("rel",)), ("step",)]
    if variant == 4:
        return [("ns", ("acq", (form, 0.0))), ("rel",)]  # already-due deadline and release in one iteration
    if variant == 5:
        return [acq, ("acq", None), ("adv", d), ("rel",)]  # expired waiter at the head, live one behind
    if variant == 6:
        return [("acq", None), acq, ("acq", None), ("adv", d), ("rel",), ("rel",)]  # expired in the middle
    if variant == 7:
        return [acq, ("acq", None), ("jump", d), ("rel",), ("rel",)]
    if variant == 8:
        return [("acq", None), ("acq", None), ("cancel", 0), ("rel",)]  # cancelled at the head
    if variant == 9:
        return [("acq", None), ("acq", None), ("acq", None), ("cancel", 1), ("rel",), ("rel",)]  # cancelled in the middle
    if variant == 10:
        return [("acq", None), ("aw",), ("aw",), ("cancel", 1), ("rel",), ("rel",), ("leave", 0)]
    return [("aw",), acq, ("aw",), ("adv", d), ("leave", 0), ("leave", 0)]


single_s = st.builds(_single, st.sampled_from(KINDS), ph.some_timeout_s(), st.integers(0, 7),
                     st.sampled_from(ph.STEPS), st.sampled_from([False] * 4 + [True]), st.sampled_from([101, 150]))
tie_s = st.builds(_tie, st.sampled_from(["abs", "td"]), st.sampled_from(POS), st.integers(0, 11))
block_s = st.one_of(single_s, single_s, single_s, single_s, single_s, single_s, tie_s)


def _flatten(blocks):
    return [op for b in blocks for op in b][:30]


ops_s = st.one_of(st.lists(block_s, min_size=1, max_size=30), st.lists(block_s, min_size=8, max_size=30)).map(_flatten)

case_s = st.fixed_dictionaries({
    "kind": st.sampled_from(["sem", "bounded", "lock"]),
    "v": st.sampled_from([0, 0, 1, 1, 2, 3]),
    "ops": ops_s,
})

# ------------------------------------------------------------------------------------- exhaustive part
ALPHABET = [("acq", None), ("acq", ("abs", 1.0)), ("rel",), ("cancel_oldest",), ("adv", 1.0)]
CONFIGS = [("sem", 0), ("sem", 1), ("sem", 2), ("bounded", 1), ("lock", 1)]


def grid_cases(maxlen):
    for kind, v in CONFIGS:
        for n in range(1, maxlen + 1):
            for seq in itertools.product(ALPHABET, repeat=n):
                yield {"kind": kind, "v": v, "ops": list(seq)}


def gc_cases():
    """Histories that cross the implementation's timed-out-waiter clean-up threshold (100 timeouts) with live
    waiters queued before, between and after the expired ones."""
    for kind, v, pre in [("sem", 0, []), ("bounded", 2, [("acq", None), ("acq", None)]), ("lock", 1, [("acq", None)])]:
        for n in (99, 100, 101, 102, 150, 202):
            yield {"kind": kind, "v": v, "ops": pre + [("acq", None), ("bulk", n), ("acq", None),
                                                       ("rel",), ("rel",), ("rel",)]}
            yield {"kind": kind, "v": v, "ops": pre + [("bulk", n), ("acq", None), ("acq", ("abs", 1.0)), ("acq", None),
                                                       ("adv", 1.0), ("rel",), ("rel",), ("rel",)]}
            yield {"kind": kind, "v": v, "ops": pre + [("acq", ("td", 2.0)), ("bulk", n), ("acq", None), ("cancel", 1),
                                                       ("acq", None), ("bulk", 50), ("rel",), ("adv", 1.0), ("rel",)]}


PARTS = {"main": run_case, "grid": run_case, "gc": run_case}


def main(ctx):
    ctx.run_replays(PARTS)
    ctx.explore(case_s, run_case, ctx.n(1500, 100000), name="main")
    ctx.enumerate(gc_cases(), run_case, name="gc")
    ctx.enumerate(grid_cases(7 if ctx.thorough else 5), run_case, name="grid")
