"""C26 — Static file serving never leaves its root directory.

Domain: a fixture tree built per process under mkdtemp (``root/`` with files, sub-directories, a
directory with ``index.html``; prefix-sharing siblings ``root_secret/``, ``rootx``, ``roo/``; a file
next to root; ``abs/path/to/secret``), every file with a unique ``<<MARK:…>>`` content.  Three
mounts (``static_path`` setting -> ``/static/(.*)``, explicit ``/s/(.*)``, catch-all ``/(.*)``),
root configured with/without trailing slash, ``default_filename`` on/off, GET/HEAD, optional
``?v=``.  Request targets are raw bytes built from segment lists: *targeted escapes* (a real
in-root prefix, a run of up-steps in plain / percent-encoded / mangled spellings, then a real
outside target), *absolute* forms (``//<base>/…``, ``%2f<base>/…``, fully encoded) and segment soup.

Oracle (independent resolution, no Tornado code): match the mount prefix, percent-decode the rest
once, UTF-8 decode, join onto the root with an own lexical normaliser ('.', '..', '', absolute
restart), ``inside = norm == root or norm startswith root + '/'``.
  * outside  => status in {403, 404}, no file marker in the body, and the *same* status, headers
    (minus Date) and body after the existence of the outside target has been flipped (file/dir
    renamed away, or a file created there) — the existence oracle;
  * any response carrying a file marker must be exactly the content of the in-root file the path
    normalises to (or its directory's default file);
  * 200 => inside and that file exists (HEAD: Content-Length == its size, no body);
  * 301 => inside, a directory, default_filename configured;
  * inside  => status in {200, 301, 403, 404};  never 5xx / uncaught-exception log, always one
    well-framed response.
EITHER: captures whose percent-decoding is not UTF-8 (the handler never sees them: 400/403/404
accepted, still no marker).

Sensitivity (quick tier, seed 1, each mutant applied alone to a scratch copy of tornado/web.py; all caught):
  M1 validate_absolute_path: `root += os.path.sep` dropped (prefix test without trailing sep)
       -> caught after 32 cases (C26.leak: GET /static/../root_secret/s.txt -> 200 + the sibling's marker)
  M2 get_absolute_path: os.path.abspath removed (join only)
       -> caught (C26.leak: ../outside.txt -> 200)
  M3 validate_absolute_path: exists()->404 placed before the containment test
       -> caught (C26.existence_revealed: 403 with the outside target present, 404 after hiding it)
  M4 validate_absolute_path: containment test skipped when the decoded path starts with '/'
       -> caught after 21 cases (C26.leak via the absolute form //<base>/outside.txt)
  M5 get: the capture is url-unescaped a second time before joining
       -> caught after 370 cases (C26.leak: %252e%252e/root/a.txt serves a file the once-decoded path does not name)
  M6 validate_absolute_path returns early (before the containment test) when the absolute path already has an entry
     in the class-level _static_hashes cache (shared by all handlers and by static_url)
       -> caught at seeds 1, 2, 3 by the new ``multi`` part (C26.leak: GET /m1/../root/a.txt -> 200 after a.txt had been
          served through the other handler); MISSED before: one handler per Application and the cache reset before
          every request.  replays/C26/multi-handler-warm-cache.json pins it.

Part ``multi``: 2-3 StaticFileHandlers with sibling / nested roots (root, root_secret, root/sub, abs/path/to) in one
Application (mount 0 via the static_path setting), a history of 2-6 operations sharing the version-hash cache (legitimate
fetch through an owning handler or make_static_url on any path = warm-up, then a traversal / absolute form through ANOTHER
handler aimed at the same file, plus soup requests, with ?v=), containment judged per handler, cache reset once per history.

  M7 root-containment prefix test made case-insensitive (.lower() on both sides)
       -> caught at seeds 1, 2, 3 (C26.leak: GET /static/../Root/cs.txt -> 200) after letter-case siblings of the root (Root/, ROOT/, rOOt)
          were added to the fixture tree, to the random targets, to the multi-handler roots and as the exhaustive ``casegrid`` part
          (8 targets x 3 mounts x root spelling x default_filename x GET/HEAD x "..", "%2e%2e", absolute form = 576 cases);
          MISSED before: no sibling differed from the root only in case.  (Skipped with a label on a case-insensitive filesystem.)
"""
import contextlib
import os
import re
import urllib.parse

from hypothesis import strategies as st

from tornado.web import Application, StaticFileHandler

from vlib import staticfix
from vlib.httpharness import roundtrip
from vlib.httpref import RefError, parse_responses

PROPERTY = "C26"
READY = True
RULE = (
    "Hypothesis-generated request targets over a per-process fixture tree: targeted escapes (real in-root "
    "prefix + run of up-steps in 14 spellings + one of 14 real outside/sibling targets, up-count biased to "
    "land exactly on the sibling level), absolute forms (//base, %2fbase, fully encoded) and segment soup "
    "(<=8 segments from 45), x 3 mounts x trailing-slash root x default_filename x GET/HEAD x ?v=; "
    "part multi: histories over 2-3 handlers with sibling/nested roots sharing the hash cache (warm-up then traversal); "
    "non-trivial = the lexical normalisation crosses the root upward at least once or the target is a "
    "prefix-sharing sibling (root_secret, rootx, roo); distinct = SHA-1 of the case"
)
ASSUMPTIONS = [
    "inside/outside is decided lexically (own '.', '..' normaliser over the once-percent-decoded capture), as the statement's 'normalized absolute path' says; the fixture has no symlinks",
    "request targets are ASCII; captures that do not percent-decode to UTF-8 are an EITHER class (400 accepted)",
    "file markers are unique, so any body containing a marker identifies the file that was read",
]
TECHNIQUE = "property-based testing (Hypothesis): independent path-resolution reference + metamorphic existence-flip oracle over real HTTP round trips"
LEVEL_TEXT = (
    "Generated-input search: every generated request path (bounded: <=12 segments from a fixed pool, 3 mounts, "
    "POSIX only, no symlinks) was confined to the root and outside targets were indistinguishable present vs absent; "
    "no claim beyond the generated paths."
)
SHARDS = 16

MARK = staticfix.MARK
MOUNTS = ["/static/", "/s/", "/"]

UPS = ["..", "..", "..", "..", "%2e%2e", "%2E%2E", ".%2e", "%2e.", "..%2f", "%2e%2e%2f", "..%5c", "%252e%252e",
       "...", "..;", "..%00", "%2e%2e%5c"]
IN_DIRS = ["sub", "deep", "noindex", "emptydir", "nonexist", ".", "sub", "a.txt"]
OUT_TARGETS = [
    ("outside.txt",), ("root_secret", "s.txt"), ("root_secret", ""), ("root_secret",), ("root_secret", "index.html"),
    ("rootx",), ("roo", "r.txt"), ("abs", "path", "to", "secret"), ("root", "a.txt"), ("root", "sub", ""),
    ("nonexist.txt",), ("root_secret", "nonexist"), ("root_secret%2fs.txt",), ("root_secret%00",),
    ("rootx", ""), ("roo",), ("root_secret", "..", "outside.txt"), ("root", "..", "outside.txt"),
    ("Root", "cs.txt"), ("ROOT", "index.html"), ("ROOT", ""), ("ROOT", "up.txt"), ("rOOt",), ("Root",),
]
CASE_SIBLINGS = ("Root", "ROOT", "rOOt")
SOUP = sorted(set(UPS + IN_DIRS + [s for t in OUT_TARGETS for s in t] + [
    "", "", ".", "%2e", "%2f", "%5c", "%00", "a.txt%00", "b.txt", "c.txt", "d.txt", "index.html", "caf%C3%A9.txt",
    "@BASE@", "%2f@BASE@", "@BASEENC@", "%ff", "%c3", "A" * 300, "root", "%2F", "a.txt/", "..%2f..%2f", "%2e%2e%2f%2e%2e",
    "\\..", "..\\", "%20", "sub%2fb.txt", "sub%2f..%2f..%2foutside.txt",
]))


@st.composite
def targeted(draw):
    prefix = draw(st.lists(st.sampled_from(IN_DIRS), max_size=3))
    depth = sum(1 for p in prefix if p != ".")
    if draw(st.integers(0, 9)) < 6:
        n = depth + 1
    else:
        n = draw(st.integers(0, 6))
    ups = [draw(st.sampled_from(UPS)) for _ in range(n)]
    target = list(draw(st.sampled_from(OUT_TARGETS)))
    return prefix + ups + target


@st.composite
def absolute(draw):
    target = list(draw(st.sampled_from(OUT_TARGETS + [("root", "a.txt"), ("root", "sub", "b.txt")])))
    form = draw(st.integers(0, 3))
    if form == 0:
        return ["", "@BASE@"] + target
    if form == 1:
        return ["%2f@BASE@"] + target
    if form == 2:
        return ["@BASEENC@%2f" + "%2f".join(target)]
    return draw(st.lists(st.sampled_from(IN_DIRS + [".."]), max_size=2)) + ["", "@BASE@"] + target


IN_TARGETS = [
    ("a.txt",), ("sub", "b.txt"), ("sub", ""), ("sub",), ("sub", "deep", "c.txt"), ("noindex", ""), ("caf%C3%A9.txt",),
    ("sub", "deep", "..", ""), ("nonexist", "..", "a.txt"), ("sub", "..", "..", "root", "a.txt"), ("sub", "index.html"),
    ("sub", "deep", ".."), ("emptydir", ""), ("%61.txt",), ("sub%2fb.txt",), (".", "sub", ".", ""),
]
inside_s = st.tuples(st.lists(st.sampled_from(["", ".", "sub/..", "nonexist/.."]), max_size=2),
                     st.sampled_from(IN_TARGETS)).map(lambda t: list(t[0]) + list(t[1]))

segs_s = st.one_of(targeted(), targeted(), targeted(), absolute(), inside_s,
                   st.lists(st.sampled_from(SOUP), max_size=8), st.lists(st.sampled_from(SOUP), max_size=8))

case_s = st.fixed_dictionaries({
    "mount": st.integers(0, 2),
    "slash": st.booleans(),
    "default": st.booleans(),
    "method": st.sampled_from(["GET", "GET", "HEAD"]),
    "segs": segs_s,
    "query": st.sampled_from(["", "", "?v=1", "?v=abc&x=/../", "?"]),
})


def lexical_join(root, rel):
    """Own normaliser: (normalised absolute path, crossed_root_upward)."""
    root_parts = [p for p in root.split("/") if p]
    if rel.startswith("/"):
        stack = []
        floor = None
    else:
        stack = list(root_parts)
        floor = len(root_parts)
    crossed = False
    for comp in rel.split("/"):
        if comp in ("", "."):
            continue
        if comp == "..":
            if stack:
                stack.pop()
            if floor is not None and len(stack) < floor:
                crossed = True
        else:
            stack.append(comp)
    return "/" + "/".join(stack), crossed


@contextlib.contextmanager
def flipped_existence(fx, p):
    """Flip the existence of outside path p (strictly below the fixture base, not an ancestor of root).
    Yields how it was flipped, or None when it cannot be flipped."""
    ok = p.startswith(fx.base + "/") and p != fx.root and not fx.root.startswith(p + "/") \
        and not p.startswith(fx.root + "/") and "\0" not in p
    if not ok:
        yield None
        return
    hidden = os.path.join(fx.base, ".hidden-by-toggle")
    if os.path.lexists(p):
        os.rename(p, hidden)
        try:
            yield "hidden"
        finally:
            os.rename(hidden, p)
        return
    if not os.path.isdir(os.path.dirname(p)):
        yield None
        return
    try:
        with open(p, "xb") as f:
            f.write(MARK + b"created-by-toggle>>")
    except OSError:
        yield None
        return
    try:
        yield "created"
    finally:
        os.unlink(p)


def build_app(fx, case):
    root_cfg = fx.root + ("/" if case["slash"] else "")
    hargs = {"default_filename": "index.html"} if case["default"] else {}
    if case["mount"] == 0:
        return Application(static_path=root_cfg, static_handler_args=hargs)
    pattern = r"/s/(.*)" if case["mount"] == 1 else r"/(.*)"
    return Application([(pattern, StaticFileHandler, dict(path=root_cfg, **hargs))])


def fetch(ctx, app, method, target, reset=True):
    req = method.encode() + b" " + target + b" HTTP/1.1\r\nHost: fixture.test\r\n\r\n"
    if reset:
        StaticFileHandler.reset()
    wire, closed, logs, _ = roundtrip(app, req)
    try:
        rs = parse_responses(wire, [method], closed)
    except RefError as e:
        ctx.fail("C26.framing", {"target": target, "err": str(e), "wire": wire[:300]})
        return None
    if len(rs) != 1:
        ctx.fail("C26.framing", {"target": target, "responses": len(rs), "wire": wire[:300]})
        return None
    r = rs[0]
    if r.code >= 500 or logs.uncaught():
        ctx.fail("C26.server_error", {"target": target, "code": r.code, "logs": logs.uncaught()[:3]})
    return r


def sig_of(r):
    return (r.code, sorted((n.lower(), v) for n, v in r.headers if n.lower() != "date"), r.body)


def run_case(ctx, case):
    fx = staticfix.tree()
    base_rel = fx.base.lstrip("/")
    prefix = MOUNTS[case["mount"]]
    segs = [s.replace("@BASEENC@", "%2f" + base_rel.replace("/", "%2f")).replace("@BASE@", base_rel) for s in case["segs"]]
    path = prefix + "/".join(segs)
    target = (path + case["query"]).encode("ascii")
    method = case["method"]
    app = build_app(fx, case)
    labels = {"mount%d" % case["mount"], method.lower()}
    if case["query"].startswith("?v"):
        labels.add("query_v")

    # ---- reference resolution
    m = re.fullmatch(re.escape(prefix) + r"(.*)", path, re.S)
    assert m is not None
    cap = m.group(1)
    raw = urllib.parse.unquote_to_bytes(cap)
    if re.search(r"%2f|%5c", cap, re.I):
        labels.add("encoded_slash")
    if "%00" in cap:
        labels.add("nul")
    try:
        rel = raw.decode("utf-8")
    except UnicodeDecodeError:
        rel = None

    r = fetch(ctx, app, method, target)
    if r is None:
        ctx.note(case, labels | {"unparsed"}, False)
        return
    labels.add("s%d" % r.code)

    if rel is None:
        # EITHER: not UTF-8 after one decode; the handler method is never entered
        labels.add("invalid_utf8_either")
        if r.code not in (400, 403, 404) or MARK in r.body:
            ctx.fail("C26.invalid_utf8_served", {"target": target, "code": r.code, "body": r.body[:80]})
        ctx.note(case, labels, False)
        return

    norm, crossed = lexical_join(fx.root, rel)
    inside = norm == fx.root or norm.startswith(fx.root + "/")
    if rel.startswith("/"):
        labels.add("absolute")
    if crossed:
        labels.add("dotdot_escape")
    sibling = (not inside) and any(norm == fx.base + "/" + s or norm.startswith(fx.base + "/" + s + "/")
                                   for s in ("root_secret", "rootx", "roo"))
    if sibling:
        labels.add("sibling_prefix")
    if (not inside) and any(norm == fx.base + "/" + c or norm.startswith(fx.base + "/" + c + "/") for c in CASE_SIBLINGS):
        labels.add("case_variant_sibling")
        sibling = True
        if not fx.case_sensitive:  # case-insensitive filesystem: "Root" IS the root; nothing to assert
            return ctx.note(case, labels | {"case_insensitive_fs_skipped"}, False)
    nontrivial = crossed or sibling

    # expected in-root file for a 200
    expect_file = None
    if inside:
        if os.path.isfile(norm):
            expect_file = norm
        elif os.path.isdir(norm) and case["default"] and os.path.isfile(os.path.join(norm, "index.html")):
            expect_file = os.path.join(norm, "index.html")
            labels.add("dir_default")

    detail = {"target": target, "method": method, "decoded": rel, "norm": norm.replace(fx.base, "<BASE>"),
              "inside": inside, "code": r.code, "body": r.body[:100], "cfg": [case["mount"], case["slash"], case["default"]]}

    # ---- marker clause (all statuses)
    if MARK in r.body:
        if not inside or expect_file is None or r.body != fx.content.get(expect_file):
            ctx.fail("C26.leak", detail)

    if not inside:
        labels.add("outside")
        if r.code not in (403, 404):
            ctx.fail("C26.outside_status", detail)
        with flipped_existence(fx, norm) as how:
            if how is not None:
                labels.add("flip_" + how)
                r2 = fetch(ctx, app, method, target)
                if r2 is not None and sig_of(r2) != sig_of(r):
                    d = dict(detail)
                    d.update({"flip": how, "code_after_flip": r2.code, "body_after_flip": r2.body[:100]})
                    ctx.fail("C26.existence_revealed", d)
            else:
                labels.add("flip_impossible")
    else:
        labels.add("inside")
        if r.code not in (200, 301, 403, 404):
            ctx.fail("C26.inside_status", detail)
        if r.code == 200:
            labels.add("served_200")
            if expect_file is None:
                ctx.fail("C26.wrong_file", detail)
            else:
                want = fx.content[expect_file]
                if method == "GET" and r.body != want:
                    ctx.fail("C26.wrong_file", detail)
                if method == "HEAD" and (r.body != b"" or r.get("Content-Length") != str(len(want))):
                    ctx.fail("C26.wrong_file", dict(detail, content_length=r.get("Content-Length")))
        elif r.code == 301:
            labels.add("redirect_301")
            if not (os.path.isdir(norm) and case["default"]):
                ctx.fail("C26.redirect_not_dir", detail)
        elif expect_file is not None:
            labels.add("inside_existing_not_served")  # e.g. '//' prefix on the catch-all mount, dir without slash
    ctx.note(case, labels, nontrivial)


# --------------------------------------------------------------------------- several handlers, warm caches
# Two or three StaticFileHandlers with sibling / nested roots in ONE Application (mount 0 is the ``static_path``
# setting), and a *history* of operations that share the class-level version-hash cache: legitimate fetches
# through one handler (warming the cache for that file), ``make_static_url`` calls (which hash any path, also
# outside the root), then traversals through ANOTHER handler aimed at the already-hashed file.  The containment
# oracle is evaluated per handler: a file inside handler B's root is still outside handler A's.
ROOTKEYS = {"root": "root", "secret": "root_secret", "sub": "root/sub", "to": "abs/path/to", "Root": "Root", "ROOT": "ROOT"}
MULTI_FILES = ["root/a.txt", "root/sub/b.txt", "root/sub/index.html", "root/sub/deep/c.txt", "root/noindex/d.txt",
               "root_secret/s.txt", "root_secret/index.html", "rootx", "roo/r.txt", "outside.txt", "abs/path/to/secret",
               "Root/cs.txt", "ROOT/index.html", "ROOT/up.txt", "rOOt"]
MULTI_UPS = ["..", "..", "..", "%2e%2e", "%2E%2e", ".%2e"]


def _contains(rootrel, filerel):
    return filerel.startswith(rootrel + "/")


@st.composite
def multi_case_s(draw):
    keys = draw(st.lists(st.sampled_from(sorted(ROOTKEYS)), min_size=2, max_size=3, unique=True))
    mounts = [(k, draw(st.booleans())) for k in keys]
    ops = []
    for _ in range(draw(st.integers(1, 3))):
        kind = draw(st.sampled_from(["warm_attack", "warm_attack", "warm_attack", "soup"]))
        if kind == "soup":
            ops.append(("get", draw(st.integers(0, len(mounts) - 1)), draw(segs_s), draw(st.sampled_from(["GET", "GET", "HEAD"])),
                        draw(st.sampled_from(["", "?v=1"]))))
            continue
        f = draw(st.sampled_from(MULTI_FILES))
        owners = [i for i, (k, _) in enumerate(mounts) if _contains(ROOTKEYS[k], f)]
        others = [i for i, (k, _) in enumerate(mounts) if not _contains(ROOTKEYS[k], f)]
        # warm the shared hash cache for f: a legitimate fetch through an owning handler, or make_static_url
        if owners and draw(st.sampled_from([True, True, False])):
            i = draw(st.sampled_from(owners))
            rel = f[len(ROOTKEYS[mounts[i][0]]) + 1:]
            ops.append(("get", i, rel.split("/"), "GET", draw(st.sampled_from(["", "?v=1", "?v=abc"]))))
        else:
            i = draw(st.integers(0, len(mounts) - 1))
            depth = ROOTKEYS[mounts[i][0]].count("/") + 1
            ops.append(("hash", i, [".."] * depth + f.split("/")))
        if others:
            a = draw(st.sampled_from(others))
            depth = ROOTKEYS[mounts[a][0]].count("/") + 1
            ups = [draw(st.sampled_from(MULTI_UPS)) for _ in range(depth)]
            form = draw(st.sampled_from(["dotdot", "dotdot", "absolute", "enc_absolute"]))
            if form == "dotdot":
                segs = ups + f.split("/")
            elif form == "absolute":
                segs = ["", "@BASE@"] + f.split("/")
            else:
                segs = ["%2f@BASE@"] + f.split("/")
            ops.append(("get", a, segs, draw(st.sampled_from(["GET", "GET", "HEAD"])), draw(st.sampled_from(["", "", "?v=1"]))))
    return {"mounts": mounts, "ops": ops}


def build_multi_app(fx, mounts):
    roots = [os.path.join(fx.base, ROOTKEYS[k]) for k, _ in mounts]
    handlers = []
    for i in range(1, len(mounts)):
        hargs = {"path": roots[i]}
        if mounts[i][1]:
            hargs["default_filename"] = "index.html"
        handlers.append((r"/m%d/(.*)" % i, StaticFileHandler, hargs))
    hargs0 = {"default_filename": "index.html"} if mounts[0][1] else {}
    app = Application(handlers, static_path=roots[0], static_url_prefix="/m0/", static_handler_args=hargs0)
    return app, roots


def run_multi(ctx, case):
    fx = staticfix.tree()
    base_rel = fx.base.lstrip("/")
    app, roots = build_multi_app(fx, case["mounts"])
    StaticFileHandler.reset()  # once per history: the cache is what the history is about
    labels = {"multi_%d_handlers" % len(roots)}
    if any(a != b and (a.startswith(b + "/")) for a in roots for b in roots):
        labels.add("multi_nested_roots")
    nontrivial = False
    hashed = set()  # absolute paths whose version hash is (legitimately) in the shared cache
    for step, op in enumerate(case["ops"]):
        if op[0] == "hash":
            _, i, relsegs = op
            rel = "/".join(relsegs)
            settings = dict(app.settings, static_path=roots[i])
            url = StaticFileHandler.make_static_url(settings, rel)
            norm, _ = lexical_join(roots[i], rel)
            if "?v=" in url:
                hashed.add(norm)
            labels.add("hash_op")
            continue
        _, i, segs, method, query = op
        root, default_on = roots[i], case["mounts"][i][1]
        prefix = "/m%d/" % i
        segs = [s.replace("@BASEENC@", "%2f" + base_rel.replace("/", "%2f")).replace("@BASE@", base_rel) for s in segs]
        path = prefix + "/".join(segs)
        target = (path + query).encode("ascii")
        cap = path[len(prefix):]
        try:
            rel = urllib.parse.unquote_to_bytes(cap).decode("utf-8")
        except UnicodeDecodeError:
            rel = None
        r = fetch(ctx, app, method, target, reset=False)
        if r is None:
            continue
        if rel is None:
            if r.code not in (400, 403, 404) or MARK in r.body:
                ctx.fail("C26.invalid_utf8_served", {"target": target, "code": r.code, "step": step})
            continue
        norm, crossed = lexical_join(root, rel)
        inside = norm == root or norm.startswith(root + "/")
        expect_file = None
        if inside:
            if os.path.isfile(norm):
                expect_file = norm
            elif os.path.isdir(norm) and default_on and os.path.isfile(os.path.join(norm, "index.html")):
                expect_file = os.path.join(norm, "index.html")
        detail = {"step": step, "ops": case["ops"][:step + 1], "mounts": case["mounts"], "handler": i, "target": target,
                  "decoded": rel, "norm": norm.replace(fx.base, "<BASE>"), "root": root.replace(fx.base, "<BASE>"),
                  "inside": inside, "code": r.code, "body": r.body[:80], "already_hashed": norm in hashed}
        if MARK in r.body and (not inside or expect_file is None or r.body != fx.content.get(expect_file)):
            ctx.fail("C26.leak", detail)
        if not inside:
            labels.add("multi_outside")
            if norm in hashed:
                labels.add("warm_then_traverse_outside")
                nontrivial = True
            if any(norm.startswith(o + "/") for o in roots if o != root):
                labels.add("outside_but_in_other_handlers_root")
            if r.code not in (403, 404):
                ctx.fail("C26.outside_status", detail)
        else:
            if r.code not in (200, 301, 403, 404):
                ctx.fail("C26.inside_status", detail)
            if r.code == 200:
                labels.add("multi_served_200")
                if expect_file is None or (method == "GET" and r.body != fx.content[expect_file]):
                    ctx.fail("C26.wrong_file", detail)
                else:
                    hashed.add(expect_file)
            elif r.code == 301 and not (os.path.isdir(norm) and default_on):
                ctx.fail("C26.redirect_not_dir", detail)
    ctx.note(case, labels, nontrivial)


# --------------------------------------------------------------------------- deterministic boundary family: letter case
# Every case-variant sibling of the root x every mount / root spelling / default_filename x GET/HEAD x up-step spelling
# (the containment test must be an exact, case-sensitive comparison on this case-sensitive filesystem).
CASE_TARGETS = [("Root", "cs.txt"), ("ROOT", "index.html"), ("ROOT", ""), ("ROOT",), ("ROOT", "up.txt"), ("rOOt",), ("Root", ""), ("Root",)]


def casegrid_cases():
    for mount in (0, 1, 2):
        for slash in (False, True):
            for default in (False, True):
                for method in ("GET", "HEAD"):
                    for up in ("..", "%2e%2e"):
                        for t in CASE_TARGETS:
                            yield {"mount": mount, "slash": slash, "default": default, "method": method,
                                   "segs": [up] + list(t), "query": ""}
                    for t in CASE_TARGETS:  # absolute form
                        yield {"mount": mount, "slash": slash, "default": default, "method": method,
                               "segs": ["", "@BASE@"] + list(t), "query": ""}


PARTS = {"main": run_case, "multi": run_multi, "casegrid": run_case}
REQUIRED = ["dotdot_escape", "sibling_prefix", "absolute", "encoded_slash", "nul", "dir_default", "served_200",
            "flip_hidden", "flip_created", "warm_then_traverse_outside", "hash_op", "multi_nested_roots",
            "outside_but_in_other_handlers_root", "multi_served_200", "case_variant_sibling"]


def main(ctx):
    ctx.run_replays(PARTS)
    ctx.explore(case_s, run_case, ctx.n(4000, 160000), name="main")
    ctx.explore(multi_case_s(), run_multi, ctx.n(1500, 60000), name="multi")
    ctx.enumerate(casegrid_cases(), run_case, name="casegrid")
    for lab in REQUIRED:
        if not ctx.violations and not ctx.labels.get(lab):
            ctx.warnings.append("required label never hit: %s" % lab)
