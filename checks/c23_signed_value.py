"""C23 — Signed values cannot be forged, replayed across names or crash the reader.

Real code: tornado.web.create_signed_value / decode_signed_value / get_signature_key_version, always with an
explicit integer (or x.5) clock, so no wall clock is involved.

Parts
  roundtrip  (a) decode(create(v)) == utf8(v) at t0, mid-window, t0+max_age exactly and a fractional time;
             (b) the *unmodified* signed value gives None under another name, another secret, another key
             version / a dict without the key version, one second after expiry, and below min_version.
  attack     one generated modification of a valid signed value (single-byte substitution / insertion /
             deletion / adjacent transposition, delimiter shifts by 1..4 bytes across every '|' and ':',
             field swaps, truncation, version-prefix games, signature games, name<->value prefix moves with the
             decode name changed accordingly, v2 length-prefix games incl. structurally consistent
             name->value / timestamp->name moves) -> decode must return None and must not raise.
  arbitrary  arbitrary text / bytes / pipe-colon-digit soup / v1- and v2-shaped templates with wrong
             signatures / huge or odd length prefixes, under plain and key-versioned secrets -> None, no raise
             (also get_signature_key_version never raises).
  history    op-lists on ONE key-versioned secrets dict object: sign / decode / replace, delete, add a key version in
             place / decode with a second dict instance; each decode judged against the dict's current content.
             Finite sweep of all op sequences of length <= 3 (thorough 4) over 8 ops + Hypothesis op-lists.
  edits      finite enumeration: for N deterministic signed values, at every byte position, every
             substitution and insertion from a 17-byte pool, the deletion and the adjacent transposition
             (quick N=10, thorough N=16000, ~3300 edits per value: "all single-byte edits of N signed values").

max_age_days is k/64 days so max_age_days*86400 = k*1350 is exact in floating point and "t0 + max_age" is a
sharp boundary.

Open findings (see known_findings.d/C23.json, findings_inbox/C23-*.md)
  F-C23-v1-cross-name            sig C23.other_name_not_none.v1_name_value_boundary_move
      v1 signs name||value||timestamp without delimiters: a value signed for `foo` decodes under `fo` when
      "o" is prepended (and under `foo`+value[:k] when k leading bytes are cut).  Only used when the format is
      v1, the decode name differs and utf8(name')+value' == utf8(name)+value with timestamp+signature intact.
  F-C23-v1-value-timestamp-move  sig C23.modified_not_none.v1_value_timestamp_boundary_move
      same root cause, other boundary: digits moved between value and timestamp are accepted when the creation
      time has <= 8 digits (before 1973), where Tornado's "timestamp in future"/leading-zero sanity checks do
      not bite.  Only used when the format is v1, the name is unchanged, the attacked input has 3 fields, the
      signature field is intact, value'+timestamp' == value+timestamp, the creation time is < 1e8, and timestamp'
      is decimal digits (optionally with the leading '+' that int() tolerates) denoting a DIFFERENT number than
      the signed timestamp, without a leading zero, not expired and at most 31 days ahead of the decode clock.  So a
      regression of Tornado's existing v1 sanity checks is still reported, and so is any acceptance of a move that
      leaves the number unchanged ('YWI+|1300000000' -> 'YWI|+1300000000'), which hinges on the payload decoder only.
  F-C23-v2-non-ascii-name        sig C23.roundtrip.v2_non_ascii_name
      v2 writes the name's length in characters but reads it in bytes, so a value created for a non-ASCII
      name never decodes.  Only used for format v2 with a non-ASCII name and result None in the validity window.

Sensitivity (quick tier, seed 1, scratch copy of /repo/tornado):
  M1  v2 `if name_field != utf8(name): return None` removed            caught  C23.other_name_not_none
  M2  v1 `if parts[1].startswith(b"0")` -> `if False`                  caught  C23.modified_not_none (edits sweep: 'aGVsbG8=|20|' -> 'aGVsbG8=2|0|')
  M3  v2 signatures compared on the first 32 hex digits only           caught  C23.modified_not_none (append / insert in the tail)
  M4  v2 expiry test -> `if False`                                      caught  C23.expired_not_none
  M5  v1 future-timestamp test -> `if False`                            caught  C23.modified_not_none (shift of 4 digits into the timestamp)
  M6  v1 signatures compared on the first 20 hex digits only           caught  C23.modified_not_none
  M7  v2 `_consume_field` no longer checks the '|' terminator          not caught -- equivalent for this property: the
      HMAC covers every byte before the signature, so a laxer field parser cannot make a modified value acceptable
  M8  `if version < min_version` -> `if False`                          caught  C23.below_min_version_not_none
  M9  v2 `except KeyError` (unknown key version) -> `except IndexError` caught  C23.decode_raised (KeyError)
  M10 v1 expiry uses a fixed 31 days instead of max_age_days            caught  C23.expired_not_none
  M11 both decoders re-add missing '=' padding before b64decode (found by independent mutation testing; originally
      missed: no v1 value whose base64 ends in '+' met a 1-byte move across the first '|')   caught  C23.modified_not_none
      at seeds 1,2,3 by the attack part (shrunk to 'AAA|+1000000000|sig') and, in every run, by the edits sweep
      (value b'ab>' = 'YWI+': transposition at the delimiter -> 'YWI|+1700063352|sig') and by
      replays/C23/v1-plus-sign-moved-into-timestamp.json.  The exclusion of F-C23-v1-value-timestamp-move does not
      swallow it: it requires a numerically *changed* timestamp and a creation time < 1e8.
  M12 v2 decoder memoises a keyed HMAC per (id(secrets dict), key version), never invalidated (round-9 "state carried
      over" mutant; missed because every case built a fresh dict and decoded once)   caught at seeds 1,2,3 by the finite
      "history_sweep" part (sign, decode, replace key in place, decode -> retired key still accepted) and by the
      Hypothesis "history" part -> C23.history_decode.  Generally: one long-lived secrets dict is used for many
      sign/decode operations and rotated in place (replace / delete / add), a second dict instance lives alongside,
      and every decode is judged against the current content of the dict it was given.
  pre-fix snapshot 59274db (F11 int() ValueError, F12 dict-secret AssertionError): re-found by the generators
  (swap at the first '|'; dict secret + version-less string) and by replays/C23/F11-*.json, F12-*.json.
"""
import functools
import hashlib
import hmac
import logging
import re

from hypothesis import strategies as st

from tornado.escape import utf8
from tornado.web import create_signed_value, decode_signed_value, get_signature_key_version

logging.getLogger("tornado.general").setLevel(logging.CRITICAL)  # "Invalid cookie signature" per decode

PROPERTY = "C23"
READY = True
RULE = (
    "Hypothesis base = (secret: str|bytes|{key_version: secret} dict, name from a pool + generated incl. '|' ':' "
    "non-ASCII and empty, value text|bytes incl. empty and digit-only base64, t0 in [1, 4e7] or [1e9, 2e9] or a "
    "pool, format v1|v2, max_age = k/64 days, k in 1..25600); parts roundtrip / attack (base + one of 17 attack "
    "kinds) / arbitrary (strings and templates); plus a finite enumeration of every single-byte "
    "substitution/insertion (17-byte pool), deletion and adjacent transposition at every position of N "
    "deterministic signed values.  non-trivial: roundtrip = value or name contains a non-alphanumeric byte or the "
    "secret is a dict; attack/edits = the attacked input still has the field structure of its format (v1: three "
    "'|' fields; v2: '2|' + four well-formed length-prefixed fields); arbitrary = the string has v1/v2 field "
    "structure.  distinct = SHA-1 of the case"
)
ASSUMPTIONS = [
    "HMAC-SHA1/-SHA256 collisions or a signature guessed by chance do not occur within the explored inputs",
    "two secrets are 'different' when their UTF-8 bytes differ (secrets contain no NUL, so HMAC zero-padding "
    "cannot make them equivalent)",
    "creation and decode clocks are integers (the formats have 1 s granularity) or integer + 0.5",
    "max_age_days is a multiple of 1/64 day so the expiry boundary is exact in floating point",
]
TECHNIQUE = (
    "property-based testing (Hypothesis): round trip + named attack mutations of valid signed values + finite "
    "enumeration of single-byte edits; oracle = 'None unless unmodified'"
)
LEVEL_TEXT = (
    "bounded exploration plus an exhaustive single-byte-edit sweep over a fixed pool of signed values; integrity "
    "against multi-byte forgeries rests on HMAC and is only sampled through the named attack classes"
)
SHARDS = 16

SIG_F13 = "C23.other_name_not_none.v1_name_value_boundary_move"
SIG_F13B = "C23.modified_not_none.v1_value_timestamp_boundary_move"
SIG_V2NAME = "C23.roundtrip.v2_non_ascii_name"

# ------------------------------------------------------------------------------------- strategies
NAME_POOL = ["foo", "fo", "user", "session_id", "a", "", "x|y", "a:b", "1", "12", "3:foo", "na me", "n=1;",
             "\xe9", "名前", "f\xe9o", "o", "oo", "AAAA", "abcd1234", "foo|8:aGVsbG8=", "2|1:0"]
name_s = st.one_of(st.sampled_from(NAME_POOL), st.sampled_from(NAME_POOL[:12]),
                   st.text(alphabet="abcdefgoXYZ019_-|:.=+/ \xe9中", max_size=12))
value_s = st.one_of(
    st.text(st.characters(exclude_categories=("Cs",)), max_size=30),
    st.binary(max_size=30),
    st.sampled_from(["", "hello", "1234", "0", b"\xd7\x6d\xf8", b"\xd7\x6d\xf8\xd7\x6d\xf8", b"abc\xd7\x6d\xf8", b"abc",
                     "a|b|c", "2|1:0|", "value with spaces", b"\x00\xff", "\xe9", b"\xd7\x5d\x35\xdb\x7d\xf9ab"]),
    # base64 text ending in '+' or '/' (int() tolerates a leading '+', so a moved '+' keeps the timestamp numeric),
    # a '+ddd' quad at the end, and every padding length
    st.sampled_from([b"ab>", b"ab?", b">>>", b"\xfb\xef\xbe", b"\xff\xff\xff", b"abc\xfb\x5d\xb7", b"ab>ab>", "ab>", "a", "ab",
                     b"\xfb", b"ab>a", b"xyzab>", b"\xfb\xef\xbe\xfb\x5d\xb7"]),
)
t0_s = st.one_of(
    st.integers(10**9, 2 * 10**9), st.integers(10**9, 2 * 10**9), st.integers(10**9, 2 * 10**9),
    st.integers(1, 4 * 10**7),
    st.sampled_from([1, 9, 10, 15, 20, 105, 1005, 12345, 1700000000, 999999999, 1000000000, 2**31 - 1, 2**31, 4102444800,
                     11234567, 30000007]),
)
secret_atom = st.one_of(
    st.text(alphabet=st.characters(exclude_categories=("Cs",), exclude_characters="\x00"), min_size=1, max_size=20),
    st.binary(min_size=1, max_size=20).map(lambda b: b.replace(b"\x00", b"\x01")),
    st.sampled_from(["secret", b"secret", "s3cr3t|:", "\xe9中", "x" * 70]),
)
plain_secret = st.tuples(st.just("plain"), secret_atom)
dict_secret = st.builds(
    lambda kvs, pick: ("dict", kvs, kvs[pick % len(kvs)][0]),
    st.lists(st.tuples(st.integers(0, 12), secret_atom), min_size=1, max_size=3, unique_by=lambda kv: kv[0]),
    st.integers(0, 2),
)
secret_s = st.one_of(plain_secret, plain_secret, dict_secret)


@st.composite
def base_s(draw):
    secret = draw(secret_s)
    version = 2 if secret[0] == "dict" else draw(st.sampled_from([1, 1, 2]))
    return {
        "secret": secret,
        "version": version,
        "name": draw(name_s),
        "value": draw(value_s),
        "t0": draw(t0_s),
        "k": draw(st.one_of(st.integers(1, 400 * 64), st.sampled_from([1, 64, 31 * 64, 400 * 64]))),
    }


BYTE_POOL = list(b"|:=0129aAfF \n_+-\x00\xff")
byte_s = st.one_of(st.sampled_from(BYTE_POOL), st.integers(0, 255))
pos_s = st.integers(0, 399)
VERSION_TEXTS = [b"1", b"3", b"02", b"22", b"2 ", b"+2", b"999", b"1000", b"0", b"", b"2|2", b"\xef\xbc\x92"]
LEN_VARIANTS = ["plus1", "minus1", "zero", "huge", "leading_zero", "plus_sign", "space", "underscore", "neg", "empty",
                "fullwidth", "digits4301"]
attack_s = st.one_of(
    st.tuples(st.just("sub"), pos_s, byte_s),
    st.tuples(st.just("ins"), pos_s, byte_s),
    st.tuples(st.just("del"), pos_s),
    st.tuples(st.just("swap"), pos_s),
    st.tuples(st.just("shift"), st.integers(0, 11), st.sampled_from([-4, -3, -2, -1, 1, 2, 3, 4])),
    st.tuples(st.just("shift"), st.integers(0, 1), st.sampled_from([-4, -3, -2, -1, 1, 2, 3, 4])),
    st.tuples(st.just("shift"), st.just(0), st.sampled_from([-1, -1, -1, -4, -2, 1, 4])),  # v1: value|timestamp
    st.tuples(st.just("name_move"), st.integers(1, 4)),
    st.tuples(st.just("name_move_rev"), st.integers(1, 8)),
    st.tuples(st.just("v2_name_move"), st.integers(1, 4)),
    st.tuples(st.just("v2_ts_move"), st.integers(1, 4)),
    st.tuples(st.just("len_game"), st.integers(0, 3), st.sampled_from(LEN_VARIANTS)),
    st.tuples(st.just("field_swap"), st.integers(0, 5), st.integers(0, 5)),
    st.tuples(st.just("truncate"), pos_s),
    st.tuples(st.just("version"), st.sampled_from(VERSION_TEXTS)),
    st.tuples(st.just("sig_case")),
    st.tuples(st.just("sig_other_secret")),
    st.tuples(st.just("append"), st.sampled_from([b"\n", b" ", b"|", b"0", b"=", b"\x00"])),
)


# --------------------------------------------------------------------------------- real-code calls
def build_secret(sec):
    if sec[0] == "plain":
        return sec[1], None
    return {kv: s for kv, s in sec[1]}, sec[2]


def sign(base):
    secret, kv = build_secret(base["secret"])
    t0 = base["t0"]
    return create_signed_value(secret, base["name"], base["value"], version=base["version"],
                               clock=lambda: t0, key_version=kv)


def decode(ctx, secret, name, data, t, k, min_version=None, detail=None):
    """decode_signed_value with an explicit clock; any exception is the 'never raises' clause."""
    try:
        return decode_signed_value(secret, name, data, max_age_days=k / 64, clock=lambda: t, min_version=min_version)
    except Exception as e:  # noqa: BLE001 - the statement: "Decoding never raises, whatever string it is given"
        ctx.fail("C23.decode_raised", dict(detail or {}, data=data, name=name, exception=repr(e),
                                           secret_form=type(secret).__name__),
                 sig="C23.decode_raised.%s" % type(e).__name__)
        return None


def key_version_never_raises(ctx, data, detail=None):
    if not data:
        return
    try:
        r = get_signature_key_version(data)
    except Exception as e:  # noqa: BLE001
        ctx.fail("C23.key_version_raised", dict(detail or {}, data=data, exception=repr(e)),
                 sig="C23.key_version_raised.%s" % type(e).__name__)
        return
    if r is not None and not isinstance(r, int):
        ctx.fail("C23.key_version_type", dict(detail or {}, data=data, got=repr(r)))


# ------------------------------------------------------------------------- independent structure parser
def parse_v2(a):
    """Strict structural parse: b'2|' + 4 x 'LEN:DATA|' + signature.  None when malformed."""
    if not a.startswith(b"2|"):
        return None
    rest = a[2:]
    fields = []
    for _ in range(4):
        colon = rest.find(b":")
        if colon <= 0:
            return None
        digits = rest[:colon]
        if not digits.isdigit() or not digits.isascii() or len(digits) > 9:
            return None
        n = int(digits)
        body = rest[colon + 1:colon + 1 + n]
        if len(body) != n or rest[colon + 1 + n:colon + 2 + n] != b"|":
            return None
        fields.append(body)
        rest = rest[colon + 2 + n:]
    return fields + [rest]


def structured(a, version):
    if version == 1:
        return a.count(b"|") == 2
    return parse_v2(a) is not None


def is_ascii(s):
    return all(ord(c) < 128 for c in s)


# ------------------------------------------------------------------------------------------ roundtrip
def other_names(name):
    out = [name + "x", name[:-1], "x" + name, name.upper(), name.lower(), name + "|", name + "\x00", "other"]
    return [n for n in out if n != name]


def run_roundtrip(ctx, case):
    base = case["base"]
    secret, kv = build_secret(base["secret"])
    name, value, t0, k, version = base["name"], base["value"], base["t0"], base["k"], base["version"]
    S = k * 1350  # == (k/64) * 86400 exactly
    s = sign(base)
    want = value.encode("utf-8") if isinstance(value, str) else value
    detail = {"base": base, "signed": s}
    labels = {"v%d" % version, "dict_secret" if isinstance(secret, dict) else "plain_secret"}
    if not isinstance(s, bytes):
        ctx.fail("C23.create_returns_bytes", detail)
    v2_nonascii_name = version == 2 and not is_ascii(name)
    if t0 < 10**8:
        labels.add("small_t0")
    if not is_ascii(name):
        labels.add("non_ascii_name")
    # (a) every time in the validity window, bytes and str form of the signed value
    times = [("t0", t0), ("mid", t0 + S // 2), ("last_second", t0 + S), ("frac", t0 + 0.5)]
    forms = [s]
    try:
        forms.append(s.decode("utf-8"))
    except UnicodeDecodeError:
        pass
    reported_known = False
    for tlabel, t in times:
        for data in forms:
            for mv in (None, version):
                got = decode(ctx, secret, name, data, t, k, min_version=mv, detail=detail)
                if got != want or (got is not None and not isinstance(got, bytes)):
                    sig = None
                    if v2_nonascii_name and got is None:
                        if reported_known:
                            continue
                        reported_known = True
                        sig = SIG_V2NAME
                        labels.add("v2_non_ascii_name_roundtrip_none")
                    ctx.fail("C23.roundtrip", dict(detail, at=tlabel, t=t, got=got, want=want, min_version=mv), sig=sig)
    labels.add("valid_at_exact_max_age")
    # (b) unmodified value, wrong context
    t_exp = t0 + S + 1
    got = decode(ctx, secret, name, s, t_exp, k, detail=detail)
    if got is not None:
        ctx.fail("C23.expired_not_none", dict(detail, t=t_exp, got=got))
    got = decode(ctx, secret, name, s, t0 + S + 0.5, k, detail=detail)
    if got is not None:
        ctx.fail("C23.expired_not_none", dict(detail, t=t0 + S + 0.5, got=got))
    labels.add("expired_edge")
    for n2 in other_names(name) + [case["other_name"]]:
        if n2 == name:
            continue
        got = decode(ctx, secret, n2, s, t0, k, detail=detail)
        if got is not None:
            ctx.fail("C23.other_name_not_none", dict(detail, other_name=n2, got=got))
    labels.add("other_name")
    o = case["other_secret"]
    used = secret[kv] if isinstance(secret, dict) else secret
    if utf8(o) != utf8(used):
        if isinstance(secret, dict):
            wrong = dict(secret)
            wrong[kv] = o
            got = decode(ctx, wrong, name, s, t0, k, detail=detail)
            if got is not None:
                ctx.fail("C23.other_key_version_secret_not_none", dict(detail, got=got))
            missing = {x: y for x, y in secret.items() if x != kv}
            missing[kv + 100] = used
            got = decode(ctx, missing, name, s, t0, k, detail=detail)
            if got is not None:
                ctx.fail("C23.missing_key_version_not_none", dict(detail, got=got))
            labels.add("other_key_version")
        got = decode(ctx, o, name, s, t0, k, detail=detail)
        if got is not None:
            ctx.fail("C23.other_secret_not_none", dict(detail, other_secret=o, got=got))
        got = decode(ctx, {kv if kv is not None else 0: o}, name, s, t0, k, detail=detail)
        if got is not None:
            ctx.fail("C23.other_secret_not_none", dict(detail, other_secret=o, form="dict", got=got))
        labels.add("other_secret")
    if version == 1:
        got = decode(ctx, secret, name, s, t0, k, min_version=2, detail=detail)
        if got is not None:
            ctx.fail("C23.below_min_version_not_none", dict(detail, got=got))
        # a v1 value can never be read with a key-versioned secret
        got = decode(ctx, {0: secret, 1: secret}, name, s, t0, k, detail=detail)
        if got is not None:
            ctx.fail("C23.v1_with_dict_secret_not_none", dict(detail, got=got))
        labels.add("below_min_version")
    key_version_never_raises(ctx, s, detail)
    nontrivial = (not want.isalnum()) or (not name.isalnum()) or isinstance(secret, dict)
    ctx.note(case, labels, nontrivial)


roundtrip_s = st.fixed_dictionaries({"base": base_s(), "other_name": name_s, "other_secret": secret_atom})


# --------------------------------------------------------------------------------------------- attack
def delimiters(s):
    return [i for i, c in enumerate(s) if c in b"|:"]


def v2_fields(s):
    return parse_v2(s)


def v2_join(kv, ts, name, val, sig):
    def ff(b):
        return b"%d:%s" % (len(b), b)
    return b"|".join([b"2", ff(kv), ff(ts), ff(name), ff(val), b""]) + sig


def length_variant(n, variant):
    return {
        "plus1": b"%d" % (n + 1), "minus1": b"%d" % (n - 1), "zero": b"0", "huge": b"99999999999",
        "leading_zero": b"0%d" % n, "plus_sign": b"+%d" % n, "space": b" %d" % n, "underscore": b"%d_0" % n if n else b"0_0",
        "neg": b"-%d" % n, "empty": b"", "fullwidth": ("%d" % n).translate({48 + i: 0xFF10 + i for i in range(10)}).encode(),
        "digits4301": b"9" * 4301,
    }[variant]


def apply_attack(base, s, attack):
    """-> (attacked bytes, decode name, label set).  attacked == s means the attack was a no-op here."""
    kind = attack[0]
    name = base["name"]
    version = base["version"]
    n = len(s)
    labels = {"atk_" + kind}
    if kind == "sub":
        p = attack[1] % n
        return s[:p] + bytes([attack[2]]) + s[p + 1:], name, labels
    if kind == "ins":
        p = attack[1] % (n + 1)
        return s[:p] + bytes([attack[2]]) + s[p:], name, labels
    if kind == "del":
        p = attack[1] % n
        return s[:p] + s[p + 1:], name, labels
    if kind == "swap":
        p = attack[1] % (n - 1)
        return s[:p] + s[p + 1:p + 2] + s[p:p + 1] + s[p + 2:], name, labels
    if kind == "shift":
        ds = delimiters(s)
        p = ds[attack[1] % len(ds)]
        q = max(0, min(n - 1, p + attack[2]))
        rest = s[:p] + s[p + 1:]
        a = rest[:q] + s[p:p + 1] + rest[q:]
        labels.add("v%d_boundary_shift" % version)
        return a, name, labels
    if kind == "name_move":
        k = min(attack[1], len(name))
        if k == 0:
            return s, name, labels
        moved = name[-k:].encode("utf-8")
        if version == 1:
            labels.add("v1_name_prefix_move")
        return moved + s, name[:-k], labels
    if kind == "name_move_rev":
        k = min(attack[1], n - 1)
        head = s[:k]
        try:
            head_text = head.decode("utf-8")
        except UnicodeDecodeError:
            return s, name, labels
        if version == 1:
            labels.add("v1_name_prefix_move")
        return s[k:], name + head_text, labels
    if kind in ("v2_name_move", "v2_ts_move", "len_game"):
        if version == 1:
            # no length prefixes in v1: fall back to the delimiter shift between value and timestamp
            k = 1 if kind == "len_game" else -(attack[1] % 4 + 1)
            return apply_attack(base, s, ("shift", 0, k))
        if parse_v2(s) is None:
            # non-ASCII name: the creator's own length prefix is wrong (finding F-C23-v2-non-ascii-name),
            # there is no field structure to play with
            return s, name, labels
    if kind == "v2_name_move":
        kvf, ts, nm, val, sig = v2_fields(s)
        # the name field holds utf8(name) only when the creator's length prefix was right (ASCII names)
        k = min(attack[1], len(name))
        if k == 0 or nm != name.encode("utf-8"):
            return s, name, labels
        moved = name[-k:].encode("utf-8")
        labels.add("v2_length_prefix_game")
        return v2_join(kvf, ts, nm[:len(nm) - len(moved)], moved + val, sig), name[:-k], labels
    if kind == "v2_ts_move":
        kvf, ts, nm, val, sig = v2_fields(s)
        k = min(attack[1], len(ts) - 1)
        if k <= 0:
            return s, name, labels
        labels.add("v2_length_prefix_game")
        # digits leave the timestamp and join the front of the name field; decode under the name that matches
        return v2_join(kvf, ts[:-k], ts[-k:] + nm, val, sig), ts[-k:].decode() + name, labels
    if kind == "len_game":
        # replace the decimal length of one of the four fields, leaving everything else in place
        rest = s[2:]
        out = [b"2|"]
        for i in range(4):
            colon = rest.find(b":")
            ln = int(rest[:colon])
            text = rest[:colon]
            if i == attack[1]:
                text = length_variant(ln, attack[2])
            out.append(text + rest[colon:colon + 2 + ln])
            rest = rest[colon + 2 + ln:]
        out.append(rest)
        labels.add("v2_length_prefix_game")
        return b"".join(out), name, labels
    if kind == "field_swap":
        parts = s.split(b"|")
        i, j = attack[1] % len(parts), attack[2] % len(parts)
        parts[i], parts[j] = parts[j], parts[i]
        return b"|".join(parts), name, labels
    if kind == "truncate":
        return s[:attack[1] % n], name, labels
    if kind == "version":
        if version == 2:
            return attack[1] + s[1:], name, labels
        return attack[1] + b"|" + s, name, labels
    if kind == "sig_case":
        cut = s.rfind(b"|") + 1
        return s[:cut] + s[cut:].upper(), name, labels
    if kind == "sig_other_secret":
        # what an attacker without the secret can do: a well-formed value signed with a guessed secret
        cut = s.rfind(b"|") + 1
        if version == 1:
            b64, ts = s.split(b"|")[:2]
            sig = hmac.new(b"guess", utf8(name) + b64 + ts, hashlib.sha1).hexdigest().encode()
        else:
            sig = hmac.new(b"guess", s[:cut], hashlib.sha256).hexdigest().encode()
        return s[:cut] + sig, name, labels
    if kind == "append":
        return s + attack[1], name, labels
    raise AssertionError(kind)


def classify_repartition(base, s, a, labels):
    """Labels for attacked v1 values that are pure re-partitions of value||timestamp (signature still valid)."""
    if base["version"] != 1 or a.count(b"|") != 2 or s.count(b"|") != 2:
        return
    ov, ots, osig = s.split(b"|")
    av, ats, asig = a.split(b"|")
    if asig != osig or av + ats != ov + ots or av == ov:
        return
    labels.add("v1_value_ts_repartition")
    if ats[:1] == b"+" and ats[1:].isdigit():
        labels.add("v1_plus_sign_moved_into_timestamp")
        if ats[1:] == ots and int(ots) >= 10**8:
            labels.add("v1_plus_sign_moved_realistic_timestamp")


def judge_attacked(ctx, base, s, a, name2, got, detail, labels):
    """A modified value (or the value under another name) decoded to something: classify and fail."""
    name, version = base["name"], base["version"]
    want = base["value"].encode("utf-8") if isinstance(base["value"], str) else base["value"]
    detail = dict(detail, attacked=a, decode_name=name2, got=got, equals_original=(got == want))
    if name2 != name:
        sig = None
        if version == 1 and a.count(b"|") == 2 and s.count(b"|") == 2:
            ov, ots, osig = s.split(b"|")
            av, ats, asig = a.split(b"|")
            if (ats, asig) == (ots, osig) and utf8(name2) + av == utf8(name) + ov:
                sig = SIG_F13
                labels.add("v1_cross_name_accepted")
        ctx.fail("C23.other_name_not_none", detail, sig=sig)
    else:
        sig = None
        if version == 1 and a.count(b"|") == 2 and s.count(b"|") == 2:
            ov, ots, osig = s.split(b"|")
            av, ats, asig = a.split(b"|")
            # the open finding, nothing more: a re-partition of value||timestamp whose timestamp field is a
            # DIFFERENT number than the signed one yet passes Tornado's v1 plausibility checks (decimal digits,
            # optionally the leading '+' int() tolerates; no leading zero; not expired; <= 31 days ahead), which
            # only happens for creation times with <= 8 digits.  A move that leaves the number unchanged (a '+'
            # in front of a realistic timestamp) is NOT in the class: there acceptance would hinge on the payload
            # decoder alone, and the tree returns None.
            t = detail["t"]
            if (asig == osig and av + ats == ov + ots and av != ov and re.fullmatch(rb"\+?[0-9]+", ats)
                    and not ats.startswith(b"0") and int(ots) < 10**8 and int(ats) != int(ots)
                    and t - base["k"] * 1350 <= int(ats) <= t + 31 * 86400):
                sig = SIG_F13B
                labels.add("v1_value_timestamp_move_accepted")
        ctx.fail("C23.modified_not_none", detail, sig=sig)


def attack_once(ctx, base, s, secret, attack, labels, detail, times):
    """Apply one attack, decode at the given in-window times; -> (was a real modification, structured)."""
    a, name2, alabels = apply_attack(base, s, attack)
    if a == s and name2 == base["name"]:
        labels.add("noop_attack")
        return False, False
    labels |= alabels
    if name2 == base["name"]:
        classify_repartition(base, s, a, labels)
    forms = [a]
    if attack[0] in ("name_move", "name_move_rev", "v2_name_move", "v2_ts_move", "version"):
        try:
            forms.append(a.decode("utf-8"))  # str argument: utf8() of it is the same bytes
        except UnicodeDecodeError:
            pass
    for t in times:
        for data in forms:
            got = decode(ctx, secret, name2, data, t, base["k"], detail=dict(detail, attack=attack))
            if got is not None:
                judge_attacked(ctx, base, s, a, name2, got, dict(detail, attack=attack, t=t), labels)
    key_version_never_raises(ctx, a, detail)
    return True, structured(a, base["version"])


def run_attack(ctx, case):
    base, attack = case["base"], tuple(case["attack"])
    secret, _ = build_secret(base["secret"])
    s = sign(base)
    S = base["k"] * 1350
    labels = {"v%d" % base["version"], "dict_secret" if isinstance(secret, dict) else "plain_secret"}
    if base["t0"] < 10**8:
        labels.add("small_t0")
    detail = {"base": base, "signed": s}
    real, st_ok = attack_once(ctx, base, s, secret, attack, labels, detail, (base["t0"], base["t0"] + S // 2))
    if st_ok:
        labels.add("still_structured")
    ctx.note(case, labels, real and st_ok)


attack_case_s = st.fixed_dictionaries({"base": base_s(), "attack": attack_s})


# ------------------------------------------------------------------------------------------ arbitrary
SOUP = ["|", "|", ":", ":", "0", "1", "2", "9", "10", "-", "+", " ", "_", "a", "=", "\n", "\xe9", "١", "２", "2|",
        "1:0|", "10:1700000000|", "3:foo|", "8:aGVsbG8=|", "aGVsbG8=", "1700000000", "0" * 40, "f" * 64, "\x00", "1_0:"]
HEX = "0123456789abcdef"


def _v2_template(kv, ts, name, val, sig, lens):
    parts = ["2"]
    for body, delta in zip((kv, ts, name, val), lens):
        parts.append("%d:%s" % (max(0, len(body.encode("utf-8")) + delta), body))
    return "|".join(parts) + "|" + sig


template_s = st.one_of(
    st.builds(_v2_template, st.sampled_from(["0", "1", "7", "x", "", "-1", "1_0", " 1", "١", "9" * 30]),
              st.sampled_from(["1700000000", "0", "x", "", "17e8", " 17", "1_7", "١٧", "9" * 4301]),
              st.sampled_from(["foo", "", "\xe9", "a|b"]), st.sampled_from(["aGVsbG8=", "", "!!!!", "aGVsbG8"]),
              st.sampled_from(["", "0" * 64, "f" * 64, "F" * 64, "zz", "\xe9" * 64]),
              st.tuples(*[st.sampled_from([0, 0, 0, 1, -1])] * 4)),
    st.builds(lambda v, t, g: "%s|%s|%s" % (v, t, g), st.sampled_from(["aGVsbG8=", "", "aGVsbG8", "1234", "\xe9", "2"]),
              st.sampled_from(["1700000000", "0", "", "x", " 1700000000", "1_700_000_000", "+17", "9" * 4301, "=1700000000", "١"]),
              st.sampled_from(["", "0" * 40, "f" * 40, "\xe9" * 40, "zz"])),
    st.builds(lambda n, tail: "2|1:0|%s:%s" % (n, tail), st.sampled_from(["99999999999", "9" * 4300, "9" * 4301, "9" * 5000, "-1", "-5", "1e3", "0x10", ""]),
              st.sampled_from(["", "x|", "|", "1700000000|3:foo|0:|"])),
    st.builds(lambda d, tail: "%s|%s" % (d, tail), st.sampled_from(["9" * 4301, "1000", "999", "3", "0", "02", "1", "10" * 3000]),
              st.sampled_from(["", "x", "1:0|1:1|1:a|0:|", "a|b"])),
)
arbitrary_data_s = st.one_of(
    st.text(st.characters(exclude_categories=("Cs",)), max_size=40),
    st.binary(max_size=40),
    st.lists(st.sampled_from(SOUP), min_size=1, max_size=14).map("".join),
    st.lists(st.sampled_from(SOUP), min_size=1, max_size=14).map(lambda xs: "".join(xs).encode("utf-8")),
    template_s, template_s,
    template_s.map(lambda s: s.encode("utf-8")),
)
arbitrary_s = st.fixed_dictionaries({
    "secret": st.one_of(st.sampled_from([("plain", "secret"), ("plain", b"k"), ("dict", [(0, "a"), (1, b"b")], 1),
                                         ("dict", [(7, "z")], 7)]), secret_s),
    "name": name_s,
    "data": arbitrary_data_s,
    "min_version": st.sampled_from([None, 1, 2]),
    "k": st.sampled_from([1, 64, 31 * 64, 400 * 64]),
    "t": st.sampled_from([1, 12345, 1700000000, 4102444800]),
})


def run_arbitrary(ctx, case):
    secret, _ = build_secret(case["secret"])
    data = case["data"]
    labels = {"arbitrary_dict_secret" if isinstance(secret, dict) else "arbitrary_plain_secret",
              "str_data" if isinstance(data, str) else "bytes_data"}
    raw = data.encode("utf-8") if isinstance(data, str) else data
    got = decode(ctx, secret, case["name"], data, case["t"], case["k"], min_version=case["min_version"])
    if got is not None:
        ctx.fail("C23.arbitrary_string_not_none", {"case": case, "got": got})
    key_version_never_raises(ctx, data)
    is_v2 = parse_v2(raw) is not None
    is_v1 = raw.count(b"|") == 2 and not raw.startswith(b"2|")
    if isinstance(secret, dict):
        labels.add("dict_secret_arbitrary_string")
        if not raw[:2] == b"2|":
            labels.add("dict_secret_versionless_string")
    if is_v2:
        labels.add("v2_shaped")
    if is_v1:
        labels.add("v1_shaped")
    if len(raw) > 4000:
        labels.add("huge_number")
    if not data:
        labels.add("empty")
    ctx.note(case, labels, is_v1 or is_v2)


# ---------------------------------------------------------------------------------- exhaustive edits
E_NAMES = ["foo", "a", "session_id", "x|y", "3:foo"]
E_VALUES = ["hello", b"ab>", b"\xd7\x6d\xf8", "", "a|b", b"\x00\xff\x10", "1234567", b"ab?"]  # 'YWI+' / 'YWI/' end in +,/
E_SECRETS = [("plain", "secret"), ("plain", b"\x01\x02key"), ("dict", [(1, "one"), (2, b"two")], 2), ("dict", [(0, "zero")], 0)]
EDIT_POOL = bytes(BYTE_POOL)


SMALL_T0 = [20, 105, 15, 1005, 12345, 10, 30000007, 9, 100, 11234567]


@functools.lru_cache(maxsize=8)
def edit_base(i):
    """The i-th deterministic signed value: mixed-radix walk through the pools; i also perturbs value and t0.
    i % 8 in {0, 1} -> v1 (plain secret), the rest v2; i % 8 == 1 -> a pre-1971 creation time (several contain
    a '0' digit, which is what Tornado's v1 leading-zero check is about)."""
    secret = E_SECRETS[i % 4]
    version = 2 if secret[0] == "dict" or (i // 4) % 2 else 1
    name = E_NAMES[(i // 8) % len(E_NAMES)]
    value = E_VALUES[(i // 8) % len(E_VALUES)]  # gcd(5 names, 8 values) = 1: all 40 pairs occur
    if i >= 320:  # beyond one full cycle: make the payloads distinct
        tag = b"%d" % i
        value = (value.encode("utf-8") if isinstance(value, str) else value) + hashlib.sha256(tag).digest()[: i % 9]
    t0 = SMALL_T0[(i // 8) % len(SMALL_T0)] if i % 8 == 1 else 1700000000 + 7919 * i
    base = {"secret": secret, "version": version, "name": name, "value": value, "t0": t0, "k": 31 * 64}
    return base, sign(base)


def edit_cases(n_values):
    for i in range(n_values):
        _, s = edit_base(i)
        for pos in range(len(s) + 1):
            yield (i, pos)


def run_edits(ctx, case):
    i, pos = case
    base, s = edit_base(i)
    secret, _ = build_secret(base["secret"])
    labels = {"edits_v%d" % base["version"]}
    detail = {"base": base, "signed": s, "pos": pos}
    attacks = [("ins", pos, b) for b in EDIT_POOL]
    if pos < len(s):
        attacks += [("sub", pos, b) for b in EDIT_POOL if b != s[pos]] + [("del", pos)]
    if pos < len(s) - 1:
        attacks.append(("swap", pos))
    n_struct = 0
    for atk in attacks:
        real, st_ok = attack_once(ctx, base, s, secret, atk, labels, detail, (base["t0"],))
        n_struct += bool(real and st_ok)
    ctx.extra["single_byte_edits"] = ctx.extra.get("single_byte_edits", 0) + len(attacks)
    ctx.extra["structured_edits"] = ctx.extra.get("structured_edits", 0) + n_struct
    if pos < len(s) and s[pos:pos + 1] in b"|:":
        labels.add("edit_at_delimiter")
    ctx.note(case, labels, n_struct > 0)


# ------------------------------------------------------------------------- histories on one secrets dict
# A long-lived key-versioned secrets dict (Application settings["cookie_secret"]) is used for many decodes and is
# rotated IN PLACE (key replaced / deleted / added).  Every decode is judged against the dict's *current* content,
# independently of what was decoded before.  A second dict object with its own content is alive at the same time.
H_T0 = 1700000000
H_K = 31 * 64
H_NAMES = ["foo", "session", "a|b"]
hist_secret = st.sampled_from(["one", "two", b"three", "s3cr3t|:", "one ", "ONE"])
hist_op = st.one_of(
    st.tuples(st.just("sign"), st.integers(0, 3), st.integers(0, 2), st.sampled_from(["hello", "", b"\x00\xff", "v2"])),
    st.tuples(st.just("sign"), st.integers(0, 3), st.integers(0, 2), st.sampled_from(["hello", "x"])),
    st.tuples(st.just("decode"), st.integers(0, 7)),
    st.tuples(st.just("decode"), st.integers(0, 7)),
    st.tuples(st.just("decode_other"), st.integers(0, 7)),
    st.tuples(st.just("replace"), st.integers(0, 3), hist_secret),
    st.tuples(st.just("delete"), st.integers(0, 3)),
    st.tuples(st.just("add"), st.integers(0, 5), hist_secret),
    st.tuples(st.just("replace_other"), st.integers(0, 3), hist_secret),
)
history_s = st.fixed_dictionaries({
    "secrets": st.lists(st.tuples(st.integers(0, 5), hist_secret), min_size=1, max_size=3, unique_by=lambda kv: kv[0]),
    "ops": st.lists(hist_op, min_size=2, max_size=12),
})


def run_history(ctx, case):
    live = {kv: sec for kv, sec in case["secrets"]}      # ONE object for the whole history, mutated in place
    other = dict(live)                                   # a second instance, same start content, its own life
    signed = []                                          # (signed bytes, key version, key bytes used, name, value bytes)
    labels = {"history"}
    mutated = False
    decoded_before_mutation = False
    nontrivial = False

    def judge(d, which, i, step):
        nonlocal nontrivial
        sv, kv, key, name, val = signed[i % len(signed)]
        want = val if (kv in d and utf8(d[kv]) == key) else None
        got = decode(ctx, d, name, sv, H_T0, H_K, detail={"case": case, "step": step})
        if got != want:
            ctx.fail("C23.history_decode", {"case": case, "step": step, "dict": which, "current_dict": dict(d), "signed": sv,
                                            "key_version": kv, "got": got, "want": want})
        # the key version reported for a value never depends on the dict
        key_version_never_raises(ctx, sv)
        if mutated and decoded_before_mutation:
            nontrivial = True
            labels.add("decode_after_in_place_rotation")
            labels.add("retired_key_value" if want is None else "current_key_value")

    for step, op in enumerate(case["ops"]):
        kind = op[0]
        keys = sorted(live)
        if kind == "sign":
            if not keys:
                continue
            kv = keys[op[1] % len(keys)]
            name = H_NAMES[op[2]]
            sv = create_signed_value(live, name, op[3], version=2, clock=lambda: H_T0, key_version=kv)
            val = op[3].encode("utf-8") if isinstance(op[3], str) else op[3]
            signed.append((sv, kv, utf8(live[kv]), name, val))
        elif kind in ("decode", "decode_other"):
            if not signed:
                continue
            if kind == "decode":
                judge(live, "live", op[1], step)
                if not mutated:
                    decoded_before_mutation = True
            else:
                judge(other, "other", op[1], step)
                labels.add("two_dicts_alive")
        elif kind == "replace":
            if keys:
                live[keys[op[1] % len(keys)]] = op[2]
                mutated = True
                labels.add("op_replace")
        elif kind == "delete":
            if keys:
                del live[keys[op[1] % len(keys)]]
                mutated = True
                labels.add("op_delete")
        elif kind == "add":
            live[op[1]] = op[2]
            mutated = True
            labels.add("op_add")
        elif kind == "replace_other":
            ok = sorted(other)
            if ok:
                other[ok[op[1] % len(ok)]] = op[2]
        else:
            raise AssertionError(kind)
    # end of history: every value once more against both dicts
    for i in range(len(signed)):
        judge(live, "live", i, "final")
        judge(other, "other", i, "final")
    ctx.note(case, labels, nontrivial)


HIST_ALPHABET = [
    ("sign", 0, 0, "hello"), ("decode", 0), ("decode", 1), ("replace", 0, "NEW"), ("delete", 0), ("add", 1, "one"),
    ("add", 2, "two"), ("decode_other", 0),
]


def history_sweep(maxlen):
    """Every op sequence of length <= maxlen over 8 ops on the dict {1: "one"} (first op is always a sign)."""
    import itertools
    for n in range(1, maxlen + 1):
        for seq in itertools.product(HIST_ALPHABET, repeat=n):
            yield {"secrets": [(1, "one")], "ops": [("sign", 0, 0, "hello")] + list(seq)}


PARTS = {"history": run_history, "history_sweep": run_history, "roundtrip": run_roundtrip, "attack": run_attack, "arbitrary": run_arbitrary, "edits": run_edits,
         "main": run_attack}


def main(ctx):
    ctx.run_replays(PARTS)
    ctx.enumerate(history_sweep(4 if ctx.thorough else 3), run_history, name="history_sweep")
    ctx.explore(history_s, run_history, ctx.n(500, 60000), name="history")
    ctx.explore(roundtrip_s, run_roundtrip, ctx.n(600, 60000), name="roundtrip")
    ctx.explore(attack_case_s, run_attack, ctx.n(2500, 400000), name="attack")
    ctx.explore(arbitrary_s, run_arbitrary, ctx.n(1500, 200000), name="arbitrary")
    ctx.enumerate(edit_cases(16000 if ctx.thorough else 10), run_edits, name="edits")
