"""C27 — Static range and conditional responses match the file exactly.

Domain: fixture files of n bytes (n in 0..300 and a few > 64 KiB, content ``(i*7) % 251``, mtime pinned)
served by ``StaticFileHandler`` over the in-memory HTTP harness.  ``Range`` values are built from a
*valid* spec (``bytes=a-b`` / ``a-`` / ``-s`` with a, b, s around 0, 1, n-1, n, n+1, 2n, huge, leading
zeros) and then mutated at a named position (signs, underscores, inner/outer SP/HTAB, NBSP/NEL, hex,
float, other unit, unit case, no/extra '=', extra dash, multiple ranges, trailing comma, superscript
digits, empty) plus raw soup; conditional headers ``If-None-Match`` (exact / weak / ``*`` / list with
match / non-matching / garbage) and ``If-Modified-Since`` (all three RFC 9110 5.6.7 HTTP-date formats — IMF-fixdate, rfc850-date, asctime-date — with
zones GMT / UTC / +0000 / -0000 / none / +0100 / -0500, at mtime-1s, mtime, mtime+1s, +-1h, far past / future; garbage).  Every
case is requested three times: plain GET (baseline, supplies the ETag), GET and HEAD with the headers.
Parts: ``main`` (Hypothesis), ``grid`` (every a-b / a- / -s with a, b, s <= n+1 for n <= 6 quick,
n <= 40 thorough: exhaustive), ``grammar`` (direct ``httputil._parse_request_range`` incl. strings the
latin-1 transport cannot carry).

Oracle (RFC 9110 §14 reference written in the check; Range strings are classified from the string
itself by an own strict parser):
  * strictly valid + satisfiable -> 206, ``Content-Range: bytes a-b/n`` with exactly the RFC a, b,
    body == file[a:b+1]  (200 whole file also accepted when the range covers the whole file);
  * strictly valid + unsatisfiable (first >= n, ``-0``) -> 416 with ``bytes */n``;
  * **not a syntactically valid single range -> ignored**: response == the no-Range response;
  * conditional match (INM strong/weak/``*``/list; IMS >= mtime without INM) -> 304, no body;
    non-match -> no 304;
  * every response: status in {200, 206, 416, 304}; 200 -> whole file, no Content-Range;
    non-304 -> Content-Length framing and Content-Length == len(body);
  * HEAD == GET status and headers (minus Date), no body;  never 5xx / uncaught log.
EITHER classes (both behaviours accepted, labelled): SP/HTAB-only deviations from the grammar
(``ws_either``), ``last < first`` (``inverted_either``: 416 or ignored), suffix range on an empty file,
304-vs-range precedence when both apply, non-lower-case unit, a list with one non-empty element,
INM non-matching/garbage while IMS matches; an If-Modified-Since >= mtime written in an obsolete format or with
a zone other than GMT (honoured -> 304, or ignored -> full response; a value < mtime must never give 304).

Known finding (open, narrow sig ``C27.invalid_range_honoured.unicode_space``): positions / unit padded
with NBSP (0xA0) or NEL (0x85) are honoured because ``str.strip()`` strips Unicode whitespace
(findings_inbox/C27-range-unicode-space.md).

A second open finding (sig ``C27.invalid_range_honoured.no_dash``): ``bytes=5`` (no "-") is honoured as
``bytes=5-`` (findings_inbox/C27-range-no-dash.md).  Replays: replays/C27/F16-*.json fail on the pre-fix
snapshot 59274db and pass now; replays/C27/open-*.json reproduce the two open findings.

Sensitivity (quick tier, seed 1, one mutant at a time on a scratch copy; all caught):
  M0 pre-fix snapshot 59274db with replays/C27 moved away (search only)
       -> caught: C27.invalid_range_honoured (bytes=+0-0) and C27.grammar_invalid_honoured (bytes=U+0661)
  M1 httputil._parse_request_range: `end += 1` dropped          -> caught (C27.range_selection, bytes=0-0 on n=1 -> 416)
  M2 web.StaticFileHandler.get: `start >= size` -> `start > size` -> caught (C27.range_selection, bytes=0-0 on n=0 -> 200)
  M3 httputil._get_content_range: inclusive end off by one      -> caught (C27.content_range_values, bytes 5-30/30)
  M4 web.get_content ignores `end`                               -> caught (C27.framing: no well-formed response)
  M5 should_return_304: `if_since >= modified` -> `>`            -> caught (C27.conditional_not_304, IMS == mtime)
  M6 suffix clamp `start = 0` dropped                            -> caught (C27.server_error, bytes=-1 on n=0 -> 500)
  M7 check_etag_header: strong comparison only                   -> caught (C27.conditional_not_304, W/"etag")
  M8 Content-Length only set for GET (HEAD gets 0)               -> caught (C27.head_differs)
  M9 should_return_304: the two lines normalising a timezone-less parsed If-Modified-Since to UTC dropped
     (asctime-date, "-0000", no zone -> naive/aware comparison raises TypeError)
       -> caught after the If-Modified-Since generator was extended to all three HTTP-date formats and zone variants
          (C27.server_error: "If-Modified-Since: Sun, 13 Sep 2020 12:26:41" -> 500); it was MISSED before, when
          only IMF-fixdate + GMT and garbage were generated.  replays/C27/ims-*.json pin the three naive forms.
  M10 should_return_304: `except Exception` around parsedate_to_datetime narrowed to `except ValueError` (a date-like value with a
      ~20-digit field raises OverflowError -> 500)
       -> caught at seeds 1, 2, 3 after hostile / malformed conditional values were added (C27.server_error:
          "If-Modified-Since: Sun, 99999999999999999999 Sep 2020 12:26:40 GMT" -> 500); MISSED before (only well-formed dates and
          one garbage string).  replays/C27/ims-overflow-*.json pin it.

Hostile conditional values: If-Modified-Since built from four date templates with one field replaced by a hostile number (20 / 40 / 400
digits, negative, 0, 99999, superscript digits, empty, 1e9, hex) or a hostile zone, plus a fixed pool (empty, 5000 x, 3000 "(", ISO
date, epoch seconds, ...); If-None-Match from a pool of malformed entity-tag lists.  Oracle: never 5xx, one of the statement's response
shapes, and the range semantics of the request hold; 304 vs plain response is EITHER for these values.  If-Range is not generated:
StaticFileHandler does not implement it and the statement is silent about it.

  M11 StaticFileHandler._stat memoises os.stat results in a class-level dict keyed by absolute path (lifecycle mutant)
       -> caught at seeds 1, 2, 3 by the new ``mutate`` part (C27.framing / C27.content_length: stale size after the file was replaced);
          MISSED before: every fixture file was immutable.  replays/C27/file-replaced-between-requests.json pins it.

Part ``mutate`` (reuse dimension): histories of 2-3 steps on ONE path: write the file (size 0..300, new bytes, mtime shifted by 0 / 1 /
+-100 s / 1 day; os.replace, no reset()), then the usual request triple with Range / If-None-Match / If-Modified-Since, judged against
the file as it is at that step.  Only the version hash is documented to be cached (static_hash_cache), so conditionals use the ETag the
server itself sends at that step.
"""
import email.utils
import os
import re
import time

from hypothesis import strategies as st

from tornado import httputil
from tornado.web import Application, StaticFileHandler

from vlib import staticfix
from vlib.httpharness import roundtrip
from vlib.httpref import RefError, parse_responses

PROPERTY = "C27"
READY = True
RULE = (
    "Hypothesis: file size n (0..300, 65536..70000) x Range built from a valid spec with positions around "
    "{0,1,n-1,n,n+1,2n,huge} then mutated at one of 30 named positions (or raw soup) x If-None-Match (9 forms) x "
    "If-Modified-Since (5 forms), each run as baseline GET + GET + HEAD; grid part enumerates all a-b, a-, -s with "
    "a,b,s <= n+1 for n <= 6 (quick) / 40 (thorough); grammar part calls _parse_request_range directly (incl. "
    "non-latin-1 digits/spaces); non-trivial = a Range is present and a position is within +-1 of 0/n, or the "
    "Range is invalid only by lenient integer/whitespace parsing; distinct = SHA-1 of the case"
)
ASSUMPTIONS = [
    "RFC 9110 section 14 byte-range semantics written in the check are the intended meaning of 'valid single byte-range specification'",
    "the ETag used for matching conditionals is the one the server sent on the baseline GET of the same file",
    "a valid satisfiable partial range must be answered 206 (StaticFileHandler documents Range support); whole-file ranges may be 200",
]
TECHNIQUE = "property-based testing (Hypothesis) + exhaustive small grid: independent RFC 9110 range/conditional reference over real HTTP round trips, HEAD-vs-GET metamorphic comparison"
LEVEL_TEXT = (
    "Generated-input search plus an exhaustive grid (all a-b, a-, -s with positions <= n+1 for n <= 40 in the thorough tier); "
    "holds for every generated Range/conditional combination on files up to 300 bytes (and three sizes > 64 KiB); no claim beyond."
)
SHARDS = 16


# --------------------------------------------------------------------------- reference
_STRICT = re.compile(r"bytes=(?:([0-9]+)-([0-9]*)|-([0-9]+))\Z")


def parse_strict(s):
    m = _STRICT.match(s)
    if not m:
        return None
    if m.group(3) is not None:
        return ("suffix", int(m.group(3)))
    return ("int", int(m.group(1)), int(m.group(2)) if m.group(2) else None)


UNI_SPACE = "".join(chr(i) for i in range(0x3001) if chr(i).isspace() and chr(i) not in " \t")  # what str.strip() eats beyond SP/HTAB


def classify(s):
    """-> (cls, spec) with cls in absent|valid|invalid|ws_either|unitcase_either|list_either and a
    sub-class string for invalid ones (for narrow signatures)."""
    if s is None:
        return "absent", None, ""
    s = s.strip(" \t")  # HTTP field-value trimming
    if s == "":
        return "invalid", None, "empty"
    spec = parse_strict(s)
    if spec:
        return "valid", spec, ""
    t = re.sub(r"[ \t]+", "", s)
    spec = parse_strict(t)
    if spec:
        return "ws_either", spec, ""
    unit, eq, value = t.partition("=")
    if eq and unit.lower() == "bytes" and unit != "bytes":
        spec = parse_strict("bytes=" + value)
        if spec:
            return "unitcase_either", spec, ""
    if eq and unit == "bytes" and "," in value:
        elems = [e for e in value.split(",")]
        nonempty = [e for e in elems if e]
        if len(nonempty) == 1:
            spec = parse_strict("bytes=" + nonempty[0])
            if spec:
                return "list_either", spec, ""
    sub = "other"
    u = "".join(c for c in s if c not in UNI_SPACE)
    cu = classify(u) if u != s else None
    if cu is not None and (cu[0] in ("valid", "ws_either") or cu[2] == "no_dash"):
        sub = "unicode_space"
    elif re.fullmatch(r"bytes[ \t]*=[ \t]*[0-9]+[ \t]*", s):
        sub = "no_dash"  # "bytes=5": a position without the mandatory "-"
    elif "_" in s:
        sub = "underscore"
    elif re.search(r"=\s*[+-]?[^-]*-\s*[+-]|=\s*\+|=\s*--", s):
        sub = "sign"
    elif "," in s:
        sub = "multi"
    elif any(ord(c) > 127 for c in s):
        sub = "non_ascii"
    return "invalid", None, sub


def resolve(spec, n):
    """Allowed range outcomes for a valid spec on a file of n bytes, plus labels."""
    labels = set()
    if spec[0] == "int":
        _, first, last = spec
        if last is not None and last < first:
            return {("200",), ("416",)}, {"inverted_either"}
        if first >= n:
            labels.add("start_eq_size" if first == n else "start_beyond")
            return {("416",)}, labels
        a = first
        if last is None:
            b = n - 1
            labels.add("open_ended")
        else:
            if last >= n:
                labels.add("end_beyond")
            b = min(last, n - 1)
    else:
        _, sfx = spec
        labels.add("suffix")
        if sfx == 0:
            return {("416",)}, labels | {"suffix_zero"}
        if n == 0:
            return {("200",), ("416",)}, labels | {"suffix_on_empty_either"}
        if sfx > n:
            labels.add("suffix_longer_than_file")
        a = max(0, n - sfx)
        b = n - 1
    if a == 0 and b == n - 1:
        return {("200",), ("206", 0, n - 1)}, labels | {"covers_whole"}
    return {("206", a, b)}, labels | {"partial"}


def boundary(spec, n):
    nums = [x for x in spec[1:] if x is not None]
    return any(abs(x - k) <= 1 for x in nums for k in (0, n))


INM_FORMS = ["match", "weak", "star", "list_match", "nomatch", "list_nomatch", "weak_nomatch", "garbage", "empty"]
IMS_FORMS = ["equal", "after", "before", "garbage", "far_future"]


def inm_value(form, etag):
    if isinstance(form, (tuple, list)):  # ("raw", text): hostile / malformed value sent as is
        return form[1]
    return {
        "match": etag,
        "weak": "W/" + etag,
        "star": "*",
        "list_match": '"nope", W/"x", ' + etag,
        "nomatch": '"deadbeef"',
        "list_nomatch": '"a", W/"b"',
        "weak_nomatch": 'W/"deadbeef"',
        "garbage": etag.strip('"'),
        "empty": "",
    }[form]


IMS_WHEN = {"before": -1, "equal": 0, "after": 1, "far_future": 10 ** 9, "far_past": -(10 ** 8), "hour_before": -3600, "hour_after": 3600}
IMS_FMTS = ["imf", "rfc850", "asctime"]
IMS_ZONES = {"GMT": 0, "UTC": 0, "+0000": 0, "-0000": 0, "": 0, "+0100": 3600, "-0500": -18000}
_DAYS = ["Mon", "Tue", "Wed", "Thu", "Fri", "Sat", "Sun"]
_LONGDAYS = ["Monday", "Tuesday", "Wednesday", "Thursday", "Friday", "Saturday", "Sunday"]
_MONTHS = ["Jan", "Feb", "Mar", "Apr", "May", "Jun", "Jul", "Aug", "Sep", "Oct", "Nov", "Dec"]


def http_date(instant, fmt, zone):
    """The instant written in one of the three RFC 9110 5.6.7 HTTP-date formats; the clock fields are
    those of the given zone (asctime-date carries no zone)."""
    t = time.gmtime(instant + (IMS_ZONES[zone] if fmt != "asctime" else 0))
    hms = "%02d:%02d:%02d" % (t.tm_hour, t.tm_min, t.tm_sec)
    if fmt == "imf":
        out = "%s, %02d %s %04d %s" % (_DAYS[t.tm_wday], t.tm_mday, _MONTHS[t.tm_mon - 1], t.tm_year, hms)
    elif fmt == "rfc850":
        out = "%s, %02d-%s-%02d %s" % (_LONGDAYS[t.tm_wday], t.tm_mday, _MONTHS[t.tm_mon - 1], t.tm_year % 100, hms)
    else:
        return "%s %s %2d %s %04d" % (_DAYS[t.tm_wday], _MONTHS[t.tm_mon - 1], t.tm_mday, hms, t.tm_year)
    return (out + " " + zone).rstrip(" ")


def ims_value(form, mtime):
    if isinstance(form, (tuple, list)) and form[0] == "raw":
        return form[1]
    if isinstance(form, (tuple, list)):
        when, fmt, zone = form
        return http_date(mtime + IMS_WHEN[when], fmt, zone)
    return {
        "equal": email.utils.formatdate(mtime, usegmt=True),
        "after": email.utils.formatdate(mtime + 1, usegmt=True),
        "before": email.utils.formatdate(mtime - 1, usegmt=True),
        "far_future": email.utils.formatdate(mtime + 10 ** 9, usegmt=True),
        "garbage": "yesterday at noon",
    }[form]


def ims_info(ims):
    """-> None | "garbage" | (not_modified_since: bool, decided: bool).  Only the preferred format
    (IMF-fixdate with GMT) is `decided`; obsolete formats / non-GMT zones may be honoured or ignored."""
    if ims is None:
        return None
    if isinstance(ims, (tuple, list)) and ims[0] == "raw":
        return "raw"
    if isinstance(ims, (tuple, list)):
        when, fmt, zone = ims
        return (IMS_WHEN[when] >= 0, fmt == "imf" and zone == "GMT")
    if ims == "garbage":
        return "garbage"
    return (ims in ("equal", "after", "far_future"), True)


def conditional(inm, ims):
    """-> must304 | no304 | either"""
    info = ims_info(ims)
    if isinstance(inm, (tuple, list)) or info == "raw":
        # hostile / malformed conditional value: it must not break the request; whether a lenient parser still finds a
        # date or an entity-tag in it is unspecified, so 304 and the plain response are both accepted
        return "either"
    ims_match = isinstance(info, tuple) and info[0]
    if inm in ("match", "weak", "star", "list_match"):
        return "must304"
    if inm in ("nomatch", "list_nomatch", "weak_nomatch", "garbage", "empty"):
        # RFC 9110 13.1.3: IMS is ignored when INM is present; the statement is silent -> EITHER if IMS matches
        return "either" if ims_match else "no304"
    if not ims_match:
        return "no304"
    # an If-Modified-Since at or after the mtime: 304 is required for the preferred HTTP-date format; the
    # obsolete formats and non-GMT zones may be honoured (304) or ignored (full response) -- EITHER
    return "must304" if info[1] else "either"


# --------------------------------------------------------------------------- generators
def _num_text(draw, x):
    z = draw(st.sampled_from(["", "", "", "0", "000"]))
    return z + str(x)


def _under(t):
    t = t if len(t) >= 2 else "0" + t
    return t[:1] + "_" + t[1:]


MUTS = [
    "none", "none", "none", "none", "none", "none", "none", "none",
    "sign_plus_first", "sign_minus_first", "sign_plus_last", "sign_minus_last",
    "underscore_first", "underscore_last",
    "ws_outer_eq", "ws_after_eq", "ws_inner", "ws_tab",
    "nbsp_before_first", "nel_after_last", "nbsp_unit", "nbsp_before_last",
    "hex", "float", "exp", "multi", "multi_suffix", "other_unit", "short_unit", "unit_case", "no_eq", "double_eq",
    "extra_dash", "empty_value", "dash_only", "trailing_comma", "leading_comma", "superscript", "nondigit", "empty",
]


@st.composite
def range_s(draw, n):
    kind = draw(st.sampled_from(["int", "int", "open", "suffix"]))
    pool = sorted({x for x in (0, 1, 2, n - 2, n - 1, n, n + 1, 2 * n, n // 2, n // 3, 10 ** 20, 9) if x >= 0})
    a = draw(st.sampled_from(pool))
    b = draw(st.sampled_from(pool))
    if kind == "int" and draw(st.integers(0, 9)) < 8 and b < a:
        a, b = b, a
    ft, lt = _num_text(draw, a), _num_text(draw, b)
    if kind == "open":
        lt = ""
    if kind == "suffix":
        ft = ""
    mut = draw(st.sampled_from(MUTS))
    unit, eq = "bytes", "="
    if mut == "sign_plus_first":
        if kind == "suffix":
            lt = "+" + lt
        else:
            ft = "+" + ft
    elif mut == "sign_minus_first":
        if kind == "suffix":
            lt = "-" + lt  # bytes=--5
        else:
            ft = "-" + ft
    elif mut == "sign_plus_last" and lt:
        lt = "+" + lt
    elif mut == "sign_minus_last" and lt:
        lt = "-" + lt
    elif mut == "underscore_first":
        if ft:
            ft = _under(ft)
        else:
            lt = _under(lt)
    elif mut == "underscore_last" and lt:
        lt = _under(lt)
    elif mut == "ws_outer_eq":
        eq = " = "
    elif mut == "ws_after_eq":
        eq = "= "
    elif mut == "ws_inner":
        ft, lt = ft + " ", (" " + lt if lt else lt)
    elif mut == "ws_tab":
        lt = lt + "\t "
        ft = "\t" + ft
    elif mut == "nbsp_before_first":
        if ft:
            ft = "\xa0" + ft
        else:
            lt = lt + "\xa0"
    elif mut == "nel_after_last":
        if lt:
            lt = lt + "\x85"
        else:
            ft = ft + "\x85"
    elif mut == "nbsp_unit":
        unit = draw(st.sampled_from(["bytes\xa0", "\x85bytes"]))
    elif mut == "nbsp_before_last" and lt:
        lt = "\xa0" + lt
    elif mut == "hex":
        ft = "0x" + ft if ft else ft
        lt = "0x" + lt if lt else lt
    elif mut == "float":
        if ft:
            ft = ft + ".0"
        else:
            lt = lt + ".0"
    elif mut == "exp":
        if ft:
            ft = ft + "e0"
        else:
            lt = lt + "e1"
    elif mut == "multi":
        lt = lt + "," + draw(st.sampled_from(["3-4", "0-0", "-1", " 5-"]))
    elif mut == "multi_suffix":
        ft = "0-0,-1," + ft if ft else "0-0," + ft
    elif mut == "other_unit":
        unit = draw(st.sampled_from(["items", "octets", "bytes;", "xbytes", "none"]))
    elif mut == "short_unit":
        unit = draw(st.sampled_from(["byte", "b", ""]))
    elif mut == "unit_case":
        unit = draw(st.sampled_from(["Bytes", "BYTES", "bYTES"]))
    elif mut == "no_eq":
        eq = draw(st.sampled_from(["", " ", ":"]))
    elif mut == "double_eq":
        eq = "=="
    elif mut == "extra_dash":
        lt = (lt or "1") + "-" + draw(st.sampled_from(["3", "", "0"]))
    elif mut == "empty_value":
        return "bytes=", mut
    elif mut == "dash_only":
        return "bytes=-", mut
    elif mut == "trailing_comma":
        lt = lt + ","
        if not lt.strip(","):
            ft = ft + ""
    elif mut == "leading_comma":
        return "bytes=," + ft + "-" + lt, mut
    elif mut == "superscript":
        if ft:
            ft = "\xb2"
        else:
            lt = "\xb3"
    elif mut == "nondigit":
        if ft:
            ft = draw(st.sampled_from(["a", "1a", "x1"]))
        else:
            lt = "z"
    elif mut == "empty":
        return "", mut
    return unit + eq + ft + "-" + lt, mut


soup_s = st.text(alphabet="bytes=-0123456789_+, \t.x\xa0B", max_size=14).map(lambda s: s.strip(" \t"))

n_s = st.one_of(st.integers(0, 300), st.integers(0, 12), st.sampled_from([0, 1, 2, 3, 10, 65536, 65537, 70000]))


# ---- hostile / malformed conditional header values (must never produce a 5xx)
HOSTILE_NUM = ["99999999999999999999", "-1", "0", "00", "99999", "1" * 40, "\xb2\xb3", "-99999999999999999999", "1e9", "", "0x10",
               "4294967296", "2147483648", "9" * 400]
HOSTILE_ZONE = ["+99999999999999999999", "-99999999999999999999", "+2500", "-2400", "+0000000000000000000000100", "GMT+1", "+",
                "-", "Z", "EST5EDT", "+99", "+1e3", "\xb2\xb3\xb9\xb9"]
DATE_TEMPLATES = [
    ("Sun, {0} Sep {1} {2}:{3}:{4} {5}", ["13", "2020", "12", "26", "40", "GMT"]),
    ("Sunday, {0}-Sep-{1} {2}:{3}:{4} {5}", ["13", "20", "12", "26", "40", "GMT"]),
    ("Sun Sep {0} {2}:{3}:{4} {1}{5}", ["13", "2020", "12", "26", "40", ""]),
    ("{0} Sep {1} {2}:{3}:{4} {5}", ["13", "2020", "12", "26", "40", "+0000"]),
]
HOSTILE_DATES = ["", "0", "-1", "x" * 5000, "(" * 3000, "Sun, 13 Sep 2020 12:26:40 GMT GMT GMT", "13 Sep 2020", "2020-09-13T12:26:40Z",
                 ",", ";;;", "\xff\xfe", "Sun, 31 Feb 2020 12:26:40 GMT", "Sun, 13 Sep 2020 25:61:61 GMT", "Sun, 13 Foo 2020 12:26:40 GMT",
                 "1600000000", "Sun, 13 Sep 2020", "12:26:40", "Sun, 13 Sep 2020 12:26 GMT", "Sun, 13 Sep 2020 12.26.40 GMT",
                 "(comment) Sun, 13 Sep 2020 12:26:40 GMT", "Sun, 13 Sep 2020 12:26:40 GMT (" + "x" * 300, "=?utf-8?q?x?=", "\"Sun\""]
HOSTILE_INM = ["\"", "\"\"", "W/", "W/\"\"", "*,*", "\"a", "a\"", "\"" + "x" * 5000 + "\"", "\xe9", "\"\xe9\"", "*\"", ",,,", "W/*",
               "\"a\" \"b\"", "w/\"a\"", "\"a\", ", "\\", "\"\\\"\"", "W/W/\"a\"", "* ", "\"*\"", "0", "-1", "x" * 3000]


@st.composite
def hostile_ims_s(draw):
    if draw(st.sampled_from([True, True, True, False])):
        tmpl, fields = draw(st.sampled_from(DATE_TEMPLATES))
        fields = list(fields)
        idx = draw(st.integers(0, 5))
        fields[idx] = draw(st.sampled_from(HOSTILE_ZONE if idx == 5 else HOSTILE_NUM))
        text = tmpl.format(*fields)
    else:
        text = draw(st.sampled_from(HOSTILE_DATES))
    return ("raw", text.strip(" \t"))


hostile_inm_s = st.sampled_from(HOSTILE_INM).map(lambda t: ("raw", t.strip(" \t")))


@st.composite
def case_s(draw):
    n = draw(n_s)
    r = draw(st.one_of(st.none(), range_s(n), range_s(n), range_s(n), range_s(n), range_s(n), soup_s.map(lambda s: (s, "soup"))))
    rng, mut = r if r is not None else (None, "absent")
    cond = draw(st.integers(0, 9))
    inm = ims = None
    if cond >= 6:
        inm = draw(st.one_of(st.sampled_from(INM_FORMS), st.sampled_from(INM_FORMS), st.sampled_from(INM_FORMS), hostile_inm_s))
    if cond in (4, 5, 8, 9):
        ims = draw(st.one_of(hostile_ims_s(), hostile_ims_s(), st.sampled_from(IMS_FORMS),
                             st.tuples(st.sampled_from(sorted(IMS_WHEN)), st.sampled_from(IMS_FMTS), st.sampled_from(sorted(IMS_ZONES))),
                             st.tuples(st.sampled_from(["before", "equal", "after"]), st.sampled_from(IMS_FMTS),
                                       st.sampled_from(sorted(IMS_ZONES)))))
    return {"n": n, "range": rng, "inm": inm, "ims": ims, "mut": mut}


# --------------------------------------------------------------------------- execution
_APPS = {}


def app_for(root):
    if root not in _APPS:
        _APPS[root] = Application([(r"/f/(.*)", StaticFileHandler, {"path": root})])
    return _APPS[root]


def fetch(ctx, app, method, name, headers, tag):
    req = ("%s /f/%s HTTP/1.1\r\nHost: fixture.test\r\n" % (method, name)).encode("ascii")
    for k, v in headers:
        req += k.encode("ascii") + b": " + v.encode("latin-1") + b"\r\n"
    req += b"\r\n"
    wire, closed, logs, _ = roundtrip(app, req)
    try:
        rs = parse_responses(wire, [method], closed)
    except RefError as e:
        ctx.fail("C27.framing", {"req": tag, "method": method, "headers": headers, "err": str(e), "wire": wire[:300]})
        return None
    if len(rs) != 1:
        ctx.fail("C27.framing", {"req": tag, "method": method, "headers": headers, "responses": len(rs)})
        return None
    r = rs[0]
    if r.code >= 500 or logs.uncaught():
        ctx.fail("C27.server_error", {"req": tag, "method": method, "headers": headers, "code": r.code, "logs": logs.uncaught()[:3]})
    return r


def hdrs(r):
    return sorted((k.lower(), v) for k, v in r.headers if k.lower() != "date")


_CR = re.compile(r"bytes ([0-9]+)-([0-9]+)/([0-9]+)\Z")


def outcome_of(ctx, r, data, detail, sig):
    """Validate the internal consistency of a GET response; return its outcome tuple."""
    n = len(data)
    cr = r.get_all("Content-Range")
    cl = r.get_all("Content-Length")
    if r.code == 304:
        return ("304",)
    if r.framing != "cl" or len(cl) != 1 or cl[0] != str(len(r.body)):
        ctx.fail("C27.content_length", dict(detail, framing=r.framing, content_length=cl, body_len=len(r.body)), sig=sig)
    if r.code == 200:
        if r.body != data or cr:
            ctx.fail("C27.ok_not_whole_file", dict(detail, body_len=len(r.body), content_range=cr), sig=sig)
        return ("200",)
    if r.code == 206:
        m = _CR.match(cr[0]) if len(cr) == 1 else None
        if not m:
            ctx.fail("C27.content_range_syntax", dict(detail, content_range=cr), sig=sig)
            return ("206", None, None)
        a, b, total = int(m.group(1)), int(m.group(2)), int(m.group(3))
        if total != n or not (0 <= a <= b < n):
            ctx.fail("C27.content_range_values", dict(detail, content_range=cr), sig=sig)
        if r.body != data[a:b + 1]:
            ctx.fail("C27.partial_body", dict(detail, content_range=cr, body_len=len(r.body), body=r.body[:40]), sig=sig)
        return ("206", a, b)
    if r.code == 416:
        if cr != ["bytes */%d" % n]:
            ctx.fail("C27.unsatisfied_content_range", dict(detail, content_range=cr), sig=sig)
        return ("416",)
    ctx.fail("C27.unexpected_status", detail, sig=sig)
    return (str(r.code),)


def run_case(ctx, case):
    root, name, data, mtime = staticfix.range_file(case["n"])
    labels, nontrivial = exercise(ctx, case, root, name, data, mtime)
    ctx.note(case, labels, nontrivial)


def exercise(ctx, case, root, name, data, mtime):
    """One request triple (baseline GET, GET, HEAD) against the file as it is NOW; -> (labels, nontrivial)."""
    n, rng, inm, ims = len(data), case["range"], case["inm"], case["ims"]
    app = app_for(root)
    labels = set()
    cls, spec, sub = classify(rng)
    labels.add("range_" + cls)
    if cls == "invalid":
        labels.add("invalid_" + sub)
    if rng is not None and "," in rng and cls == "invalid":
        labels.add("multi_range")
    if n > 65536:
        labels.add("multi_chunk_file")
    if n == 0:
        labels.add("empty_file")

    # ---- baseline: no Range, no conditionals -> 200 whole file; supplies the ETag
    base = fetch(ctx, app, "GET", name, [], "baseline")
    if base is None:
        return labels | {"unparsed"}, False
    bdetail = {"n": n, "step": case.get("step"), "earlier_sizes": case.get("earlier_sizes"), "req": "baseline", "code": base.code}
    if outcome_of(ctx, base, data, bdetail, None) != ("200",):
        ctx.fail("C27.baseline_not_200", bdetail)
    etag = base.get("Etag")
    if (inm is not None) and not etag:
        ctx.fail("C27.no_etag", bdetail)
        return labels, False

    headers = []
    if rng is not None:
        headers.append(("Range", rng))
    if inm is not None:
        headers.append(("If-None-Match", inm_value(inm, etag)))
    if ims is not None:
        headers.append(("If-Modified-Since", ims_value(ims, mtime)))

    # ---- expectation
    if cls in ("absent", "invalid"):
        allowed, rl = {("200",)}, set()
    else:
        allowed, rl = resolve(spec, n)
        if cls != "valid":
            allowed = allowed | {("200",)}
    labels |= rl
    cond = conditional(inm, ims)
    if isinstance(ims, (tuple, list)) and ims[0] == "raw":
        labels.add("ims_hostile")
        if inm is None:
            labels.add("ims_hostile_no_inm")
    if isinstance(inm, (tuple, list)):
        labels.add("inm_hostile")
    if isinstance(ims, (tuple, list)) and ims[0] != "raw":
        labels.add("ims_fmt_" + ims[1])
        zone = "none" if ims[1] == "asctime" else (ims[2] or "none")
        labels.add("ims_zone_" + zone)
        if (ims[1] == "asctime" or ims[2] in ("", "-0000")) and inm is None:
            labels.add("ims_naive_no_inm")  # parses to a timezone-less datetime and is really compared
    honoured_range_possible = cls not in ("absent", "invalid")
    if cond == "must304":
        labels.add("cond_match")
        if honoured_range_possible:
            allowed = allowed | {("304",)}
            labels.add("cond_and_range_either")
        else:
            allowed = {("304",)}
    elif cond == "either":
        labels.add("cond_either")
        allowed = allowed | {("304",)}
    elif inm is not None or ims is not None:
        labels.add("cond_nomatch")

    sig = ("C27.invalid_range_honoured." + sub) if cls == "invalid" else None

    g = fetch(ctx, app, "GET", name, headers, "get")
    h = fetch(ctx, app, "HEAD", name, headers, "head")
    if g is None or h is None:
        return labels | {"unparsed"}, False
    detail = {"n": n, "step": case.get("step"), "earlier_sizes": case.get("earlier_sizes"), "headers": headers, "range_class": cls, "invalid_sub": sub, "cond": cond, "code": g.code,
              "content_range": g.get("Content-Range"), "allowed": sorted(allowed)}
    got = outcome_of(ctx, g, data, detail, None)
    labels.add("s%s" % g.code)
    if got == ("304",) and isinstance(inm, str):
        labels.add("etag_304")
    if got not in allowed:
        if cls == "invalid" and got[0] in ("206", "416"):
            ctx.fail("C27.invalid_range_honoured", detail, sig=sig)
        elif got == ("304",):
            ctx.fail("C27.unexpected_304", detail)
        elif ("304",) in allowed and len(allowed) == 1:
            ctx.fail("C27.conditional_not_304", detail)
        else:
            ctx.fail("C27.range_selection", detail)
    # ---- HEAD == GET minus body
    labels.add("head")
    if h.code != g.code or hdrs(h) != hdrs(g) or h.body != b"":
        ctx.fail("C27.head_differs", dict(detail, head_code=h.code,
                                          only_get=[x for x in hdrs(g) if x not in hdrs(h)],
                                          only_head=[x for x in hdrs(h) if x not in hdrs(g)]))
    nontrivial = (spec is not None and boundary(spec, n)) or (cls == "invalid" and sub in ("underscore", "sign", "unicode_space", "non_ascii"))
    return labels, nontrivial


# --------------------------------------------------------------------------- the file changes between requests
# Only the version hash (ETag / ?v=) is documented to be cached (``static_hash_cache``); size, mtime and content are those of the
# file at request time.  A history serves one path, REPLACES the file (other length, other bytes, other mtime) without any
# reset, and serves it again: every request triple is judged against the file as it is at that moment.  Conditionals use the ETag
# the server itself sends at that step, so a (documented) stale hash cannot cause a false alarm.
MUT_NAME = "mutable.bin"


def _write_mutable(root, n, salt, mtime):
    data = bytes((i * 11 + salt) % 251 for i in range(n))
    p = os.path.join(root, MUT_NAME)
    tmp = p + ".new"
    with open(tmp, "wb") as f:
        f.write(data)
    os.utime(tmp, (mtime, mtime))
    os.replace(tmp, p)
    return data


@st.composite
def mutate_case_s(draw):
    steps = []
    for k in range(draw(st.sampled_from([2, 2, 3]))):
        n = draw(st.one_of(st.integers(0, 60), st.sampled_from([0, 1, 10, 25, 300])))
        r = draw(st.one_of(st.none(), range_s(n), range_s(n), range_s(n)))
        rng = r[0] if r is not None else None
        inm = draw(st.sampled_from([None, None, None, "match", "nomatch"]))
        ims = draw(st.one_of(st.none(), st.none(), st.sampled_from(["equal", "before", "after"]),
                             st.tuples(st.sampled_from(["before", "equal", "after"]), st.sampled_from(IMS_FMTS), st.sampled_from(["GMT", "", "+0100"]))))
        steps.append({"n": n, "salt": draw(st.integers(0, 5)), "dt": draw(st.sampled_from([0, 1, 100, -100, 86400])),
                      "range": rng, "inm": inm, "ims": ims})
    return {"steps": steps}


def run_mutating(ctx, case):
    root = staticfix.range_file(1)[0]
    StaticFileHandler.reset()  # once per history
    labels, nontrivial = {"file_replaced_between_requests"}, False
    mtime = staticfix.RANGE_MTIME
    prev_n = None
    for k, step in enumerate(case["steps"]):
        mtime = mtime + step["dt"] if k else mtime
        data = _write_mutable(root, step["n"], step["salt"], mtime)
        if prev_n is not None and prev_n != len(data):
            labels.add("size_changed")
            if step["range"] is not None:
                labels.add("range_after_size_change")
                nontrivial = True
        sub = {"n": step["n"], "range": step["range"], "inm": step["inm"], "ims": step["ims"], "step": k,
               "earlier_sizes": [s2["n"] for s2 in case["steps"][:k]]}
        labs, nt = exercise(ctx, sub, root, MUT_NAME, data, mtime)
        labels |= labs
        nontrivial = nontrivial or nt
        prev_n = len(data)
    ctx.note(case, labels, nontrivial)


def grid_cases(nmax):
    for n in range(nmax + 1):
        for a in range(n + 2):
            yield {"n": n, "range": "bytes=%d-" % a, "inm": None, "ims": None, "mut": "grid"}
            yield {"n": n, "range": "bytes=-%d" % a, "inm": None, "ims": None, "mut": "grid"}
            for b in range(n + 2):
                yield {"n": n, "range": "bytes=%d-%d" % (a, b), "inm": None, "ims": None, "mut": "grid"}


# --------------------------------------------------------------------------- direct grammar layer
grammar_alphabet = "bytes=-0123456789_+, \t.xB\xa0\x85\u2003\u0661\u0662\u0967\uff11\xb2"
grammar_s = st.one_of(
    st.integers(0, 40).flatmap(lambda n: range_s(n)).map(lambda t: t[0]),
    st.text(alphabet=grammar_alphabet, max_size=12).map(lambda s: "bytes=" + s),
    st.text(alphabet=grammar_alphabet, max_size=16),
    st.tuples(st.sampled_from(["\u0661", "\u0661\u0662", "\uff11\uff12", "\u0967", "1\u0662", "\u2003" + "1", "1\u3000"]),
              st.sampled_from(["", "5", "\u0665", "\uff15"])).map(lambda t: "bytes=%s-%s" % t),
    st.sampled_from(["\u0661", "\uff15"]).map(lambda d: "bytes=-" + d),
)


def run_grammar(ctx, s):
    cls, spec, sub = classify(s)
    labels = {"g_" + cls}
    if cls == "invalid":
        labels.add("g_invalid_" + sub)
    got = httputil._parse_request_range(s)
    if got is not None and not (isinstance(got, tuple) and len(got) == 2 and all(x is None or isinstance(x, int) for x in got)):
        ctx.fail("C27.grammar_result_type", {"input": s, "got": got})
    ignored = got is None or got == (None, None)
    want = None
    if spec is not None:
        if spec[0] == "suffix":
            want = (None, 0) if spec[1] == 0 else (-spec[1], None)
        else:
            want = (spec[1], None if spec[2] is None else spec[2] + 1)
    detail = {"input": s, "got": got, "class": cls, "sub": sub, "want": want}
    if cls == "valid":
        if got != want:
            ctx.fail("C27.grammar_valid_misparsed", detail)
    elif cls == "invalid":
        if not ignored:
            ctx.fail("C27.grammar_invalid_honoured", detail, sig="C27.invalid_range_honoured." + sub)
    else:
        if not ignored and got != want:
            ctx.fail("C27.grammar_either_misparsed", detail)
    ctx.note(s, labels, cls == "invalid" and sub in ("underscore", "sign", "unicode_space", "non_ascii"))


PARTS = {"main": run_case, "grid": run_case, "grammar": run_grammar, "mutate": run_mutating}
REQUIRED = ["suffix", "end_beyond", "start_eq_size", "invalid_underscore", "invalid_sign", "multi_range", "etag_304", "head",
            "g_invalid_non_ascii", "multi_chunk_file", "cond_and_range_either", "inverted_either",
            "ims_fmt_rfc850", "ims_fmt_asctime", "ims_naive_no_inm", "ims_zone_+0100",
            "ims_hostile_no_inm", "inm_hostile", "range_after_size_change"]


def main(ctx):
    ctx.run_replays(PARTS)
    ctx.explore(case_s(), run_case, ctx.n(3000, 120000), name="main")
    ctx.enumerate(grid_cases(40 if ctx.thorough else 6), run_case, name="grid")
    ctx.explore(mutate_case_s(), run_mutating, ctx.n(500, 30000), name="mutate")
    ctx.explore(grammar_s, run_grammar, ctx.n(3000, 160000), name="grammar")
    for lab in REQUIRED:
        if not ctx.violations and not ctx.labels.get(lab):
            ctx.warnings.append("required label never hit: %s" % lab)
