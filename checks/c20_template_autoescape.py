"""C20 -- Template autoescaping never emits unescaped data.

C19's program grammar (vlib/tmplgen.py, profile "c20") specialised: literal text is restricted to
[A-Za-z0-9 SP LF], so every < > " ' & in the output comes from a value; the five variables a0..a4 hold
adversarial values (strings of <>&"' around a unique alphanumeric marker, already-escaped text, text that
looks like template syntax, valid UTF-8 bytes, objects whose __str__ returns such text, ints, None, and
"numbers that are not just digits": IntEnum members and int/float subclasses whose __str__/__format__
return markup, bool, floats).
Autoescape is configured at every level: loader default / DictLoader(autoescape=...) /
tornado.template.Loader over a temporary directory (a share of the loader cases) /
Template(autoescape=...) for single files / a loader subclass whose _create_template passes an explicit
per-file Template(..., loader=self, autoescape=policy[name]) that differs from the loader's own setting
(the template's argument governs, the loader's is only the default) / one {% autoescape f|None %}
directive anywhere in any file,
with f in xhtml_escape, escape, url_escape, custom namespace functions (myesc; bresc, which wraps its
result in brackets so that a skipped call is visible even for plain numbers).  Expression tags sit in
included files, in blocks overridden by children, in apply bodies, loops, try blocks; raw tags too.

Oracle.  vlib/tmplref.py attributes every output slice to the tag and file that produced it; the real
output must equal the reference output (C20.output) so that slice offsets are valid in the *real*
bytes.  The setting that governs a file is recomputed here from the generated AST (directive in that
file, else Template/loader argument, else the default), not taken from tmplref.
  (a) per slice: an expression slice of a file governed by f is utf8(f(text of the value)); for
      xhtml_escape it contains none of < > " ' and every & starts one of the five documented entities;
      the text of the value is str/bytes as is, else str(value)
  (b) whole-output scan: every special character of the real output lies in a raw slice, an expression
      slice of a file whose setting is None, or the result of an apply function (children of identity-
      like apply functions are scanned recursively).  (b0) the same from the AST alone: if no file is
      set to None and there is no raw tag and no apply, the output has no < > " ' at all
  (c) metamorphic: re-run with the setting of one file A changed (directive replaced, or appended at the
      end of A): slices not attributed to A are byte-identical in the real outputs.
Expression tags are plain names and compound shapes (calls to escape/xhtml_escape/url_escape/squeeze/
json_encode/linkify, concatenations such as escape(a) + str(b), conditional expressions, method calls,
%-formatting) with an adversarial value in every operand; the property is about the VALUE of the whole
expression, so `{{ escape(a) }}` under an escaping setting is f(escape(a)) -- double-escaped by default.
Part "nest" (deterministic, 200 cases): include in include, include inside an overriding block of a 2-/3-level
extends chain, through loops and apply; every file has a different policy (permutations of xhtml_escape, None,
url_escape, myesc, bresc); an expression follows every inner construct.
Part "dirs": the same clauses for every entry of a history loaded through ONE loader over a template set in
2-3 directories where the same relative name means different files (see C19).
Values whose rendering raises (NameError from an unset local ...) must raise the same type in both.

Related open finding (filed under C19, the template is ill-formed): `{% autoescape %}` without a function
name is accepted and silently turns escaping off for the file (findings_inbox/C19-autoescape-empty-accepted.md).

Sensitivity (quick tier, seed 1, scratch copy of /repo/tornado; all 13 caught; clause after shrinking):
  M1 _Expression.generate consults the root template (include_stack[0]) instead of current_template -> C20.meta_output
  M2 values that are not str/bytes are str()-ed but not escaped                                    -> C20.special_char_without_unescaped_source
  M3 _CodeWriter.include() does not restore current_template on exit                              -> C20.meta_output
  M4 _NamedBlock.generate keeps the current template instead of the block's own file               -> C20.meta_output
  M5 escape.xhtml_escape leaves the apostrophe unescaped                                           -> C20.special_char_without_unescaped_source
  M6 _IncludeBlock.generate keeps the including file's setting for the included file               -> C20.meta_output
  M7 {% autoescape %} also overwrites the loader default (setting leaks into files loaded later)   -> C20.meta_output
  M8 "numbers need no escaping": escaper skipped when isinstance(value, (int, float))             -> C20.special_char_without_unescaped_source
     (IntEnum member whose __str__ is markup; was missed before int/float subclasses, bool and the
     bracket-wrapping escaper were added to the value/function pools)
  M9 same shortcut with an exact type test, type(value) in (int, float, bool)                      -> C20.output
     (bool / plain number under the custom escaper bresc: "False" instead of "[False]")
  M10 Template.__init__ tests `if loader:` before the explicit autoescape= argument (template-level    -> C20.output (seeds 1, 2, 3;
     setting ignored whenever a loader is present); was missed before the per-file loader axis           after <= 185 cases)
  M11 expression tags whose source starts with escape( / xhtml_escape( and ends with ')' are created  -> C20.output / C20.meta_output
     raw ("already escaped"): `{{ escape(a) + str(b) }}` emits b unescaped, `{{ escape(v) }}` bypasses     (seeds 1, 2, 3; after <= 114 cases;
     a custom escaper; was missed before compound expressions (helper calls, concatenation,               C19.output catches it too)
     conditional expressions, method calls, %-formatting over adversarial operands) joined the pool
  M12 BaseLoader.load caches under the unresolved name (seeded for C19, round 7)                       -> C20.output, part "dirs", seeds 1, 2, 3
  M13 _CodeWriter.include().__exit__ restores with include_stack.pop(0) (seeded C19-2): after a          -> C20.output, part "nest" (deterministic,
     2-level nesting returns, the outermost file's policy governs the following expressions                 200 cases), seeds 1, 2
"""
import copy
import logging
import posixpath

from hypothesis import strategies as st

from tornado import escape, template

from vlib import tmplgen as G
from vlib import tmplref as R
from vlib.runner import HarnessError

PROPERTY = "C20"
READY = True
RULE = (
    "Hypothesis-generated template programs from C19's grammar (1-4 files, 10 extends/include topologies, depth <= 3, "
    "literal text over [A-Za-z0-9 SP LF]) whose expression/raw tags read five variables with adversarial values "
    "(<>&\"' around a marker, entity and template-syntax look-alikes, UTF-8 bytes, objects with __str__, int, float, bool, "
    "None, IntEnum and int/float subclasses whose __str__/__format__ return markup); "
    "autoescape set by loader argument, Template argument (without a loader, and per file through a custom loader) and by at most one directive per file (xhtml_escape, escape, "
    "url_escape, two custom functions, None); plus one metamorphic re-run per case with one file's setting changed.  "
    "non-trivial = >= 2 files governed by different settings and an adversarial value (containing a special "
    "character) rendered through include/extends-block/apply; distinct = SHA-1 of the case"
)
ASSUMPTIONS = [
    "vlib/tmplref.py slice attribution (which tag of which file produced which output bytes) is trusted once the "
    "real output equals the reference output byte-for-byte",
    "escaping functions receive the value as text or UTF-8 bytes (unspecified): the custom function accepts both",
    "'escaped form' for xhtml_escape = no < > \" ' and every & begins &amp; &lt; &gt; &quot; &#x27;",
]
TECHNIQUE = "property-based testing (Hypothesis): slice-attributed differential oracle, output-alphabet scan, metamorphic re-run"
LEVEL_TEXT = (
    "bounded exploration: ~1k generated multi-file programs (each rendered twice) per quick run, ~30k thorough; "
    "five variables, fixed function set; {% module %} (needs a RequestHandler) is out of scope"
)
SHARDS = 16

_log = logging.getLogger("tornado.application")
_log.addHandler(logging.NullHandler())
_log.propagate = False

SPECIALS = b"<>\"'&"
ENTITIES = (b"&amp;", b"&lt;", b"&gt;", b"&quot;", b"&#x27;")

# expression shapes beyond plain names: calls to the namespace helpers, concatenation, conditional
# expressions, method calls, string formatting -- every operand adversarial, every shape total over the
# value types (str(...) first).  The property speaks about the VALUE of the whole expression: under an
# escaping setting the slice is f(value), so `{{ escape(a) }}` under the default is double-escaped.
COMPOUND_EXPRS = [
    "escape(str(a0))", "xhtml_escape(str(a1))", "escape(str(a2))", "xhtml_escape(str(a3))",
    "escape(str(a0)) + str(a1)", "escape(str(a2)) + str(a3).strip()", "xhtml_escape(str(a4)) + str(a0)",
    "escape(str(a1)) if not a2 else str(a2)", "escape(str(a3)) if z else str(a4)", "xhtml_escape(str(a0)) or str(a1)",
    "escape(str(a4)) + '%s' % (a3,)", "escape(str(a0)) + squeeze(str(a2))",
    "url_escape(str(a1))", "squeeze(str(a2))", "json_encode(str(a3))", "linkify(str(a4))", "linkify(str(a0)) + str(a1)",
    "str(a0) + str(a1)", "str(a2).strip()", "str(a3).upper()", "'%s=%s' % (a0, a1)", "'%s' % (a4,)",
    "str(a1) if t else escape(str(a2))", "(str(a3) + escape(str(a4)))", "[escape(str(a0)), a1][1]",
]

POOLS = {
    "value_exprs": ["a0", "a1", "a2", "a3", "a4"] * 4 + ["x0", "v0"] + COMPOUND_EXPRS,
    "conds": ["t", "z", "True", "False", "a0", "t"],
    "for_heads": ["x0 in vals", "i0 in range(2)", "x0 in [a1, a2]"],
    "set_stmts": ["v0 = a0", "v0 = a3", "v1 = a1"],
    "apply_fns": ["ident", "wrap", "up", "xhtml_escape", "rev", "ident", "wrap"],
    "autoescapes": ["xhtml_escape", "None", "url_escape", "myesc", "escape", "None", "bresc", "xhtml_escape"],
    "loader_autoescapes": ["default", "default", "xhtml_escape", None, "myesc", "url_escape", "bresc"],
    "except_specs": ["", "Exception", "NameError"],
    "prelude": ["v0 = a4", "x0 = a2"],
}
TRANSPARENT_APPLY = ("ident", "wrap")
SETTINGS = ["xhtml_escape", "None", "url_escape", "myesc", "escape", "bresc"]

# ------------------------------------------------------------------------------------------ values
_frag = st.one_of(
    st.sampled_from(list("<>&\"'")),
    st.sampled_from(list("<>&\"'")),
    st.sampled_from(["&amp;", "&lt;", "&#x27;", "&quot", "&", "{{ a1 }}", "{% raw a0 %}", "{# c #}", "{{!", "%3C", "+",
                     "</script>", "<script>", "' onload='", "é", "✓<", " ", "\n", "&&", "<<", "''", '""']),
    st.text("abXY01", min_size=1, max_size=3),
)
_adv_text = st.lists(_frag, min_size=0, max_size=6).map("".join)


def value_strategy(i):
    marker = "M%dq" % i
    txt = st.tuples(_adv_text, _adv_text).map(lambda p: p[0] + marker + p[1])
    return st.one_of(
        txt.map(lambda s: ["str", s]),
        txt.map(lambda s: ["str", s]),
        txt.map(lambda s: ["bytes", s.encode("utf-8")]),
        txt.map(lambda s: ["obj", s]),
        st.integers(-5, 10 ** 6).map(lambda n: ["int", n]),
        st.just(["none"]),
        txt.map(lambda s: ["list", s]),
        # numbers that are not "just digits": subclasses of int/float (IntEnum, class N(int), class F(float))
        # whose str()/format() is markup, bool, floats
        txt.map(lambda s: ["intenum", s]),
        st.tuples(st.integers(-3, 99), txt).map(lambda p: ["intsub", p[0], p[1]]),
        st.tuples(st.sampled_from([1.5, -0.25, 1000.0, 0.0]), txt).map(lambda p: ["floatsub", p[0], p[1]]),
        st.booleans().map(lambda b: ["bool", b]),
        st.sampled_from([1.5, -0.25, 1e-07, 12345.678]).map(lambda x: ["float", x]),
    )


class AdvObj:
    def __init__(self, s):
        self.s = s

    def __str__(self):
        return self.s

    def __repr__(self):
        return "AdvObj(%r)" % self.s


def _markup_number(base, number, text):
    cls = type("Markup" + base.__name__.capitalize(), (base,), {
        "__str__": lambda self: text,
        "__format__": lambda self, spec: text,
    })
    return cls(number)


def _markup_enum(text):
    import enum

    class Color(enum.IntEnum):
        RED = 1

        def __str__(self):
            return text

        def __format__(self, spec):
            return text

    return Color.RED


NUMBER_KINDS = ("int", "float", "bool", "intenum", "intsub", "floatsub")


def make_value(spec):
    k = spec[0]
    if k == "intenum":
        return _markup_enum(spec[1])
    if k == "intsub":
        return _markup_number(int, spec[1], spec[2])
    if k == "floatsub":
        return _markup_number(float, spec[1], spec[2])
    if k in ("bool", "float"):
        return spec[1]
    if k == "str":
        return spec[1]
    if k == "bytes":
        return spec[1]
    if k == "obj":
        return AdvObj(spec[1])
    if k == "int":
        return spec[1]
    if k == "none":
        return None
    if k == "list":
        return [spec[1], 1]
    raise AssertionError(spec)


@st.composite
def c20_case(draw):
    case = draw(G.case_strategy("c20", pools=POOLS, mutate_prob=(0, 0)))
    case["values"] = [draw(value_strategy(i)) for i in range(5)]
    case["meta"] = [draw(st.integers(0, len(case["files"]) - 1)), draw(st.sampled_from(SETTINGS))]
    single = len(case["files"]) == 1
    case["direct"] = draw(st.sampled_from(["default", "xhtml_escape", None, "myesc", "url_escape", "loader"])) if single else "loader"
    # third construction: a loader whose _create_template passes an explicit per-file autoescape= argument
    # ("unset" = leave it to the loader's default)
    if case["direct"] == "loader" and draw(st.booleans()):
        case["perfile"] = [draw(st.sampled_from(PERFILE)) for _ in case["files"]]
    else:
        case["perfile"] = None
    # a share of the plain loader cases goes through the file-system Loader
    case["fs"] = case["direct"] == "loader" and case["perfile"] is None and draw(st.integers(0, 2)) == 0
    return case


@st.composite
def c20_dirs_case(draw):
    case = draw(G.dirs_case_strategy("c20", pools=POOLS))
    case["values"] = [draw(value_strategy(i)) for i in range(5)]
    case["meta"] = [draw(st.integers(0, len(case["files"]) - 1)), draw(st.sampled_from(SETTINGS))]
    case["direct"] = "loader"
    case["perfile"] = [draw(st.sampled_from(PERFILE)) for _ in case["files"]] if draw(st.booleans()) else None
    return case


PERFILE = ["unset", None, "xhtml_escape", None, "xhtml_escape", "myesc", "url_escape", "bresc"]


class PerFileLoader(template.DictLoader):
    """A loader that chooses the escaping policy per file, the way an application would
    (e.g. 'xhtml_escape for *.html, None for *.txt'): Template(..., loader=self, autoescape=policy)."""

    def __init__(self, files, policy, **kwargs):
        super().__init__(files, **kwargs)
        self.policy = policy

    def _create_template(self, name):
        if name in self.policy:
            return template.Template(self.dict[name], name=name, loader=self, autoescape=self.policy[name])
        return template.Template(self.dict[name], name=name, loader=self)


def perfile_policy(case):
    pf = case.get("perfile")
    if not pf:
        return {}
    return {fd["name"]: pf[i] for i, fd in enumerate(case["files"]) if pf[i] != "unset"}


# ----------------------------------------------------------------------------------------- running
def namespace_kwargs(case):
    vals = [make_value(v) for v in case["values"]]
    kw = {"a%d" % i: v for i, v in enumerate(vals)}
    kw.update(vals=list(vals), t=True, z=0)
    return kw


def build_files(case, meta=None):
    """-> files dict; with meta=(file_index, setting) the setting of that file is changed."""
    files = {}
    for i, fd in enumerate(case["files"]):
        if meta is not None and i == meta[0]:
            fd = copy.deepcopy(fd)
            hit = [nd for nd in G.walk_nodes(fd["body"]) if nd[0] == "autoescape"]
            if hit:
                hit[0][1] = meta[1]
            else:
                fd["body"].append(["autoescape", meta[1]])
                if fd.get("extends") and fd["extends"][2] >= len(fd["body"]) - 1:
                    pass  # extends tag keeps its position (index into the old body)
        files[fd["name"]] = G.render_file(fd, case["tagstyle"], i).source
    return files


def file_settings(case, meta=None):
    """name -> governing function name or None, recomputed from the AST and the constructor arguments."""
    if case["direct"] != "loader":
        default = "xhtml_escape" if case["direct"] == "default" else case["direct"]
    else:
        la = case["loader"]["autoescape"]
        default = "xhtml_escape" if la == "default" else la
    out = {}
    policy = perfile_policy(case)
    for i, fd in enumerate(case["files"]):
        setting = policy.get(fd["name"], default)  # the template's own argument wins over the loader's default
        for nd in G.walk_nodes(fd["body"]):
            if nd[0] == "autoescape":
                setting = None if nd[1] == "None" else nd[1]
        if meta is not None and i == meta[0]:
            setting = None if meta[1] == "None" else meta[1]
        out[fd["name"]] = setting
    return out


def run_both(case, files, kwargs, entry=None, shared=None):
    """-> (real, ref_slices|None, ref_outcome); `shared` = a real loader to reuse (history of loads)."""
    entry = entry or case["files"][0]["name"]
    ns = G.loader_namespace()
    if case["direct"] != "loader":
        tkw = {} if case["direct"] == "default" else {"autoescape": case["direct"]}
        allkw = dict(ns)
        allkw.update(kwargs)
        try:
            t = template.Template(files[entry], name=entry, **tkw)
            real = ("ok", t.generate(**allkw))
        except template.ParseError as e:
            real = ("parse", str(e))
        except Exception as e:
            real = ("exc", type(e).__name__, str(e)[:200])
        rl = R.RefLoader(files, autoescape="xhtml_escape" if case["direct"] == "default" else case["direct"])
        refkw = allkw
    else:
        lkw = {}
        if case["loader"]["autoescape"] != "default":
            lkw["autoescape"] = case["loader"]["autoescape"]
        policy = perfile_policy(case)
        try:
            if shared is not None:
                t = shared.load(entry)
            elif case.get("fs") and not case.get("perfile"):
                # file-system Loader over a temporary directory (files written as UTF-8 bytes)
                import os
                import tempfile
                with tempfile.TemporaryDirectory(prefix="c20fs") as root:
                    for fname, text in files.items():
                        path = os.path.join(root, fname)
                        os.makedirs(os.path.dirname(path), exist_ok=True)
                        with open(path, "wb") as fh:
                            fh.write(text.encode("utf-8"))
                    t = template.Loader(root, namespace=ns, **lkw).load(entry)
            elif case.get("perfile"):
                t = PerFileLoader(dict(files), policy, namespace=ns, **lkw).load(entry)
            else:
                t = template.DictLoader(dict(files), namespace=ns, **lkw).load(entry)
            real = ("ok", t.generate(**kwargs))
        except template.ParseError as e:
            real = ("parse", str(e))
        except Exception as e:
            real = ("exc", type(e).__name__, str(e)[:200])
        rl = R.RefLoader(files, namespace=ns, file_autoescape=policy, **lkw)
        refkw = kwargs
    try:
        slices = rl.render_slices(entry, **refkw)
        ref = ("ok", b"".join(s.data for s in slices))
    except R.RefEither as e:
        return real, None, ("either", e.label)
    except R.RefParseError as e:
        raise HarnessError("reference rejects generated template %r: %s" % (files, e))
    except Exception as e:
        return real, None, ("exc", type(e).__name__, str(e)[:200])
    if rl.either:
        return real, None, ("either", sorted(rl.either)[0])
    return real, slices, ref


ESCAPERS = {"xhtml_escape": escape.xhtml_escape, "escape": escape.xhtml_escape, "url_escape": escape.url_escape,
            "myesc": G.fn_myesc, "bresc": G.fn_bresc}


def bad_specials(data, xhtml=True):
    """Offsets of special characters in bytes that claim to be escaped."""
    bad = []
    for i, c in enumerate(data):
        ch = bytes([c])
        if ch in (b"<", b">", b'"', b"'"):
            bad.append(i)
        elif ch == b"&" and not any(data.startswith(e, i) for e in ENTITIES):
            bad.append(i)
    return bad


def value_text(v):
    if isinstance(v, bytes):
        return v.decode("utf-8")
    if isinstance(v, str):
        return v
    return str(v)


def _family(n):
    return "NameError" if n == "UnboundLocalError" else n


def run_case(ctx, case):
    labels = set()
    nontrivial = evaluate(ctx, case, labels)
    ctx.note(case, labels, nontrivial)


def run_dirs_case(ctx, case):
    """The same clauses for every entry point of a history loaded through ONE loader over a template set
    spread over directories in which the same relative name means different files (warm caches)."""
    labels = {"dirs"}
    files = build_files(case)
    ns = G.loader_namespace()
    lkw = {}
    if case["loader"]["autoescape"] != "default":
        lkw["autoescape"] = case["loader"]["autoescape"]
    if case.get("perfile"):
        shared = PerFileLoader(dict(files), perfile_policy(case), namespace=ns, **lkw)
    else:
        shared = template.DictLoader(dict(files), namespace=ns, **lkw)
    nontrivial = False
    for step, entry in enumerate(case["history"]):
        if evaluate(ctx, case, labels, entry=entry, shared=shared, do_meta=(step == len(case["history"]) - 1)):
            nontrivial = True
        if step:
            labels.add("warm_cache_load")
    ctx.note(case, labels, nontrivial)


def evaluate(ctx, case, labels, entry=None, shared=None, do_meta=True):
    """All clauses for one entry point; returns the non-trivial flag (accounting is the caller's)."""
    kwargs = namespace_kwargs(case)
    files = build_files(case)
    settings = file_settings(case)
    real, slices, ref = run_both(case, files, kwargs, entry=entry, shared=shared)
    policy = perfile_policy(case)
    loader_default = "xhtml_escape" if case["loader"]["autoescape"] == "default" else case["loader"]["autoescape"]
    if case.get("perfile"):
        labels.add("perfile_loader")
    if case.get("fs") and shared is None:
        labels.add("fs_loader")
    detail = {"files": files, "values": case["values"], "loader": case["loader"], "direct": case["direct"], "entry": entry,
              "history": case.get("history"),
              "perfile": case.get("perfile"),
              "real": real, "ref": ref[:3]}
    if any(v[0] == "bytes" for v in case["values"]):
        labels.add("has_bytes_value")
    if ref[0] == "either":
        labels.add("either_" + ref[1])
        return False
    if real[0] == "parse":
        ctx.fail("C20.wellformed_rejected", detail)
        return False
    if ref[0] == "exc":
        labels.add("raises")
        if real[0] == "ok":
            ctx.fail("C20.output_instead_of_exception", detail)
        elif _family(real[1]) != _family(ref[1]):
            ctx.fail("C20.exception_type", detail)
        return False
    if real[0] != "ok":
        ctx.fail("C20.exception_instead_of_output", detail)
        return False
    out = real[1]

    # (b0) from the AST alone
    all_nodes = [nd for fd in case["files"] for nd in G.walk_nodes(fd["body"])]
    if all(s is not None for s in settings.values()) and not any(nd[0] in ("raw", "apply") for nd in all_nodes):
        labels.add("b0_no_unescaped_source")
        if any(c in out for c in (b"<", b">", b'"', b"'")):
            ctx.fail("C20.special_char_without_unescaped_source", detail)

    if out != ref[1]:
        ctx.fail("C20.output", detail)
        return False

    distinct_settings = len(set(settings.values())) >= 2
    adversarial_through = [False]
    by_var = {"a%d" % i: make_value(v) for i, v in enumerate(case["values"])}
    spec_by_var = {"a%d" % i: v[0] for i, v in enumerate(case["values"])}
    eval_env = {"escape": escape.xhtml_escape, "xhtml_escape": escape.xhtml_escape, "url_escape": escape.url_escape,
                "json_encode": escape.json_encode, "squeeze": escape.squeeze, "linkify": escape.linkify, "t": True, "z": 0}
    eval_env.update(by_var)

    def check_slice(sl, real_bytes):
        """(a) + (b) for one slice whose real bytes are real_bytes."""
        if sl.kind == "text":
            if any(bytes([c]) in SPECIALS for c in real_bytes):
                ctx.fail("C20.special_char_in_literal_text", dict(detail, slice=repr(sl)))
            return
        if sl.kind == "apply":
            labels.add("apply")
            fn = sl.src
            if fn in TRANSPARENT_APPLY:
                # identity-like: the function output is its input (wrapped in brackets): scan the children
                inner = real_bytes[1:-1] if fn == "wrap" else real_bytes
                if inner != b"".join(c.data for c in sl.children):
                    ctx.fail("C20.apply_identity_output", dict(detail, slice=repr(sl)))
                for c in sl.children:
                    check_slice(c, c.data)
            else:
                for c in sl.children:
                    check_slice(c, c.data)
            return
        # expression / raw tag
        through = [v[0] for v in sl.via]
        gov = settings[sl.file]
        if sl.kind == "expr" and sl.file in policy and policy[sl.file] == gov and gov != loader_default:
            labels.add("expr_under_template_arg_not_loader_default")
            if through:
                labels.add("template_arg_through_include_or_block")
        if sl.src not in by_var and sl.src in COMPOUND_EXPRS:
            labels.add("compound_expr")
            if sl.src.startswith(("escape(", "xhtml_escape(")):
                labels.add("expr_starting_with_escape_call")
            want_plain = value_text(eval(sl.src, dict(eval_env))).encode("utf-8")
            if sl.plain != want_plain:
                raise HarnessError("reference evaluated %s to %r, expected %r" % (sl.src, sl.plain, want_plain))
        if sl.src in by_var:
            want_plain = value_text(by_var[sl.src]).encode("utf-8")
            if sl.plain != want_plain:
                raise HarnessError("reference converted %s to %r, expected %r" % (sl.src, sl.plain, want_plain))
            kind = spec_by_var[sl.src]
            if kind == "bytes":
                labels.add("bytes_value")
            elif kind == "obj":
                labels.add("object_str")
            elif kind in ("none", "list"):
                labels.add("non_string_value")
            elif kind in NUMBER_KINDS:
                labels.add("number_value")
                if kind in ("intenum", "intsub", "floatsub"):
                    labels.add("number_subclass_markup_str")
                if kind == "bool":
                    labels.add("bool_value")
                if gov in ("myesc", "bresc") and sl.kind == "expr":
                    labels.add("number_under_custom_escaper")
        has_special = any(bytes([c]) in SPECIALS for c in sl.plain)
        if has_special and through:
            adversarial_through[0] = True
        if sl.kind == "raw":
            labels.add("raw_tag")
            if real_bytes != sl.plain:
                ctx.fail("C20.raw_not_verbatim", dict(detail, slice=repr(sl)))
            return
        if gov is None:
            labels.add("expr_under_none")
            if real_bytes != sl.plain:
                ctx.fail("C20.none_not_verbatim", dict(detail, slice=repr(sl)))
        else:
            labels.add("expr_under_" + gov)
            want = tornado_utf8(ESCAPERS[gov](sl.plain.decode("utf-8")))
            if real_bytes != want:
                ctx.fail("C20.slice_not_escaped", dict(detail, slice=repr(sl), governing=gov, want=want, got=real_bytes))
            if gov in ("xhtml_escape", "escape") and bad_specials(real_bytes):
                ctx.fail("C20.special_char_in_escaped_slice", dict(detail, slice=repr(sl), got=real_bytes))
            if gov == "bresc" and not (real_bytes.startswith(b"[") and real_bytes.endswith(b"]")):
                ctx.fail("C20.escaper_not_called", dict(detail, slice=repr(sl), got=real_bytes))
            if gov in ("url_escape", "myesc", "bresc") and any(bytes([c]) in SPECIALS for c in real_bytes):
                ctx.fail("C20.special_char_in_escaped_slice", dict(detail, slice=repr(sl), got=real_bytes))
        # structural labels
        for kind, fname in sl.via:
            if kind == "include" and settings[fname] is None and sl.file == fname:
                # the including file: the file of the closest enclosing context before this include
                labels.add("expr_in_included_none_file")
        if sl.via:
            owner_chain = [fname for kind, fname in sl.via if kind in ("include", "block")]
            if owner_chain:
                inner_file = owner_chain[-1]
                outer_file = owner_chain[-2] if len(owner_chain) >= 2 else root_name
                kind_inner = [k for k, f in sl.via if k in ("include", "block")][-1]
                if kind_inner == "include" and settings[inner_file] is None and settings[outer_file] is not None and sl.file == inner_file:
                    labels.add("include_none_in_escaping_parent")
                if kind_inner == "block" and inner_file != root_name and sl.file == inner_file \
                        and settings[root_name] is not None and settings[inner_file] != settings[root_name]:
                    labels.add("child_overrides_block_parent_escapes")

    root_name = chain_root(case, entry)
    off = 0
    for sl in slices:
        piece = out[off:off + len(sl.data)]
        check_slice(sl, piece)
        off += len(sl.data)

    # (c) metamorphic: change the setting of one file
    mi, msetting = case["meta"]
    mi %= len(case["files"])
    aname = case["files"][mi]["name"]
    new_setting = None if msetting == "None" else msetting
    if do_meta and new_setting != settings[aname]:
        files2 = build_files(case, (mi, msetting))
        real2, slices2, ref2 = run_both(case, files2, kwargs, entry=entry)
        d2 = dict(detail, files2=files2, changed_file=aname, new_setting=msetting, real2=real2, ref2=ref2[:3])
        if ref2[0] == "ok":
            labels.add("metamorphic")
            if real2[0] != "ok":
                ctx.fail("C20.meta_exception", d2)
            elif real2[1] != ref2[1]:
                ctx.fail("C20.meta_output", d2)
            elif len(slices2) != len(slices):
                raise HarnessError("slice sequences differ after changing an autoescape setting: %r" % (d2,))
            else:
                o1 = o2 = 0
                out2 = real2[1]
                for s1, s2 in zip(slices, slices2):
                    p1 = out[o1:o1 + len(s1.data)]
                    p2 = out2[o2:o2 + len(s2.data)]
                    o1 += len(s1.data)
                    o2 += len(s2.data)
                    if (s1.kind, s1.file, s1.line) != (s2.kind, s2.file, s2.line):
                        raise HarnessError("slice alignment lost: %r vs %r" % (s1, s2))
                    touched = s1.file == aname or (s1.kind == "apply" and _apply_touches(s1, aname))
                    if not touched and p1 != p2:
                        ctx.fail("C20.setting_leaks_into_other_file", dict(d2, slice=repr(s1), before=p1, after=p2))
                    if touched and s1.kind == "expr" and p1 != p2:
                        labels.add("metamorphic_changed_own_slice")
        elif ref2[0] == "exc":
            labels.add("metamorphic_raises")

    nontrivial = distinct_settings and adversarial_through[0]
    return nontrivial


def _apply_touches(sl, aname):
    for c in sl.children or ():
        if c.file == aname or (c.kind == "apply" and _apply_touches(c, aname)):
            return True
    return False


def tornado_utf8(v):
    return v if isinstance(v, bytes) else v.encode("utf-8")


def chain_root(case, entry=None):
    by_name = {fd["name"]: fd for fd in case["files"]}
    fd = by_name[entry] if entry else case["files"][0]
    while fd.get("extends"):
        fd = by_name[posixpath.normpath(posixpath.join(posixpath.dirname(fd["name"]), fd["extends"][0]))]
    return fd["name"]


NEST_VALUES = [["str", "<M0q&>"], ["bytes", b"'M1q\""], ["obj", "<M2q>"], ["str", "&M3q<"], ["intenum", "M4q<'"]]


def nest_cases():
    """Deterministic family: 2- and 3-level composition (include in include, include inside an overriding block of
    a 2-/3-level extends chain, through loops and apply), all per-file policies different, an expression after
    every inner construct returns."""
    for k, files in enumerate(G.nest_layouts(["a0", "a1", "a2", "a3", "a4"], ["xhtml_escape", "None", "url_escape", "myesc", "bresc"])):
        yield {"files": files, "loader": {"autoescape": ["default", None, "myesc"][k % 3], "whitespace": None}, "profile": "c20",
               "tagstyle": k % 3, "mutation": None, "values": NEST_VALUES, "meta": [k % len(files), SETTINGS[k % len(SETTINGS)]],
               "direct": "loader", "perfile": None, "fs": k % 4 == 0}


PARTS = {"main": run_case, "dirs": run_dirs_case, "nest": run_case}


def main(ctx):
    ctx.run_replays(PARTS)
    ctx.enumerate(nest_cases(), run_case, name="nest")
    ctx.explore(c20_case(), run_case, ctx.n(900, 28000), name="main")
    ctx.explore(c20_dirs_case(), run_dirs_case, ctx.n(150, 4000), name="dirs")
