"""C29 — Gzip output encoding is transparent to the client.

Domain: Application(compress_response=True); handler program of <=8 ops restricted to write / flush
(awaited or not) / finish([chunk]) or a fault ending (raise ValueError / HTTPError / Finish after N flushes) / set_status(200|206|204|304) / set_header|add_header|clear_header of
Content-Type (whitelisted types, text/*, with parameters, upper-case, non-compressible, absent),
Content-Encoding preset, Vary preset (single / multi-member / several lines / `*` / already listing
Accept-Encoding in either case / members that merely contain the words, e.g. X-Accept-Encoding-Profile),
explicit Content-Length
(right or wrong); chunks sized around the 1024-byte threshold (1023/1024/1025 exactly, tiny, empty, up
to 20000), compressible patterns and incompressible ones (so single flushes yield from a few bytes to
~20 KB of compressed output, in any order); request Accept-Encoding in {absent, gzip, "gzip, deflate", deflate, identity,
"br;q=1, gzip;q=0.5", x-gzip, GZIP, gzip;q=0, *, *;q=0, "identity, *;q=0", "br, *;q=0.1",
"br;q=1.0, *;q=0.1", "deflate, *;q=0.0"}; GET/HEAD; HTTP/1.0 (no keep-alive) and 1.1; a second request is pipelined.
REUSE: in 2/5 of the cases another request with its own write/flush program and Accept-Encoding is served
first on the same connection / server / Application; both responses are judged independently.

Oracle: the response is read with the strict reader vlib/httpref.py and decoded according to its own
Content-Encoding with zlib (vlib/httpref.gunzip_strict: complete members, CRC/length trailer verified).
What the handler wrote comes from the program model vlib/respmodel.py.  Clauses:
  decoded body == concatenation of the written chunks (status as set by the program);
  Content-Encoding: gzip added by Tornado => Accept-Encoding mentions gzip AND media type is text/* or
    on the documented whitelist AND the program did not preset a Content-Encoding;
  a preset Content-Encoding is left alone and the body is sent verbatim;
  Vary contains Accept-Encoding and every token the program put there;
  Content-Length present => equals the encoded body length (GET: by the strict reader; HEAD: compared
    with the body of a real GET run of the same program);
  chunked + gzip: every chunk boundary decodes (zlib, no EOF needed) to a prefix of the written bytes and
    every flush point of the program is such a boundary (flush ends on a sync point);
  gzip must not break responses that have no body: a program that writes nothing under 204/304 gets the
    same well-formed response with and without gzip.
Whether compression *is* applied is not asserted (the statement only restricts when it may be); the
labels `gzip_applied` / `gzip_not_applied` show that both happen.

EITHER classes: Accept-Encoding that does not mention gzip but has a `*` element with q > 0 (RFC 9110 lets
`*` cover gzip, the statement only speaks of "mentions gzip"; the current tree does not compress) -- with
`*;q=0` or no `*` compression is a violation; `gzip;q=0` *mentions* gzip, so the statement allows what the
tree does (it compresses); programs tripping the Content-Length guard (`cl_guard`: with gzip the length is rewritten,
without it the connection is torn down), body bytes pushed under 204/304 (C02's domain, `c02_domain`).

Finding on the current tree (open, known_findings.d/C29.json + findings_inbox/C29-gzip-bodyless-flush.md):
  set_status(204|304); flush() with nothing written and gzip eligible: gzip framing is produced for the
  bodyless response (304: connection dropped without response; 204: bytes behind the header block).
With the proposed patch applied to a scratch copy the check is quiet with zero excluded cases.

Sensitivity (quick tier, seed 1, each mutant applied alone to a scratch copy of tornado/web.py; 13 of 14 caught):
  transform_first_chunk: Content-Length kept on a non-final first chunk   -> C29.not_well_framed
  transform_chunk: GzipFile.flush() omitted on non-final chunks           -> C29.flush_not_a_sync_point
  transform_first_chunk: Vary overwritten instead of extended             -> C29.vary_lost_program_token
  transform_first_chunk: Content-Length not rewritten on a final chunk    -> C29.not_well_framed
  transform_first_chunk: preset Content-Encoding ignored                  -> C29.preset_content_encoding_changed
  __init__: Accept-Encoding ignored                                       -> C29.gzip_without_accept_encoding_gzip
  _compressible_type: always True                                         -> C29.gzip_for_non_compressible_type
  transform_chunk: close() replaced by flush() (no gzip trailer)          -> C29.gzip_body_undecodable
  transform_first_chunk: Vary not set when absent                         -> C29.vary_without_accept_encoding
  transform_chunk: output BytesIO truncated only when the piece taken is <= 4096 bytes, else just rewound
      (a flush yielding > 4096 compressed bytes followed by smaller output: stale tail resent, corrupt gzip)
                                                                             -> C29.gzip_body_undecodable
      (found by independent mutation testing and MISSED while all generated chunks were highly compressible;
      incompressible chunks of up to 20000 bytes are generated now)
  send_error (headers already written): buffered output dropped and connection.finish() called directly, so
      the transforms never see the final chunk: chunked body ends cleanly but the gzip member has no
      end-of-stream marker / trailer                                        -> C29.gzip_body_undecodable
      (found by independent mutation testing and MISSED while every program ended with finish; programs may
      now end by raising after N flushes; after such an error the decoded body must be a complete coding and
      a prefix of what was written that covers everything flushed)
  transform_first_chunk: `, Accept-Encoding` appended to an existing Vary only when the words do not OCCUR
      in it (case-insensitive substring test): `Vary: X-Accept-Encoding-Profile` or `Cookie, X-No-Accept-
      Encoding` goes out without the member Accept-Encoding                  -> C29.vary_without_accept_encoding
      (found by independent mutation testing and MISSED while no program-set Vary member merely contained
      the words; such members are generated now)
  __init__: `"gzip" in AE or "*" in AE` without q-value handling (body gzip-encoded for `*;q=0`,
      `identity, *;q=0`, `deflate, *;q=0.0`)                                -> C29.gzip_without_accept_encoding_gzip
      (found by independent mutation testing and MISSED while no Accept-Encoding value contained `*`)
  transform_first_chunk: `>= MIN_LENGTH` -> `>`   NOT caught: equivalent under the statement, which only says
      when compression *may* be applied, not that a 1024-byte body must be compressed (planned DESIGN mutant).
"""
import zlib

from hypothesis import strategies as st

from vlib import httpharness, httpref
from vlib import respmodel as rm

PROPERTY = "C29"
READY = True
RULE = (
    "Hypothesis: program of <=8 ops (header presets, then write/flush ops, optional finish, optional trailing "
    "ops) x Accept-Encoding(15, incl. wildcard and q-value forms) x GET/HEAD x HTTP/1.0|1.1; chunk sizes concentrated on 0..3, 1023..1025 and "
    "large; non-trivial = a flush before finish with gzip active, or total size within +-1 of 1024, or an "
    "explicit Content-Length, or HEAD with gzip; distinct = SHA-1 of the case"
)
ASSUMPTIONS = [
    "vlib/httpref.py is the client-side reader; zlib.decompressobj(16+MAX_WBITS) is the gzip decoder",
    "compressible = media type (before ';', trimmed, case-insensitive) starts with text/ or is on the "
    "whitelist documented in GZipContentEncoding.CONTENT_TYPES (a superset of what Tornado matches)",
    "the program model vlib/respmodel.py gives the bytes the handler wrote and the status it set",
]
TECHNIQUE = "property-based testing (Hypothesis): round-trip through an independent decoder + program model + HEAD/GET differential"
LEVEL_TEXT = "randomised exploration, programs <=8 ops, bodies <=~60 KB; compression level/ratio not examined"
SHARDS = 16

WHITELIST = {
    "application/javascript", "application/x-javascript", "application/xml", "application/atom+xml",
    "application/json", "application/xhtml+xml", "image/svg+xml",
}
ACCEPT_ENCODINGS = [None, "gzip", "gzip, deflate", "deflate", "identity", "br;q=1, gzip;q=0.5", "x-gzip",
                    # wildcard / q-value forms: gzip is never mentioned in the first six
                    "*", "*;q=0", "identity, *;q=0", "br, *;q=0.1", "br;q=1.0, *;q=0.1", "deflate, *;q=0.0",
                    "GZIP", "gzip;q=0"]


def gzip_permission(ae):
    """'mentioned' when the header mentions gzip (the statement's condition; includes x-gzip, GZIP and even
    gzip;q=0), 'wildcard' when it does not but a `*` element with q > 0 covers gzip (EITHER: RFC 9110
    12.5.3 allows it, the statement does not mention it), else 'no' (absent, other codings, `*;q=0`)."""
    if ae is None:
        return "no"
    if "gzip" in ae.lower():
        return "mentioned"
    for element in ae.split(","):
        parts = [x.strip() for x in element.split(";")]
        if parts[0] != "*":
            continue
        q = 1.0
        for prm in parts[1:]:
            name, _, value = prm.partition("=")
            if name.strip().lower() == "q":
                try:
                    q = float(value.strip())
                except ValueError:
                    q = 1.0
        if q > 0:
            return "wildcard"
    return "no"
CONTENT_TYPES = sorted(WHITELIST) + [
    "text/plain", "text/css; charset=utf-8", "text/x-anything", "TEXT/HTML", "Application/JSON",
    "application/json; charset=UTF-8", "application/json ;q", "application/octet-stream", "image/png",
    "application/jsonx", "x-text/plain", "text", "",
]


# program-set Vary values; several lines arise from add_header.  Some name a field that merely CONTAINS the
# words accept-encoding: membership is a comparison of list members, not a substring test.
VARY_VALUES = ["Cookie", "Accept-Language", "Accept-Language, Cookie", "*", "Accept-Encoding", "accept-encoding",
               "accept-encoding, X-A", "Cookie, Accept-Encoding", "X-Accept-Encoding-Profile",
               "Cookie, X-No-Accept-Encoding", "Accept-Encoding-Hint,Cookie"]


def weighted(*pairs):
    table = [i for i, (w, _s) in enumerate(pairs) for _ in range(w)]
    return st.sampled_from(table).flatmap(lambda i: pairs[i][1])


size_s = weighted(
    (4, st.sampled_from([1023, 1024, 1025])), (3, st.integers(0, 3)), (2, st.integers(4, 1022)),
    (2, st.integers(1026, 3000)), (1, st.integers(3001, 20000)),
)
# ("fill", n, k): k=1.. gives a repetitive (compressible) pattern
# ("rand", n, k): incompressible bytes, so that one flush can yield several KiB of compressed output
rand_size_s = weighted((2, st.integers(1, 1100)), (3, st.integers(4000, 9000)), (1, st.integers(9001, 20000)))
chunk_s = weighted(
    (6, st.tuples(st.just("fill"), size_s, st.integers(1, 255))),
    (3, st.tuples(st.just("rand"), rand_size_s, st.integers(0, 9))),
    (1, st.binary(max_size=8)),
    (1, st.sampled_from([b"", b"\x1f\x8b\x08", b"0\r\n\r\n"])),
)
write_op = st.tuples(st.just("write"), chunk_s)
flush_op = st.tuples(st.just("flush"), st.booleans())
finish_op = st.tuples(st.just("finish"), weighted((3, st.none()), (1, chunk_s)))
status_op = st.tuples(st.just("status"), st.sampled_from([200, 206, 204, 304]), st.none())
header_op = weighted(
    (6, st.tuples(st.just("set_header"), st.just("Content-Type"), st.sampled_from(CONTENT_TYPES))),
    (1, st.tuples(st.just("clear_header"), st.just("Content-Type"))),
    (2, st.tuples(st.just("set_header"), st.just("Content-Encoding"), st.sampled_from(["identity", "gzip", "br"]))),
    (4, st.tuples(st.sampled_from(["set_header", "add_header"]), st.just("Vary"),
                  st.sampled_from(VARY_VALUES))),
    (3, st.tuples(st.just("set_cl"), st.sampled_from([0, 0, 0, 0, 0, 0, 1, -1]))),
)
# fault endings: the handler raises (generic exception, HTTPError -> send_error, Finish) instead of finishing;
# after a flush Tornado can only terminate the response, before it the error page replaces the output
raise_op = st.one_of(
    st.tuples(st.just("raise_value")),
    st.tuples(st.just("raise_http"), st.sampled_from([404, 500, 503])),
    st.tuples(st.just("raise_finish"), weighted((2, st.none()), (1, chunk_s))),
)
prog_s = st.tuples(
    st.lists(weighted((1, status_op), (4, header_op)), max_size=3),
    st.lists(weighted((5, write_op), (4, flush_op), (1, header_op)), max_size=5),
    st.lists(weighted((3, finish_op), (2, raise_op)), max_size=1),
    st.lists(st.one_of(flush_op, write_op), max_size=1),
).map(lambda t: (t[0] + t[1] + t[2] + t[3])[:8])

# REUSE: an earlier request on the same connection / server / Application (GET /pre, HTTP/1.1 keep-alive) with its
# own program and Accept-Encoding; the request under test is then the second use.  Both are judged.
pre0_s = st.fixed_dictionaries({
    "ae": st.sampled_from([None, "gzip", "gzip", "identity"]),
    "prog": st.lists(weighted((3, write_op), (2, flush_op)), max_size=4),
})

case_s = st.fixed_dictionaries(
    {
        "pre0": weighted((3, st.none()), (2, pre0_s)),
        "method": st.sampled_from(["GET", "GET", "HEAD"]),
        "version": st.sampled_from(["1.1", "1.1", "1.0"]),
        "ae": st.sampled_from(ACCEPT_ENCODINGS + ["gzip", "gzip", "gzip", "gzip"]),
        "prog": prog_s,
    }
)


def tokens(values):
    return [t.strip().lower() for v in values for t in v.split(",") if t.strip()]


def compressible(ctype_values):
    if not ctype_values:
        return False
    media = ",".join(ctype_values).split(";")[0].strip().lower()
    return media.startswith("text/") or media in WHITELIST


def split_chunks(wire, start):
    """Chunk data list of an already validated chunked body starting at offset `start`."""
    out, pos = [], start
    while True:
        eol = wire.index(b"\r\n", pos)
        n = int(wire[pos:eol].split(b";")[0], 16)
        pos = eol + 2
        if n == 0:
            return out
        out.append(wire[pos:pos + n])
        pos += n + 2


def flush_points(prog, method):
    """Cumulative number of body bytes written at every flush() the program performs before finishing."""
    pts, total, finished = [], 0, False
    for op in rm.resolve_prog(prog):
        if finished:
            break
        if op[0] == "write":
            total += len(rm.chunk_bytes(op[1]))
        elif op[0] == "flush":
            pts.append(total)
        elif op[0] in rm.TERMINAL_OPS:
            finished = True
    return pts


def run(prog, method, version, ae, pre0=None):
    extra = [("Accept-Encoding", ae)] if ae is not None else []
    req = rm.build_request(method, version, None, extra)
    before = b""
    if pre0 is not None:
        before = rm.preamble_request([("Accept-Encoding", pre0["ae"])] if pre0["ae"] is not None else [])
    wire, closed, _logs, _s = httpharness.roundtrip(
        rm.make_app(prog, compress_response=True, prog0=pre0["prog"] if pre0 else None),
        before + req + rm.SECOND_REQUEST)
    return wire, closed


def run_case(ctx, case):
    method, version, ae, prog = case["method"], case["version"], case["ae"], case["prog"]
    exp = rm.predict(prog, method, None)
    pre0 = case.get("pre0")
    wire, closed = run(prog, method, version, ae, pre0)
    if pre0 is not None:
        # the earlier request on this connection: well-framed, decodable, carries what its program wrote
        exp0 = rm.predict(pre0["prog"], "GET", None)
        try:
            r0, wire = rm.strip_preamble(wire)
            body0 = httpref.gunzip_strict(r0.body) if r0.get_all("Content-Encoding") == ["gzip"] else r0.body
        except (httpref.RefError, zlib.error) as e:
            ctx.fail("C29.earlier_response_on_connection_broken", {"case": case, "err": repr(e), "wire": wire[:300]})
            return ctx.note(case, {"reused_connection"}, True)
        ctx.check(r0.code == exp0.status and body0 == exp0.body, "C29.earlier_response_on_connection_wrong",
                  {"case": case, "status": r0.code, "got_len": len(body0), "want_len": len(exp0.body)})
    permission = gzip_permission(ae)
    ae_gzip = permission != "no"  # gzip may be applied ("wildcard": EITHER, see gzip_permission)
    labels = {"method_" + method, "http" + version, "ae_" + str(ae), "outcome_" + exp.outcome, "gzip_permission_" + permission}
    if pre0 is not None:
        labels.add("reused_connection")
    nontrivial = False
    info = {"case": case, "wire": wire[:400], "wire_len": len(wire), "closed": closed, "model_status": exp.status}
    total = len(exp.body)
    if 1023 <= total <= 1025:
        labels.add("min_length_edge")
        nontrivial = True
    if any(op[0] == "set_cl" for op in prog):
        labels.add("explicit_content_length")
        nontrivial = True

    def done(*extra):
        ctx.note(case, labels | set(extra), nontrivial)

    hdrs = exp.headers or {}
    preset_ce = hdrs.get("content-encoding")
    ctype = hdrs.get("content-type")
    may_gzip = ae_gzip and compressible(ctype) and not preset_ce
    bodyless_flush = exp.bodyless_status and exp.flushed_early and method != "HEAD"
    # an exception (not Finish) left the handler after the header block had been flushed
    raised_after_flush = bool(exp.flushed_early and exp.rejected and not exp.error_page)

    if exp.outcome != "normal":
        # EITHER: Content-Length guard tripped in the model (gzip rewrites the length, identity does not)
        if rm.planned_length(prog) > 0 and any(op[0] == "status" and op[1] in (204, 304) for op in prog):
            # ... while writing a body under 204/304: C02's domain (F5), gzip merely removes the length guard
            return done("cl_guard", "c02_domain")
        try:
            httpref.parse_responses(wire, [method, "GET"], closed)
        except httpref.RefError as e:
            if not closed and bodyless_flush and may_gzip and not exp.body_on_bodyless:
                # same class as below: nothing written under 204/304, gzip framing sent anyway
                ctx.fail("C29.gzip_breaks_bodyless_response", dict(info, err=str(e)),
                         sig="C29.gzip_breaks_bodyless_response.flush_before_finish")
                return done("cl_guard", "gzip_breaks_bodyless_response")
            ctx.check(closed, "C29.connection_left_open_after_framing_error", info)
        return done("cl_guard")
    if exp.body_on_bodyless:
        return done("c02_domain")

    def framing_failure(err):
        if bodyless_flush and may_gzip:
            ctx.fail("C29.gzip_breaks_bodyless_response", dict(info, err=err),
                     sig="C29.gzip_breaks_bodyless_response.flush_before_finish")
            return done("gzip_breaks_bodyless_response")
        ctx.fail("C29.not_well_framed", dict(info, err=err))
        return done()

    try:
        rs = httpref.parse_responses(wire, [method, "GET"], closed)
    except httpref.RefError as e:
        return framing_failure(str(e))
    if not rs:
        return framing_failure("no response; closed=%r" % closed)
    r1, rest = rs[0], rs[1:]
    if rest:
        ctx.check(len(rest) == 1 and rest[0].code == 200 and rest[0].body == rm.SECOND_BODY,
                  "C29.pipelined_response_corrupted", info)
    else:
        ctx.check(closed, "C29.neither_eof_nor_second_response", info)
    ctx.check(r1.code == exp.status, "C29.status", dict(info, got=r1.code))
    labels.add("framing_" + r1.framing)
    labels.add("status_%d" % r1.code)

    # ---- Content-Encoding
    ce = r1.get_all("Content-Encoding")
    has_body = method != "HEAD" and not exp.bodyless_status
    if preset_ce is not None:
        labels.add("preset_content_encoding")
        ctx.check(ce == preset_ce, "C29.preset_content_encoding_changed", dict(info, got=ce, want=preset_ce))
        if has_body and raised_after_flush:
            ctx.check(exp.body.startswith(r1.body), "C29.body_reencoded_despite_preset_encoding",
                      dict(info, got_len=len(r1.body), want_len=len(exp.body)))
        elif has_body and not exp.error_page:
            ctx.check(r1.body == exp.body, "C29.body_reencoded_despite_preset_encoding",
                      dict(info, got_len=len(r1.body), want_len=len(exp.body)))
        gz = False
    elif ce:
        ctx.check(ce == ["gzip"], "C29.unexpected_content_encoding", dict(info, got=ce))
        gz = True
        ctx.check(ae_gzip, "C29.gzip_without_accept_encoding_gzip", dict(info, permission=permission))
        if permission == "wildcard":
            labels.add("either_gzip_by_wildcard")
        ctx.check(compressible(ctype), "C29.gzip_for_non_compressible_type", dict(info, ctype=ctype))
    else:
        gz = False
    labels.add("gzip_applied" if gz else "gzip_not_applied")
    if gz and method == "HEAD":
        labels.add("head_gzip")
        nontrivial = True
    if gz and exp.flushed_early:
        labels.add("flush_gzip")
        nontrivial = True

    # ---- body
    if has_body and preset_ce is None:
        if gz:
            try:
                decoded = httpref.gunzip_strict(r1.body)
            except (httpref.RefError, zlib.error) as e:
                ctx.fail("C29.gzip_body_undecodable", dict(info, err=repr(e), body_len=len(r1.body)))
                return done()
        else:
            decoded = r1.body
        if raised_after_flush:
            # The response could only be terminated; whether output still buffered at the time of the error
            # is sent is not specified.  What was sent must be a complete content coding (gunzip_strict above)
            # and decode to a prefix of what the handler wrote that covers everything it had flushed.
            labels.add("raised_after_flush")
            flushed = max(flush_points(prog, method) or [0])
            ctx.check(exp.body.startswith(decoded) and len(decoded) >= flushed, "C29.decoded_body_after_error",
                      dict(info, got_len=len(decoded), want_len=len(exp.body), flushed=flushed))
        elif not exp.error_page:
            ctx.check(decoded == exp.body, "C29.decoded_body", dict(info, got_len=len(decoded), want_len=len(exp.body),
                                                                  got=decoded[:80], want=exp.body[:80]))

    # ---- Vary
    vary = tokens(r1.get_all("Vary"))
    # member-wise (all Vary lines combined, split on commas, trimmed, case-insensitive); `*` covers everything
    ctx.check("accept-encoding" in vary or "*" in vary, "C29.vary_without_accept_encoding",
              dict(info, vary=r1.get_all("Vary")))
    if any("accept-encoding" in t and t != "accept-encoding" for t in vary):
        labels.add("vary_member_containing_accept_encoding")
    for t in tokens(exp.headers.get("vary", [])):
        ctx.check(t in vary, "C29.vary_lost_program_token", dict(info, vary=r1.get_all("Vary"), token=t))
    if "vary" in exp.headers:
        labels.add("preset_vary")

    # ---- Content-Length on HEAD == what GET sends (GET itself: verified by the strict reader)
    cl = r1.get_all("Content-Length")
    if cl and method == "HEAD" and not exp.bodyless_status:
        g_exp = rm.predict(prog, "GET", None)
        if g_exp.outcome == "normal" and not g_exp.body_on_bodyless:
            gwire, gclosed = run(prog, "GET", version, ae)
            try:
                g1 = httpref.parse_responses(gwire, ["GET", "GET"], gclosed)[0]
            except (httpref.RefError, IndexError) as e:
                ctx.fail("C29.get_twin_not_well_framed", dict(info, err=repr(e)))
                return done()
            ctx.check(len(cl) == 1 and cl[0] == str(len(g1.body)), "C29.head_content_length_vs_get",
                      dict(info, head_cl=cl, get_body_len=len(g1.body), get_ce=g1.get_all("Content-Encoding")))
            ctx.check(g1.get_all("Content-Encoding") == ce, "C29.head_content_encoding_vs_get",
                      dict(info, head=ce, get=g1.get_all("Content-Encoding")))
            labels.add("head_cl_checked")
        else:
            labels.add("head_cl_unverifiable")

    # ---- flush points are sync points (observable with chunked coding)
    if gz and has_body and r1.framing == "chunked" and not exp.error_page:
        chunks = split_chunks(wire, len(r1.header_block))
        d = zlib.decompressobj(16 + zlib.MAX_WBITS)
        reached, out = [], bytearray()
        for c in chunks:
            try:
                out += d.decompress(c)
            except zlib.error as e:
                ctx.fail("C29.chunk_boundary_undecodable", dict(info, err=repr(e)))
                return done()
            ctx.check(exp.body.startswith(bytes(out)), "C29.chunk_prefix_not_prefix_of_written", info)
            reached.append(len(out))
        pts = flush_points(prog, method)
        i = 0
        for p in pts:
            # every flush point must be reached at some chunk boundary, in order
            while i < len(reached) and reached[i] < p:
                i += 1
            ok = (i < len(reached) and reached[i] == p) or p == 0
            ctx.check(ok, "C29.flush_not_a_sync_point", dict(info, flush_points=pts, decodable_at_boundaries=reached))
        labels.add("flush_sync_checked")
    return done()


PARTS = {"main": run_case}


def main(ctx):
    ctx.run_replays(PARTS)
    ctx.explore(case_s, run_case, ctx.n(1200, 50000), name="main")
