"""C46 — Locale formatting helpers render numbers and dates correctly.

``num`` part: ``Locale.friendly_number(v)`` for integers in +-10**30 (dense at 0, +-999, +-1000, powers of
ten and their neighbours) on the English locales ``en_US`` (``tornado.locale.get``) and ``en``: removing
the commas gives ``str(v)`` and the text matches ``-?\\d{1,3}(,\\d{3})*``.  A non-English locale object
is exercised too (result must be a ``str``; its grouping is not specified by the statement).

``date`` part: ``Locale.format_date`` with a *generated* "now": while the call runs, the name
``datetime`` in the ``tornado.locale`` module namespace is a shim whose ``datetime.now(tz)`` returns the
case's instant and which forwards everything else to the real module (restored in ``finally``) -- no
wall clock anywhere.  The date is ``now - offset`` with offsets from -400 d to +400 d, from 1 us to
months, concentrated at the phrase boundaries (49/50/51 s, 49.5/50/50.5 min, 23.9/24 h, +-59/60/61 s in
the future, +1 day +- seconds), passed as aware (UTC or other zone) / naive datetime, int or float,
with ``gmt_offset``, ``relative``, ``shorter``, ``full_format`` varied.  Oracle: the result is parsed
with an independent regex ``^(\\d+) (second|minute|hour)s? ago$``;
 (a) such a relative-past phrase is returned only if ``date <= now + 60 s``;
 (b) then with e = max(0, now - date): N*unit lies within unit/2 of some s' in [floor_to_seconds(e), e] ("a nearest
     integer", ties either way; the elapsed time may be truncated to whole seconds first) -- so e = 0 demands N = 0;
 (c) every call returns a non-empty ``str``;
 (d) ``relative=False`` or ``full_format=True`` never yields a relative-past phrase (documented).

Sensitivity (quick tier, seed 1, scratch copies; all caught = exit 1):
  * ``seconds < 50`` -> ``seconds < 60`` and ``round(seconds / 60.0)`` -> ``seconds // 60`` ... caught (C46.relative_number)
  * ``round(seconds / (60.0 * 60))`` -> ``int(...)`` ....................... caught (C46.relative_number)
  * ``round(seconds / 60.0)`` -> ``int(...)`` ............................. caught (C46.relative_number)
  * ``parts.append(s[-3:])`` -> ``s[-4:]`` (``s = s[:-3]`` kept) ............ caught (C46.number_grouping/readback)
  * snapshot 59274db ``friendly_number`` (F8) ............................ caught (replay F08 + search)
  * snapshot 59274db ``(date - now).seconds < 60`` (F9) .................. caught (replay F09 + search)
  * ``CSVLocale.translate`` memoised by the singular message only (plural_message and count ignored: once "1 second
    ago" was rendered on a Locale, every later date in seconds reads "1 second ago") ... caught at seeds 1,2,3
    (C46.relative_number inside a ``history`` case) by rendering *sequences* on ONE Locale object: every order of
    {1, 5} x {second, minute, hour} on a fresh locale (720 permutations), singular->plural->singular and
    plural->singular->plural per unit x locale kind (fresh en / en_US / fr_FR / zh_CN, shared get("en_US")) x input
    form with absolute formats, future dates and friendly_number calls in between, plus Hypothesis-generated
    sequences; each result judged independently by the single-call oracle (ninth-round "state carried over"
    mutation testing; before, only the shared en_US instance carried history, by accident)
  * ``CSVLocale.translate`` plural test ``count != 1`` -> ``count > 1`` (a count of 0 selects the singular message: a date
    < 1 s old or inside the future clock-skew window renders "1 second ago" instead of "0 seconds ago") ... caught at
    seeds 1,2,3 (C46.relative_number).  Needed two things: the number clause was too loose (half a unit + 1 s let N = 1
    pass for an elapsed time of 0; now N*unit must be within half a unit of the elapsed time or of its whole-second
    truncation) and a deterministic ``boundary`` family: elapsed 0, 1 us, 0.4, 0.5, 0.999, 1, 1.5, 2 s, every phrase
    switch-over (49/50/51, 59/60/61 s, 89/90/91 s, 49.5/50 min, 59/60 min, 1.5 h, 23.5/24 h, 2 d) -1 us / 0 / +1 us /
    +0.5 s, and future dates inside / at / beyond the 60 s window, x input forms x locales (tenth-round
    "boundary" mutation testing)
  * future clock-skew window ``seconds=60`` -> ``seconds=3600`` ........... caught (C46.future_as_past)
  * numeric timestamps converted with ``fromtimestamp(date)`` (process-local naive time labelled UTC) instead of
    ``fromtimestamp(date, datetime.timezone.utc)`` ... caught (C46.future_as_past / C46.relative_number) since the
    process time zone became a generated configuration (``TZ`` = UTC, AAA+5, BBB-9:30, ... + ``time.tzset()`` around
    each call, restored in ``finally``); invisible before because the sandbox runs in UTC (fourth-round mutation testing)
"""
import contextlib
import datetime as real_datetime
import os
import re
import time

from hypothesis import strategies as st

import tornado.locale

PROPERTY = "C46"
READY = True
RULE = (
    "two Hypothesis parts: integers in +-10**30 (boundary-heavy) x {en_US, en, non-English}; and (now, "
    "offset, input form, zone, gmt_offset, relative, shorter, full_format, locale, process TZ) with 'now' injected through "
    "a datetime shim and offsets concentrated at phrase boundaries; non-trivial = offset within 2% of a "
    "phrase boundary, or a future date, or a negative number / number needing >=2 groups; distinct = SHA-1 "
    "of the case"
)
ASSUMPTIONS = [
    "relative-past phrases are exactly the English '<N> second(s)/minute(s)/hour(s) ago' forms (no translations loaded)",
    "'rounded to a nearest integer': N*unit within half a unit of the elapsed time or of the elapsed time truncated to whole seconds (ties either way)",
    "naive datetimes denote UTC (documented); int/float are POSIX timestamps",
]
TECHNIQUE = "property-based testing (Hypothesis): read-back / independent phrase parser with injected clock"
LEVEL_TEXT = "generated search; integers to 10**30, 'now' between 2000 and 2100, offsets within +-400 days at microsecond resolution"
SHARDS = 16

EPOCH = real_datetime.datetime(1970, 1, 1, tzinfo=real_datetime.timezone.utc)
US = 10 ** 6
UNIT_US = {"second": US, "minute": 60 * US, "hour": 3600 * US}
PHRASE = re.compile(r"^(\d+) (second|minute|hour)(s?) ago$", re.ASCII)
AGO_ANY = re.compile(r"\bago\b")
NUM_RE = re.compile(r"^-?\d{1,3}(,\d{3})*$", re.ASCII)


# ----------------------------------------------------------------------------- locales
def get_locale(code):
    if code == "en_US":
        return tornado.locale.get("en_US")
    # other codes: private locale objects (no global translation tables are touched)
    return tornado.locale.CSVLocale(code, {})


# ----------------------------------------------------------------------------- friendly_number
def run_num(ctx, case):
    _, v, code = case
    loc = get_locale(code)
    out = loc.friendly_number(v)
    labels = {"num_locale_" + code}
    if v < 0:
        labels.add("negative_number")
    ngroups = (len(str(abs(v))) + 2) // 3
    labels.add("num_groups_%s" % (ngroups if ngroups < 4 else "4plus"))
    if not isinstance(out, str):
        ctx.fail("C46.number_type", {"value": v, "locale": code, "got": repr(out)})
    if code in ("en", "en_US"):
        if out.replace(",", "") != str(v):
            ctx.fail("C46.number_readback", {"value": v, "locale": code, "got": out})
        if not NUM_RE.match(out):
            ctx.fail("C46.number_grouping", {"value": v, "locale": code, "got": out})
        if len(loc.code) and loc.code != code:
            ctx.fail("C46.harness_locale", {"wanted": code, "got": loc.code})
    else:
        labels.add("num_non_english_EITHER")
    ctx.note(case, labels, nontrivial=(v < 0 or ngroups >= 2))


_pow = st.integers(0, 30).map(lambda k: 10 ** k)
num_value_s = st.one_of(
    st.integers(-10 ** 30, 10 ** 30),
    st.integers(-10 ** 7, 10 ** 7),
    st.sampled_from([0, 1, -1, 999, -999, 1000, -1000, 1001, -1001, 99999, -100000, 123456, -123456, 10 ** 6, -10 ** 6, 10 ** 30, -10 ** 30]),
    st.tuples(_pow, st.sampled_from([-1, 0, 1]), st.sampled_from([-1, 1])).map(lambda t: t[2] * (t[0] + t[1])),
)
num_s = st.tuples(st.just("num"), num_value_s, st.sampled_from(["en_US", "en_US", "en", "fr_FR"]))


# ----------------------------------------------------------------------------- format_date
class _DatetimeClassShim:
    """Stands in for the class ``datetime.datetime`` inside tornado.locale: ``now`` is the case's instant."""

    def __init__(self, now):
        self._now = now
        self.now_calls = 0

    def now(self, tz=None):
        self.now_calls += 1
        if tz is None:
            return self._now.astimezone(real_datetime.timezone.utc).replace(tzinfo=None)
        return self._now.astimezone(tz)

    def utcnow(self):
        self.now_calls += 1
        return self._now.astimezone(real_datetime.timezone.utc).replace(tzinfo=None)

    def __call__(self, *a, **kw):
        return real_datetime.datetime(*a, **kw)

    def __getattr__(self, name):
        return getattr(real_datetime.datetime, name)


class _DatetimeModuleShim:
    def __init__(self, now):
        self.datetime = _DatetimeClassShim(now)

    def __getattr__(self, name):
        return getattr(real_datetime, name)


def call_format_date(loc, now, date, **kw):
    shim = _DatetimeModuleShim(now)
    saved = tornado.locale.datetime
    tornado.locale.datetime = shim
    try:
        out = loc.format_date(date, **kw)
    finally:
        tornado.locale.datetime = saved
    return out, shim.datetime.now_calls


@contextlib.contextmanager
def process_timezone(tz):
    """The process-wide local time zone is a generated configuration: TZ is set to a POSIX TZ string (no tzdata
    needed) and time.tzset() is called for the duration of one format_date call; both are restored afterwards.
    Timestamps and aware/naive-UTC datetimes denote absolute instants, so the result may not depend on it."""
    saved = os.environ.get("TZ")
    os.environ["TZ"] = tz
    time.tzset()
    try:
        yield
    finally:
        if saved is None:
            del os.environ["TZ"]
        else:
            os.environ["TZ"] = saved
        time.tzset()


PROCESS_TZS = ["UTC", "AAA+5", "BBB-9:30", "CCC+12", "DDD-14", "EEE+0:45", "EST5EDT,M3.2.0,M11.1.0", "<+0330>-3:30", "FFF-1"]

BOUNDARIES_S = [50, 60, 3000, 3600, 86400]  # phrase boundaries (and the unit sizes) in seconds


def run_date(ctx, case, loc=None, account=True):
    _, now_us, offset_us, form, tzmin, gmt_offset, relative, shorter, full_format, code = case[:10]
    process_tz = case[10] if len(case) > 10 else "UTC"  # older replays carry no process time zone
    now = EPOCH + real_datetime.timedelta(microseconds=now_us)
    date_us = now_us - offset_us
    if form == "int":
        date_us = (date_us // US) * US
        date = date_us // US
    elif form == "float":
        # the nearest double is < 0.25 us away for timestamps below 2**32, and fromtimestamp() rounds to the
        # microsecond grid, so the float denotes exactly date_us
        date = date_us / US
    elif form == "naive":
        date = (EPOCH + real_datetime.timedelta(microseconds=date_us)).replace(tzinfo=None)
    elif form == "aware_utc":
        date = EPOCH + real_datetime.timedelta(microseconds=date_us)
    else:
        tz = real_datetime.timezone(real_datetime.timedelta(minutes=tzmin))
        date = (EPOCH + real_datetime.timedelta(microseconds=date_us)).astimezone(tz)
    e_us = now_us - date_us  # > 0: past
    if loc is None:
        loc = get_locale(code)
    with process_timezone(process_tz):
        out, now_calls = call_format_date(loc, now, date, gmt_offset=gmt_offset, relative=relative, shorter=shorter,
                                          full_format=full_format)
    labels = {"date_form_" + form, "date_locale_" + code}
    labels.add("process_tz_utc" if process_tz == "UTC" else "process_tz_non_utc")
    if process_tz != "UTC" and form in ("int", "float"):
        labels.add("numeric_input_in_non_utc_process")
    if now_calls == 0:
        # the injected clock was not consulted: the oracle below would be meaningless
        raise RuntimeError("format_date did not read datetime.datetime.now() through the shim")
    if not isinstance(out, str) or not out:
        ctx.fail("C46.date_result", {"case": case, "got": repr(out)})
    # ---- labels
    if e_us < 0:
        labels.add("future")
        if -e_us > 86400 * US:
            labels.add("future_gt_1day")
        if -e_us <= 60 * US:
            labels.add("future_le_60s")
        elif -e_us <= 61 * US:
            labels.add("future_just_over_60s")
    near = False
    for b in BOUNDARIES_S:
        if abs(abs(e_us) - b * US) <= 0.02 * b * US:
            near = True
            labels.add("near_%ds" % b)
    if abs(e_us - 3000 * US) <= 0.02 * 3000 * US:
        labels.add("minute_hour_boundary")
    if abs(e_us) < US:
        labels.add("sub_second")
    if relative and not full_format:
        labels.add("relative_requested")
    else:
        labels.add("absolute_requested")
    # ---- oracle
    m = PHRASE.match(out)
    if m:
        n, unit = int(m.group(1)), m.group(2)
        labels.add("phrase_" + unit)
        if not relative or full_format:
            ctx.fail("C46.relative_phrase_when_absolute_requested", {"case": case, "got": out})
        if e_us < -60 * US:
            ctx.fail("C46.future_as_past", {"case": case, "got": out, "seconds_in_future": -e_us / US})
        e = max(0, e_us)
        u = UNIT_US[unit]
        # N must be the nearest integer (ties either way) to the elapsed time in the unit, where the elapsed time may
        # first have been truncated to whole seconds: N*u within u/2 of some s' in [floor_seconds(e), e].  For an
        # elapsed time of 0 (also: a date inside the 60 s clock-skew window, clamped to now) that leaves only N = 0.
        if 2 * n * u < 2 * (e // US) * US - u or 2 * n * u > 2 * e + u:
            ctx.fail("C46.relative_number", {"case": case, "got": out, "elapsed_seconds": e / US,
                                             "elapsed_in_unit": e / u})
    else:
        labels.add("absolute_output")
        if AGO_ANY.search(out):
            # an "... ago" text the phrase parser does not understand: refuse to guess
            ctx.fail("C46.unparsed_relative_phrase", {"case": case, "got": out})
        if "yesterday" in out:
            labels.add("yesterday")
    if account:
        ctx.note(case, labels, nontrivial=near or e_us < 0)
    return labels, (near or e_us < 0)


# ----------------------------------------------------------------------------- histories on ONE Locale object
# A Locale is long-lived (tornado.locale.get() hands out cached instances) and could memoise translations.  A
# history case renders a *sequence* of dates (and numbers) on the same Locale object; every result is judged by
# the same oracle as a single call, independently of what was rendered before.
HIST_STEPS = [(1, "second"), (5, "second"), (1, "minute"), (5, "minute"), (1, "hour"), (5, "hour")]
HIST_EXTRA_OFFSETS_S = [0, -30, -90, 86400 + 3600, 3 * 86400, 40 * 86400, 400 * 86400]


def history_locale(kind):
    how, code = kind.split(":")
    if how == "shared":
        return tornado.locale.get(code), code
    return tornado.locale.CSVLocale(code, {}), code


def history_cases():
    import itertools
    now_us = 1700000000 * US + 250000
    # every order of (count 1, count 5) x (second, minute, hour) on a fresh English locale
    for perm in itertools.permutations(range(len(HIST_STEPS))):
        yield ("history", "fresh:en", now_us, "aware_utc", [("date", HIST_STEPS[i][0] * UNIT_US[HIST_STEPS[i][1]]) for i in perm])
    # singular-then-plural and plural-then-singular for every unit, every locale kind and input form, with absolute
    # formats, future dates and numbers in between
    for kind in ("fresh:en", "fresh:en_US", "fresh:fr_FR", "fresh:zh_CN", "shared:en_US"):
        for form in ("aware_utc", "int", "naive"):
            for unit in ("second", "minute", "hour"):
                one, many = ("date", UNIT_US[unit]), ("date", 7 * UNIT_US[unit])
                yield ("history", kind, now_us, form, [one, many, one])
                yield ("history", kind, now_us, form, [many, one, many])
                for extra in HIST_EXTRA_OFFSETS_S:
                    yield ("history", kind, now_us, form, [one, ("date", extra * US), ("num", -1234567), many, ("num", 1), one])


def run_history(ctx, case):
    _, kind, now_us, form, steps = case
    loc, code = history_locale(kind)
    labels = {"hist_locale_" + kind.replace(":", "_"), "hist_len_%s" % (len(steps) if len(steps) < 6 else "6plus")}
    counts = []
    for what, arg in steps:
        if what == "num":
            out = loc.friendly_number(arg)
            if code in ("en", "en_US") and (out.replace(",", "") != str(arg) or not NUM_RE.match(out)):
                ctx.fail("C46.number_grouping", {"value": arg, "locale": code, "got": out, "history": case})
            continue
        step_case = ("date", now_us, arg, form, 0, 0, True, False, False, code, "UTC")
        sub, _ = run_date(ctx, step_case, loc=loc, account=False)
        labels |= {x for x in sub if x.startswith("phrase_")}
        if 0 < arg < 86400 * US:
            n = arg // (UNIT_US["hour"] if arg >= 3000 * US else UNIT_US["minute"] if arg >= 50 * US else US)
            counts.append(1 if n == 1 else 2)
    if 1 in counts and 2 in counts:
        labels.add("hist_singular_before_plural" if counts.index(1) < counts.index(2) else "hist_plural_before_singular")
    ctx.note(case, labels, nontrivial=len(steps) >= 2)




now_s = st.one_of(
    st.integers(946684800 * US, 4102444800 * US),  # 2000-01-01 .. 2100-01-01
    st.integers(946684800, 4102444800).map(lambda s: s * US),
    st.sampled_from([1700000000 * US, 1709251199 * US + 999999, 1709251200 * US, 2 ** 31 * US, 951782400 * US]),
)
_jitter = st.one_of(st.just(0), st.integers(-US, US), st.sampled_from([-1, 1, -500000, 500000, -999999, 999999]),
                    st.integers(-30, 30).map(lambda s: s * US))
_b = lambda vals: st.tuples(st.sampled_from(vals), _jitter).map(lambda t: t[0] * US + t[1])  # noqa: E731
offset_s = st.one_of(
    _b([49, 50, 51, 59, 60, 61, 89, 90, 91, 119, 120, 149, 150, 151]),                                # second/minute phrases
    _b([2969, 2970, 2971, 2999, 3000, 3001, 3029, 3030, 3031, 3599, 3600, 3601, 5399, 5400, 5401, 8999, 9000, 9001]),  # minute/hour
    _b([84600, 86039, 86040, 86399, 86400, 86401, 86459, 86460, 172800, 345600, 432000, 28857600, 31536000]),        # hour/day and beyond
    _b([0, 1, 2]),
    _b([59, 60, 61]).map(lambda x: -x),                                                               # clock-skew window edge
    _b([1, 30, 49, 50, 51, 119, 3000, 3600, 86399]).map(lambda x: -x),                                # other future dates
    st.tuples(st.integers(1, 400), st.integers(-120, 120), st.integers(-US, US)).map(
        lambda t: -(t[0] * 86400 * US + t[1] * US + t[2])),                                             # N days +- seconds ahead
    st.integers(-400 * 86400 * US, 400 * 86400 * US),
    st.integers(0, 86400 * US),
    st.integers(0, 7200 * US),
    st.integers(0, 12).flatmap(lambda k: st.integers(-10 ** k, 10 ** k)),                              # every magnitude from 1 us up
)
date_s = st.tuples(
    st.just("date"), now_s, offset_s,
    st.sampled_from(["aware_utc", "aware_tz", "naive", "int", "float"]),
    st.one_of(st.just(0), st.integers(-14 * 60, 14 * 60)),
    st.one_of(st.just(0), st.integers(-12 * 60, 14 * 60)),
    st.sampled_from([True, True, True, False]),
    st.booleans(),
    st.sampled_from([False, False, False, True]),
    st.sampled_from(["en_US", "en_US", "en_US", "en", "fr_FR", "zh_CN"]),
    st.sampled_from(["UTC"] + PROCESS_TZS),
)

_hist_step_s = st.one_of(
    st.tuples(st.just("date"), offset_s),
    st.tuples(st.just("date"), st.sampled_from([1, 2, 7, 59]).flatmap(
        lambda n: st.sampled_from([n * US, n * 60 * US, n * 3600 * US]))),
    st.tuples(st.just("date"), st.sampled_from([US, 60 * US, 3600 * US])),
    st.tuples(st.just("num"), num_value_s),
)
# ----------------------------------------------------------------------------- exact boundary family (deterministic)
BOUNDARY_ELAPSED_US = sorted(set(
    [0, 1, 400000, 500000, 999000, 999999, US, US + 1, 1500000, 1999999, 2 * US]
    + [b * US + d for b in (49, 50, 51, 59, 60, 61, 89, 90, 91, 119, 120, 149, 150, 151, 2969, 2970, 2971, 2999, 3000, 3001, 3029, 3030,
                            3031, 3599, 3600, 3601, 5399, 5400, 5401, 8999, 9000, 9001, 84599, 84600, 84601, 86399, 86400, 86401,
                            172799, 172800, 172801) for d in (-1, 0, 1, 500000)]
    # future: inside, at and beyond the 60 s clock-skew window, and far ahead
    + [-x for x in (1, 400000, 999999, US, 30 * US, 59 * US, 59999999, 60 * US, 60 * US + 1, 61 * US, 3600 * US, 86400 * US,
                    86430 * US, 400 * 86400 * US)]))


def boundary_cases():
    now_us = 1700000000 * US + 750000
    for code in ("en_US", "en"):
        for form in ("aware_utc", "int", "float", "naive"):
            for e in BOUNDARY_ELAPSED_US:
                yield ("date", now_us, e, form, 0, 0, True, False, False, code, "UTC")
    for e in BOUNDARY_ELAPSED_US:  # other zones / options at the same boundaries
        yield ("date", now_us, e, "aware_tz", 330, -480, True, True, False, "fr_FR", "XST-05:30")
        yield ("date", now_us, e, "aware_utc", 0, 0, False, False, False, "en_US", "UTC")


def run_boundary(ctx, case):
    labels, nontrivial = run_date(ctx, case, account=False)
    e = case[2]
    labels = set(labels) | {"boundary_family"}
    if -60 * US <= e < US:
        labels.add("boundary_count_zero")
    ctx.note(case, labels, nontrivial=True)


history_s = st.tuples(
    st.just("history"),
    st.sampled_from(["fresh:en", "fresh:en_US", "fresh:fr_FR", "shared:en_US"]),
    now_s,
    st.sampled_from(["aware_utc", "aware_utc", "naive", "int", "float"]),
    st.lists(_hist_step_s, min_size=2, max_size=6),
)

PARTS = {"num": run_num, "date": run_date, "history": run_history, "history_random": run_history, "boundary": run_boundary}


def main(ctx):
    ctx.run_replays(PARTS)
    ctx.enumerate(boundary_cases(), run_boundary, name="boundary")
    ctx.enumerate(history_cases(), run_history, name="history")
    ctx.explore(history_s, run_history, ctx.n(600, 30000), name="history_random")
    ctx.explore(num_s, run_num, ctx.n(2500, 200000), name="num")
    ctx.explore(date_s, run_date, ctx.n(5000, 400000), name="date")
