"""C38 — IOLoop callbacks and timeouts run once, in order, and survive errors.

Three parts, all on the harness-owned virtual-time loop (vlib/vtime.py):

* main: a generated *program* of scheduling calls interpreted from the loop thread: add_callback /
  spawn_callback, add_timeout(absolute | timedelta), call_later, call_at with past / equal / near / far
  deadlines, remove_timeout before / after firing and from inside other callbacks, callbacks that
  raise, return a failed future, a failing or succeeding coroutine, a non-awaitable, or schedule further
  callbacks / timeouts / add_future registrations from inside; add_future with asyncio and
  concurrent futures already done or completed later; clock advances (timer by timer), clock jumps
  (several timers become due at once) and *busy callbacks* that move the clock forward while they run and
  then arm timeouts whose deadlines are already over.  The execution log is compared with a model.
* threads: real producer threads call add_callback with tagged payloads; a producer is a plain thread,
  or runs its *own* asyncio loop (asyncio.run) / its own Tornado IOLoop (run_sync) and calls
  target.add_callback from inside a coroutine there.  "busy" mode: k in 2..4 producers plus the loop
  thread itself, the target loop blocked in select between wake-ups (allow_block).  "idle" mode: k in
  1..4 producers, the target loop has nothing scheduled at all (the harness task waits on a future), so
  only the producers' wake-ups make it run; a watcher selector (see _IdleWatchSelector for the soundness
  argument) reports handles that sit in the ready queue while the loop would sleep forever.  Only
  order-independent clauses: every payload exactly once (none lost, none queued without a wake-up),
  per-thread FIFO.
* run_sync: function returning None / raising / returning a done future / coroutine that awaits nothing /
  coroutine finishing before or after the timeout / never finishing; timeout None, quarter-second
  multiples, and the boundary values 0, 0.0 and 1e-9 (below one ulp of the clock).  Result, exception
  identity, TimeoutError + the coroutine saw CancelledError (unless it was cancelled before its first
  step), not earlier than the deadline on the loop's clock; afterwards the loop is stopped and reusable.
  Boundary rule (from the docstring "maximum duration ... If the timeout expires, a TimeoutError is
  raised"): with timeout 0 whatever still needs a later loop turn must time out; a function whose
  outcome is known when func() returns is EITHER (result or TimeoutError); 1e-9 against zero-time work
  is a tie, EITHER.  Open finding F-C38-run-sync-stale-stop lives here (see findings_inbox).

Oracle clauses (statement transcribed): each add_callback callback exactly once, execution order ==
scheduling order; a timeout runs at most once, never while loop.time() < deadline, never after
remove_timeout, exactly once when due and not removed, and never while another pending timeout precedes it
under both readings of "deadline" - strictly earlier raw deadline AND strictly earlier effective deadline
(a deadline already past when scheduled counts as "now"); ties and the mutual order of timeouts that were
already overdue when scheduled are unordered; a raising callback / failed returned future is logged at ERROR on tornado.application with
that exception and everything else still runs, nothing escapes into asyncio's handler; an add_future
callback never runs inside add_future() nor in the iteration that completed the future, gets the
future, runs once.  Every callback receives exactly the positional and keyword arguments given to the scheduling call.

Corrections: the deadline-order clause used only the effective (clamped) deadline and so flagged a property-preserving
change (call_at without clamping: overdue timeouts then run in raw-deadline order).  It now requires the pending
timeout to precede under both the raw and the effective deadline.  NaN deadlines are outside the domain (never generated).

Sensitivity (quick tier, seed 1, one textual mutation at a time on a scratch copy of /repo/tornado):
  * IOLoop._run_callback re-raises after logging (DESIGN)                      -> caught (C38.exception_escaped_to_asyncio)
  * IOLoop._run_callback swallows without logging                              -> caught (C38.callback_exception_not_logged)
  * IOLoop.add_future uses the inline future_add_done_callback (DESIGN)        -> caught (C38.add_future_ran_inline)
  * BaseAsyncIOLoop.remove_timeout is a no-op (DESIGN)                         -> caught (C38.timeout_ran_after_remove, run_sync.loop_not_reusable)
  * add_timeout(timedelta) uses `.seconds` instead of `.total_seconds()`       -> caught (C38.timeout_runs_never / before_deadline)
  * call_later measures the delay from 0 instead of from time()               -> caught (C38.timeout_before_deadline)
  * run_sync: timeout only stops the loop, does not cancel                     -> caught (C38.run_sync.coroutine_not_cancelled)
  * run_sync returns None instead of the result                                -> caught (C38.run_sync.wrong_outcome)
  * run_sync does not remove its timeout after start() returns                 -> caught (C38.run_sync.loop_not_reusable)
  * add_callback from a thread without a running loop is dropped               -> caught (C38.threads.callback_lost, run_sync.never_returns)
  * add_callback uses the non-threadsafe call_soon whenever *any* loop is running in the calling thread
    (get_running_loop() succeeds) instead of only for its own loop               -> caught at seeds 1-3
    (C38.threads.callback_queued_without_wakeup) since producers that run their own asyncio/Tornado loop and the
    idle-target mode were added (each idle case uses one kind of producer and producers only start calling once the
    target loop is really blocked, so the verdict does not depend on thread interleaving - a mixed case could flip between
    runs and made the check exit 2 as 'flaky').  Earlier version: missed (plain producers only; the joiner's wake-up and the
    virtual loop's 5 ms polling masked the missing wake-up).
  * run_sync: both `if timeout is not None:` guards turned into `if timeout:` (timeout=0 ignored)  -> caught at
    seeds 1-3 (C38.run_sync.no_timeout_error; never-finishing functions: C38.run_sync.never_returns) since the
    boundary timeouts 0 / 0.0 / 1e-9 were added.  Earlier version: missed (smallest timeout was 0.25 s).
  * call_at fast path: an already-past deadline is scheduled with `call_soon` instead of `call_later(0)` -> caught at
    seeds 1-3 (C38.timeout_deadline_order) since "busy" callbacks were added: a callback arms timeout A, moves the
    virtual clock forward inside the callback (loop thread busy) past A's deadline, then arms B whose later deadline is
    also already over; B must not run while A is overdue and pending.  Earlier version: missed (the clock never moved
    inside a callback, so a past-deadline timeout never coexisted with an overdue earlier one).
  * run_sync removes its timeout only after `future.result()` (skipped when run_sync leaves by raising; seeded C38-1)
    -> since the committed run_sync repair (timeout callback ignores an already-done future) this is only observable when
    run_sync is left with its future still PENDING: new function kind `stops_loop` (calls IOLoop.stop() while unfinished);
    the stale timeout then cancels the old future during the next run_sync and stops it -> caught
    (C38.run_sync.loop_not_reusable).
  * `_run_callback`: the silent `except asyncio.CancelledError` widened to `(CancelledError, TimeoutError)` -> caught at
    seeds 1-3 (C38.callback_exception_not_logged, exception_type TimeoutError) since the exception TYPE raised by
    callbacks / carried by returned futures and coroutines is a generated dimension (RuntimeError, ValueError, KeyError,
    OSError, TimeoutError under its asyncio / gen / tornado.util names, InvalidStateError, LookupError, StopIteration,
    a user subclass; CancelledError = the documented silent case, logging not asserted).  Earlier version: missed (one
    user-defined exception class only).
  * add_timeout(timedelta) forwards `*args` but drops `**kwargs`                 -> caught at seeds 1-3
    (C38.arguments_not_forwarded) since every scheduling call (add_callback, spawn_callback, add_timeout absolute /
    timedelta, call_later, call_at, cross-thread add_callback, run_in_executor positional) is made with generated
    positional and keyword arguments and the callback records exactly what it received.  Earlier version: missed (no
    arguments were ever passed).  add_callback_from_signal (deprecated, not in the statement) and add_future (takes no
    extra arguments) are not covered.
  * call_at without `max(0, ...)` (DESIGN)                                      -> NOT caught: equivalent; asyncio's call_later accepts a
    negative delay and fires it at once, only the (unspecified) order among already-past deadlines changes.
"""
import asyncio
import concurrent.futures
import datetime
import threading

from hypothesis import strategies as st

from tornado.concurrent import Future

from vlib import vtime
from vlib.loopkit import Logs

PROPERTY = "C38"
READY = True
RULE = (
    "main: Hypothesis op-lists (3..30 ops) over {add_callback, spawn_callback, 4 timeout forms x 10 deadline offsets "
    "(multiples of 0.25 s incl. past/now/far), remove_timeout, add_future (asyncio/concurrent, done/later), fire, "
    "advance, jump, settle} x 13 callback behaviours (incl. busy callbacks moving the clock); threads: busy mode k in 2..4 producers x m<=40 payloads + loop-thread "
    "payloads, idle-target mode k in 1..4 x m<=25, each producer plain / inside asyncio.run / inside its own IOLoop; run_sync: 11 function kinds x durations x timeouts {None, 0.25..100 s, 0, 0.0, 1e-9}. non-trivial (main) = >=3 scheduled items with a "
    "removal or a raising callback among them; distinct = SHA-1 of the case"
)
ASSUMPTIONS = [
    "deadlines and clock steps are multiples of 0.25 s at epoch scale, so absolute<->relative conversion is exact",
    "order between timeouts with equal deadlines, between timeouts already overdue when scheduled (raw vs clamped reading), and between callbacks and timeouts, is unspecified",
    "cross-thread order is unspecified; the thread part cannot enumerate interleavings (the OS schedules them)",
    "run_sync ties at positive timeouts (coroutine finishing exactly at the timeout) are not generated; at timeout 0 / 1e-9 the EITHER classes are as stated in the module docstring",
]
TECHNIQUE = "property-based testing (Hypothesis): generated scheduling programs against a reference model on a virtual clock; thread stress for exactly-once / per-thread FIFO"
LEVEL_TEXT = "sampled scheduling programs; thread interleavings are whatever the OS produces (stress, not enumeration)"
SHARDS = 16

Q = 0.25


class CbError(Exception):
    pass


RAISING = ("raise", "failfut", "failcoro", "latefailcoro")


def _exc_pool():
    import tornado.util
    from tornado import gen

    return [
        ("CbError", CbError), ("RuntimeError", RuntimeError), ("ValueError", ValueError), ("KeyError", KeyError),
        ("OSError", OSError), ("TimeoutError", TimeoutError), ("asyncio.TimeoutError", asyncio.TimeoutError),
        ("gen.TimeoutError", gen.TimeoutError), ("tornado.util.TimeoutError", tornado.util.TimeoutError),
        ("asyncio.InvalidStateError", asyncio.InvalidStateError), ("LookupError", LookupError),
        ("StopIteration", StopIteration),          # only raised directly by a callback (cannot be a future's exception)
        ("CancelledError", asyncio.CancelledError),  # the documented silent case ("CancelledErrors are no longer logged")
    ]


EXC_POOL = _exc_pool()


class World:
    def __init__(self, loop, io):
        self.loop = loop
        self.io = io
        self.items = []
        self.timeouts = []
        self.afs = []
        self.log = []
        self.failures = []
        self.labels = set()
        self.it = [0]
        self.salt = 0
        self.in_add_future = None
        orig = loop._run_once

        def counted():
            self.it[0] += 1
            orig()

        loop._run_once = counted

    def fail(self, clause, detail):
        self.failures.append((clause, detail))

    def new_item(self, typ, beh, **kw):
        item = dict(id=len(self.items), type=typ, beh=beh, runs=0, removed=False, sched_time=self.loop.time(),
                    sched_it=self.it[0])
        item.update(kw)
        self.items.append(item)
        return item

    # ---- behaviours
    def call_args(self, item):
        """Positional / keyword arguments handed to the scheduling call together with the callback (every scheduling API
        documents `callback, *args, **kwargs`): none / positional only / keyword only / both, varying with the item."""
        pat = (item["id"] * 7 + self.salt) % 4
        args = (item["id"], "p") if pat in (1, 3) else ()
        kwargs = {"kw": item["id"], "other": "k"} if pat in (2, 3) else {}
        item["pargs"], item["pkw"] = args, kwargs
        if kwargs:
            self.labels.add("kwargs_passed." + item["type"] + ("." + item["form"] if "form" in item else ""))
        return args, kwargs

    def make_fn(self, item):
        def fn(*args, **kwargs):
            now = self.loop.time()
            item["runs"] += 1
            self.log.append(item["id"])
            item["run_it"] = self.it[0]
            if item["type"] in ("cb", "to") and (args != item.get("pargs", ()) or kwargs != item.get("pkw", {})):
                self.fail("C38.arguments_not_forwarded", {"item": item["id"], "type": item["type"], "form": item.get("form"),
                                                          "passed": (item.get("pargs"), item.get("pkw")), "received": (args, kwargs)})
            if item["type"] == "to":
                if item["removed"]:
                    self.fail("C38.timeout_ran_after_remove", {"item": item["id"]})
                if now < item["deadline"]:
                    self.fail("C38.timeout_before_deadline", {"item": item["id"], "now": now, "deadline": item["deadline"]})
                for o in self.timeouts:
                    # Order violation only if the pending timeout precedes the one that ran under BOTH readings of
                    # "deadline": the raw deadline and the effective one (a deadline already over when scheduled
                    # counts as the scheduling instant).  For timeouts that were overdue when scheduled nothing
                    # fixes their relative order: an implementation may sort them by raw deadline (no clamping) or
                    # by the instant they were added (clamping to "now").
                    if (o is not item and o["runs"] == 0 and not o["removed"]
                            and o["eff"] < item["eff"] and o["deadline"] < item["deadline"]):
                        self.fail("C38.timeout_deadline_order", {"ran": item["id"], "eff": item["eff"], "deadline": item["deadline"],
                                                                "pending": o["id"], "pending_eff": o["eff"],
                                                                "pending_deadline": o["deadline"], "now": now})
            elif item["type"] == "af":
                if self.in_add_future is item:
                    self.fail("C38.add_future_ran_inline", {"item": item["id"]})
                if not args or args[0] is not item["fut"]:
                    self.fail("C38.add_future_wrong_argument", {"item": item["id"]})
                if self.it[0] <= item["sched_it"] or ("fire_it" in item and self.it[0] <= item["fire_it"]):
                    self.fail("C38.add_future_same_iteration", {"item": item["id"], "run_it": self.it[0],
                                                                "sched_it": item["sched_it"], "fire_it": item.get("fire_it")})
            return self.behave(item)

        return fn

    def make_exc(self, item):
        """The exception TYPE is a generated dimension: whatever Exception a callback raises, or a future / coroutine it
        returns fails with, must be logged and must not stop the loop (CancelledError: documented as silent)."""
        name, cls = EXC_POOL[(item["id"] * 5 + self.salt) % len(EXC_POOL)]
        if cls is StopIteration and item["beh"][0] != "raise":
            name, cls = "CbError", CbError
        item["exc_kind"] = name
        self.labels.add("exc." + name)
        return cls("item%d" % item["id"])

    def behave(self, item):
        beh = item["beh"]
        k = beh[0]
        if k == "raise":
            raise self.make_exc(item)
        if k == "failfut":
            f = Future()
            exc = self.make_exc(item)
            if isinstance(exc, asyncio.CancelledError):
                f.cancel()
            else:
                f.set_exception(exc)
            return f
        if k == "failcoro":
            exc1 = self.make_exc(item)

            async def c():
                raise exc1
            return c()
        if k == "latefailcoro":
            exc2 = self.make_exc(item)

            async def c2():
                await asyncio.sleep(0)
                raise exc2
            return c2()
        if k == "okcoro":
            async def c3():
                await asyncio.sleep(0)
                return 7
            return c3()
        if k == "value":
            return 42
        if k == "nest":
            for _ in range(beh[1]):
                self.add_cb(("plain",))
            self.labels.add("nested_add_callback")
        elif k == "nest_raise":
            self.add_cb(("raise",))
        elif k == "nest_to":
            self.add_to(beh[1], beh[2], ("plain",))
            self.labels.add("timeout_from_callback")
        elif k == "nest_af":
            self.add_af("aio", True)
        elif k == "busy":
            # a slow callback: arms a timeout, keeps the loop thread busy while the clock moves on (possibly past that
            # deadline and others), then arms another timeout whose deadline - counted from when the callback began -
            # may already be over.  All overdue timeouts must still run in deadline order.
            _, form1, q1, qadv, form2, q2 = beh
            t0 = self.loop.time()
            self.add_to(form1, q1, ("plain",))
            self.loop._now += qadv * Q
            b = self.add_to(form2, q2, ("plain",), base=t0)
            self.labels.add("busy_callback")
            if b["deadline"] <= self.loop.time() and any(
                    o is not b and o["runs"] == 0 and not o["removed"] and o["eff"] < b["eff"] and o["eff"] <= self.loop.time()
                    for o in self.timeouts):
                self.labels.add("past_deadline_while_earlier_overdue")
        elif k == "rm":
            if self.remove(beh[1]):
                self.labels.add("remove_inside_callback")
        return None

    # ---- scheduling calls
    def add_cb(self, beh, spawn=False):
        item = self.new_item("cb", beh)
        a, kw = self.call_args(item)
        (self.io.spawn_callback if spawn else self.io.add_callback)(self.make_fn(item), *a, **kw)
        return item

    def add_to(self, form, q, beh, base=None):
        now = self.loop.time()
        d = q * Q if base is None else (base + q * Q) - now  # deadline = base + q*Q, possibly already past
        item = self.new_item("to", beh, deadline=now + d, eff=max(now + d, now), form=form)
        self.timeouts.append(item)
        fn = self.make_fn(item)
        a, kw = self.call_args(item)
        if form == "abs":
            h = self.io.add_timeout(now + d, fn, *a, **kw)
        elif form == "td":
            h = self.io.add_timeout(datetime.timedelta(seconds=d), fn, *a, **kw)
            self.labels.add("timedelta_deadline")
        elif form == "later":
            h = self.io.call_later(d, fn, *a, **kw)
        else:
            h = self.io.call_at(now + d, fn, *a, **kw)
        item["handle"] = h
        if d < 0:
            self.labels.add("past_deadline")
        if any(o is not item and o["runs"] == 0 and not o["removed"] and o["eff"] == item["eff"] for o in self.timeouts):
            self.labels.add("equal_deadlines")
        return item

    def remove(self, j):
        if not self.timeouts:
            return False
        t = self.timeouts[j % len(self.timeouts)]
        self.io.remove_timeout(t["handle"])
        if t["runs"] == 0:
            if not t["removed"]:
                t["removed"] = True
                self.labels.add("remove_before_fire")
                return True
        else:
            self.labels.add("remove_after_fire")
        return False

    def add_af(self, kind, done):
        fut = Future() if kind == "aio" else concurrent.futures.Future()
        item = self.new_item("af", ("plain",), fut=fut, kind=kind)
        self.afs.append(item)
        if done:
            fut.set_result("r%d" % item["id"])
            item["fire_it"] = self.it[0]
            self.labels.add("add_future_already_done")
        self.in_add_future = item
        try:
            self.io.add_future(fut, self.make_fn(item))
        finally:
            self.in_add_future = None
        return item

    def fire(self, j):
        if not self.afs:
            return
        a = self.afs[j % len(self.afs)]
        if not a["fut"].done():
            a["fire_it"] = self.it[0]
            a["fut"].set_result("r%d" % a["id"])
            self.labels.add("add_future_done_later")


async def _scn_main(case, logs):
    loop = asyncio.get_running_loop()
    from tornado.ioloop import IOLoop

    io = IOLoop.current()
    w = World(loop, io)
    w.salt = len(case)
    for op in case:
        k = op[0]
        if k == "cb":
            w.add_cb(op[1])
        elif k == "spawn":
            w.add_cb(op[1], spawn=True)
        elif k == "to":
            w.add_to(op[1], op[2], op[3])
        elif k == "rm":
            w.remove(op[1])
        elif k == "adv":
            await vtime.advance(op[1] * Q)
        elif k == "jump":
            await vtime.settle()
            loop._now += op[1] * Q
            await vtime.settle()
            w.labels.add("clock_jump")
        elif k == "settle":
            await vtime.settle()
        elif k == "af":
            w.add_af(op[1], op[2])
        elif k == "fire":
            w.fire(op[1])
    for a in w.afs:
        if not a["fut"].done():
            a["fire_it"] = w.it[0]
            a["fut"].set_result("r%d" % a["id"])
    await vtime.advance(16.0)
    await vtime.settle()
    final_now = loop.time()
    # ---- final model comparison
    cbs = [i for i in w.items if i["type"] == "cb"]
    for i in w.items:
        if i["type"] in ("cb", "af"):
            want = 1
        elif i["removed"]:
            want = 0
        else:
            want = 1 if i["eff"] <= final_now else 0
            if want == 0:
                w.labels.add("far_future_not_run")
        if i["runs"] != want:
            clause = "C38.%s_runs_%s" % ({"cb": "callback", "to": "timeout", "af": "add_future"}[i["type"]],
                                         "twice" if i["runs"] > want and want else ("never" if want else "unexpectedly"))
            w.fail(clause, {"item": i["id"], "beh": i["beh"], "runs": i["runs"], "want": want, "removed": i["removed"]})
    order = [x for x in w.log if w.items[x]["type"] == "cb"]
    if order != sorted(order):
        w.fail("C38.callback_fifo_order", {"executed": order})
    app_err = [r for r in logs.records if r[0] == "tornado.application" and r[1] >= 40]
    logged = set()
    for r in app_err:
        e = r[4]
        if isinstance(e, BaseException) and e.args and str(e.args[0]).startswith("item"):
            logged.add(int(str(e.args[0])[4:]))
        else:
            w.fail("C38.unexpected_error_logged", {"record": (r[2][:200], repr(e))})
    for i in w.items:
        if i["beh"][0] in RAISING and i["runs"] >= 1:
            w.labels.add("raise_then_continue")
            if i.get("exc_kind") == "CancelledError":
                w.labels.add("cancelled_error_silent_case")  # logging not asserted; the loop just has to go on
            elif i["id"] not in logged:
                w.fail("C38.callback_exception_not_logged", {"item": i["id"], "beh": i["beh"], "exception_type": i.get("exc_kind")},
                       )
        elif i["id"] in logged:
            w.fail("C38.unexpected_error_logged", {"item": i["id"], "beh": i["beh"]})
    esc = [r for r in logs.records if r[0] == "asyncio" and r[1] >= 40]
    if esc:
        w.fail("C38.exception_escaped_to_asyncio", {"records": [(r[2][:200], repr(r[4])) for r in esc[:3]]})
    n_items = len(w.items)
    nontrivial = n_items >= 3 and (any(i["removed"] for i in w.items) or any(i["beh"][0] in RAISING and i["runs"] for i in w.items))
    return w.failures, w.labels, nontrivial


def run_main(ctx, case):
    with Logs() as logs:
        failures, labels, nontrivial = vtime.run(_scn_main, case, logs)
    for clause, detail in failures[:1]:
        ctx.fail(clause, dict(detail, ops=case))
    ctx.note(case, labels | {"main"}, nontrivial)


# --------------------------------------------------------------------------- threads
IDLE_ROUNDS = 3


class _IdleWatchSelector:
    """Selector for the "idle target" thread scenario (replaces vtime's never-sleeping wrapper for that part).

    It really blocks, in slices of 5 ms, exactly where a production loop would block: select(None) is only
    reached when asyncio found no ready handle and no timer.  Decision rule for "would sleep forever": every
    producer thread has terminated (so every add_callback call has returned, and call_soon_threadsafe writes
    its wake-up byte before returning), a further select(0) still reports no event, IDLE_ROUNDS times in a
    row.  From then on nothing can ever make the real selector return, so any handle sitting in the ready
    queue at that moment was queued *without* a wake-up and would never run on a real loop; the count is
    recorded in state["unwoken"].  The watcher then lets the loop continue (so the case terminates) and
    resolves the harness future if the expected callbacks did not all arrive.  asyncio itself never blocks
    with a non-empty ready queue (it computes timeout=0 then), and while the loop thread sits in select only
    other threads can append, so on correct code unwoken is always 0: no false alarm, no wall-clock verdict
    (the 5 ms slices only bound how long the harness waits for running producers)."""

    def __init__(self, real, loop, threads, state, finish):
        self._real = real
        self._loop = loop
        self._threads = threads
        self._state = state
        self._finish = finish

    def select(self, timeout=None):
        ev = self._real.select(0)
        if ev or (timeout is not None and timeout <= 0):
            return ev
        if timeout is not None:
            return self._real.select(min(timeout, 0.005))
        st_ = self._state
        st_["idle_event"].set()  # the target loop is now blocked with nothing to do: producers may start calling
        while True:
            ev = self._real.select(0.005)
            if ev:
                st_["idle_after_done"] = 0
                st_["woken"] += 1
                return ev
            if any(t.is_alive() for t in self._threads):
                continue
            ev = self._real.select(0)
            if ev:
                st_["woken"] += 1
                return ev
            st_["idle_after_done"] += 1
            if st_["idle_after_done"] >= IDLE_ROUNDS:
                st_["permanent_idle"] = True
                st_["unwoken"] += len(self._loop._ready)
                self._loop.call_soon(self._finish)
                return []

    def __getattr__(self, name):
        return getattr(self._real, name)


def _producer_body(io, tid, m, barrier, deliver, pmode, errors, gate=None):
    """Returns the thread target.  pmode: plain thread / the thread runs its own asyncio loop (asyncio.run) /
    its own Tornado IOLoop (run_sync); in the last two add_callback is called from inside a coroutine, i.e.
    with *another* event loop running in the calling thread."""
    from tornado.ioloop import IOLoop

    def plain():
        barrier.wait()
        if gate is not None:
            gate.wait()
        for s in range(m):
            io.add_callback(deliver, (tid, s), tag=tid)

    async def body():
        barrier.wait()
        if gate is not None:
            gate.wait()
        for s in range(m):
            io.add_callback(deliver, (tid, s), tag=tid)
            if s % 4 == 3:
                await asyncio.sleep(0)

    def target():
        try:
            if pmode == "plain":
                plain()
            elif pmode == "asyncio":
                asyncio.run(body())
            else:
                own = IOLoop(make_current=False)
                try:
                    own.run_sync(body)
                finally:
                    own.close(all_fds=True)
        except BaseException as e:  # noqa: BLE001 - reported by the harness thread
            errors.append((tid, pmode, repr(e)))
            try:
                barrier.abort()
            except Exception:
                pass

    return target


async def _scn_threads(case):
    loop = asyncio.get_running_loop()
    from tornado.ioloop import IOLoop

    io = IOLoop.current()
    k, m = case["k"], case["m"]
    mode = case.get("mode", "busy")
    pmodes = list(case.get("pmodes") or [])
    pmodes = (pmodes + ["plain"] * k)[:k]
    if mode == "idle":
        # one kind of producer per idle case and no call before the loop is really blocked: the verdict of a case must
        # not depend on how the OS interleaves the threads (a wake-up by one producer would also flush the handles
        # another one queued without waking the loop)
        pmodes = [case.get("pmode") or pmodes[0]] * k
    local = case["local"] if mode == "busy" else 0
    got = []
    errors = []
    barrier = threading.Barrier(k)
    state = {"idle_after_done": 0, "permanent_idle": False, "unwoken": 0, "woken": 0, "errors": errors,
             "idle_event": threading.Event()}
    total = k * m
    fin = loop.create_future()

    def deliver(payload, tag=None):
        if tag != payload[0]:
            errors.append((payload, "keyword argument not forwarded", repr(tag)))
        got.append(payload)
        if mode == "idle" and len(got) >= total and not fin.done():
            fin.set_result(None)

    def finish():
        if not fin.done():
            fin.set_result(None)

    threads = [threading.Thread(target=_producer_body(io, t + 1, m, barrier, deliver, pmodes[t], errors,
                                                      gate=state["idle_event"] if mode == "idle" else None), daemon=True)
               for t in range(k)]
    if mode == "idle":
        # target loop otherwise idle: the harness task waits on `fin`, nothing is scheduled, so only the
        # producers' wake-ups make the loop run
        nosleep = loop._selector
        loop._selector = _IdleWatchSelector(nosleep._inner, loop, threads, state, finish)
        try:
            for t in threads:
                t.start()
            await fin
        finally:
            for t in threads:
                t.join()
            loop._selector = nosleep
        await vtime.settle()
        return got, state

    def join_all():
        for t in threads:
            t.join()

    loop.allow_block = True
    ex = concurrent.futures.ThreadPoolExecutor(1)
    try:
        for t in threads:
            t.start()
        joined = loop.run_in_executor(ex, join_all)
        # IOLoop.run_in_executor(executor, func, *args): positional arguments reach func, its return value comes back
        echoed = await io.run_in_executor(ex, lambda *a: ("ran", a), k, "x")
        if echoed != ("ran", (k, "x")):
            errors.append(("run_in_executor", "arguments or result not forwarded", repr(echoed)))
        for s in range(local):
            io.add_callback(deliver, (0, s), tag=0)
            if s % 3 == 0:
                await asyncio.sleep(0)
        await joined  # the loop blocks in select() between wake-ups from the producers
    finally:
        for t in threads:
            t.join()
        ex.shutdown(wait=True)
        loop.allow_block = False
    await vtime.settle()
    return got, state


def run_threads(ctx, case):
    with Logs() as logs:
        got, state = vtime.run(_scn_threads, case)
        errs = [r for r in logs.records if r[1] >= 40]
    k, m = case["k"], case["m"]
    mode = case.get("mode", "busy")
    local = case["local"] if mode == "busy" else 0
    want = {(0, s) for s in range(local)} | {(t, s) for t in range(1, k + 1) for s in range(m)}
    if state["errors"]:
        fw = [e for e in state["errors"] if "not forwarded" in str(e[1])]
        ctx.fail("C38.threads.arguments_not_forwarded" if fw else "C38.threads.add_callback_raised",
                 {"case": case, "errors": (fw or state["errors"])[:3]})
    if errs:
        ctx.fail("C38.threads.error_logged", {"case": case, "records": [(r[0], r[2][:200]) for r in errs[:3]]})
    if state["unwoken"]:
        # queued in the target loop's ready queue without waking it: on a real loop it never runs
        ctx.fail("C38.threads.callback_queued_without_wakeup",
                 {"case": case, "handles_pending_while_loop_asleep_forever": state["unwoken"], "ran_before_that": state["woken"]})
    if len(got) != len(set(got)):
        dup = sorted({x for x in got if got.count(x) > 1})
        ctx.fail("C38.threads.callback_ran_twice", {"case": case, "dups": dup[:5]})
    if set(got) != want:
        ctx.fail("C38.threads.callback_lost", {"case": case, "missing": sorted(want - set(got))[:5], "extra": sorted(set(got) - want)[:5]})
    for t in range(0, k + 1):
        seqs = [s for (tt, s) in got if tt == t]
        if seqs != sorted(seqs):
            ctx.fail("C38.threads.per_thread_fifo", {"case": case, "thread": t, "seqs": seqs[:40]})
    inter = any(got[i][0] != got[i + 1][0] for i in range(len(got) - 1))
    labels = {"threads", "threads." + mode} | ({"threads_interleaved"} if inter else set())
    pm = (list(case.get("pmodes") or []) + ["plain"] * k)[:k]
    if mode == "idle":
        pm = [case.get("pmode") or pm[0]] * k
    if "asyncio" in pm or "ioloop" in pm:
        labels.add("producer_runs_own_loop")
    if mode == "idle" and all(x != "plain" for x in pm):
        labels.add("idle_target_all_producers_own_loop")
    ctx.note(case, labels, True)


# --------------------------------------------------------------------------- run_sync
def run_sync_case(ctx, case):
    from tornado import gen

    kind, dq, tq = case["kind"], case["dur_q"], case["timeout_q"]
    dur = dq * Q
    BOUNDARY = {"int0": 0, "float0": 0.0, "tiny": 1e-9}
    boundary = isinstance(tq, str)
    timeout = None if tq is None else (BOUNDARY[tq] if boundary else tq * Q)
    seen = {"cancelled": False, "started": 0}
    err = CbError("rs")
    labels = {"run_sync", "run_sync." + kind}

    async def coro_value():
        seen["started"] += 1
        try:
            await asyncio.sleep(dur)
        except asyncio.CancelledError:
            seen["cancelled"] = True
            raise
        return "value"

    async def coro_raise():
        seen["started"] += 1
        try:
            await asyncio.sleep(dur)
        except asyncio.CancelledError:
            seen["cancelled"] = True
            raise
        raise err

    async def coro_never():
        seen["started"] += 1
        try:
            await Future()
        except asyncio.CancelledError:
            seen["cancelled"] = True
            raise

    def sync_none():
        seen["started"] += 1
        return None

    def sync_raise():
        seen["started"] += 1
        raise err

    never_fut = []

    def future_never():
        seen["started"] += 1
        never_fut.append(Future())
        return never_fut[0]

    @gen.coroutine
    def gen_value():
        seen["started"] += 1
        yield gen.sleep(dur)
        return "value"

    def done_future():
        seen["started"] += 1
        f = Future()
        f.set_result("value")
        return f

    async def coro_nowait():
        # finishes without awaiting anything, but as a coroutine it still needs one later loop turn to run at all
        seen["started"] += 1
        return "value"

    io_box = []

    async def stops_loop():
        # stops the loop explicitly while still unfinished: run_sync leaves by raising (outcome itself is an EITHER class,
        # the statement does not cover it); what matters is that nothing of this call leaks into the next run_sync
        seen["started"] += 1
        io_box[0].stop()
        try:
            await Future()
        except asyncio.CancelledError:
            seen["cancelled"] = True
            raise

    fns = dict(stops_loop=stops_loop, coro_nowait=coro_nowait, coro_value=coro_value, coro_raise=coro_raise, coro_never=coro_never, sync_none=sync_none,
               sync_raise=sync_raise, future_never=future_never, gen_value=gen_value, done_future=done_future)
    sleeping = kind in ("coro_value", "coro_raise", "gen_value")
    never = kind in ("coro_never", "future_never")
    synchronous = kind in ("sync_none", "sync_raise", "done_future")  # outcome known when func() returns
    native = kind in ("coro_value", "coro_raise", "coro_never", "coro_nowait")
    either = False
    if kind == "stops_loop":
        boundary = False
        timeout = max(timeout or 0, 4 * Q)
        labels.add("run_sync_left_by_explicit_stop")
    if not boundary:
        if sleeping and timeout is not None and dur == timeout:
            timeout = dur + Q  # ties are not generated
        if never and timeout is None:
            timeout = Q
        if kind == "gen_value" and timeout is not None and timeout < dur:
            timeout = None  # cancellation of decorated coroutines is an excluded class
        times_out = never or (sleeping and timeout is not None and timeout < dur)
    else:
        # Boundary timeouts.  Documentation: `timeout` "may be used to set a maximum duration for the function.  If
        # the timeout expires, a TimeoutError is raised" (and since 5.0 the function is cancelled).  A timeout of 0
        # (int or float) is a timeout that has expired as soon as the loop looks at it: whatever still needs a
        # later loop turn (any coroutine - even one that awaits nothing only runs on the next turn -, a pending
        # future) must time out.  A function whose outcome is already known when func() returns is not decided
        # by the documentation (finished "at" the deadline): EITHER.  A tiny positive timeout (1e-9, below one
        # ulp of the clock) against something needing zero virtual time but a later turn is a tie: EITHER.
        labels.add("run_sync_timeout_" + tq)
        if synchronous:
            either = True
            times_out = False
        elif timeout == 0 or never or (sleeping and dur > 0):
            times_out = True
        else:
            either = True
            times_out = False
    with Logs() as logs, vtime.virtual_loop() as (loop, io):
        loop.auto_advance = True
        io_box.append(io)
        t0 = loop.time()
        outcome = None
        try:
            outcome = ("ok", io.run_sync(fns[kind], timeout=timeout))
        except RuntimeError as e:
            if kind != "stops_loop":
                raise
            outcome = ("stopped", e)
        except asyncio.TimeoutError as e:
            outcome = ("timeout", e)
        except CbError as e:
            outcome = ("raised", e)
        except vtime.WouldBlock as e:
            # nothing ready, no timer pending, nobody else can wake the loop: run_sync would block forever
            ctx.fail("C38.run_sync.never_returns", {"case": case, "why": str(e)})
            ctx.note(case, labels, True)
            return
        elapsed = loop.time() - t0
        detail = {"case": case, "outcome": repr(outcome), "elapsed": elapsed, "timeout": timeout, "dur": dur}
        # a native coroutine cancelled before its first step never executes its body (started == 0)
        timed = outcome[0] == "timeout"
        if kind == "stops_loop":
            pass  # outcome not asserted (EITHER); only the clauses about the loop afterwards apply
        elif seen["started"] > 1 or (seen["started"] == 0 and not (native and timed)):
            ctx.fail("C38.run_sync.function_called_%d_times" % seen["started"], detail)
        if either and timed:
            labels.add("run_sync_either_timed_out")
            times_out = True
        elif either:
            labels.add("run_sync_either_completed")
        if kind == "stops_loop":
            pass
        elif times_out:
            labels.add("run_sync_timeout")
            if outcome[0] != "timeout":
                ctx.fail("C38.run_sync.no_timeout_error", detail)
            if native and seen["started"] and not seen["cancelled"]:
                ctx.fail("C38.run_sync.coroutine_not_cancelled", detail)
            if kind == "future_never" and never_fut and not never_fut[0].cancelled():
                ctx.fail("C38.run_sync.future_not_cancelled", detail)
            if loop.time() < t0 + timeout:  # the deadline as it exists on the loop's clock (1e-9 is below one ulp)
                ctx.fail("C38.run_sync.timed_out_early", detail)
        else:
            if kind in ("coro_value", "gen_value", "done_future", "coro_nowait"):
                want = ("ok", "value")
            elif kind == "sync_none":
                want = ("ok", None)
            else:
                want = ("raised", err)
            if outcome[0] != want[0] or (outcome[1] is not want[1] and outcome[1] != want[1]) or (want[0] == "raised" and outcome[1] is not err):
                ctx.fail("C38.run_sync.wrong_outcome", dict(detail, want=repr(want)))
            if seen["cancelled"]:
                ctx.fail("C38.run_sync.cancelled_without_timeout", detail)
            if sleeping and elapsed < dur:
                ctx.fail("C38.run_sync.returned_early", detail)
        if loop.is_running() or loop.is_closed():
            ctx.fail("C38.run_sync.loop_not_stopped", detail)
        # reusable: the loop runs again and a stale timeout/stop does not leak into the next run

        async def again():
            await asyncio.sleep(150.0)  # longer than any generated timeout: a stale timer would fire in here
            return "again"

        try:
            r2 = io.run_sync(again, timeout=1000.0)
        except Exception as e:  # noqa: BLE001 - any failure here is the clause
            r2 = repr(e)
        if r2 != "again":
            # narrow class of the open finding: the function's outcome was known when func() returned and the
            # (boundary) timeout fired in that same loop iteration
            sig = "C38.run_sync.loop_not_reusable" + (".sync_function_boundary_timeout" if (boundary and synchronous) else "")
            ctx.fail("C38.run_sync.loop_not_reusable", dict(detail, second=repr(r2)), sig=sig)
        esc = [r for r in logs.records if r[1] >= 40]
        if esc:
            ctx.fail("C38.run_sync.error_logged", dict(detail, records=[(r[0], r[2][:200]) for r in esc[:3]]))
    ctx.note(case, labels, True)


# --------------------------------------------------------------------------- strategies
BEH = st.one_of(
    st.just(("plain",)), st.just(("plain",)), st.just(("plain",)),
    st.just(("raise",)), st.just(("raise",)),
    st.just(("failfut",)), st.just(("failcoro",)), st.just(("latefailcoro",)), st.just(("okcoro",)), st.just(("value",)),
    st.tuples(st.just("nest"), st.integers(1, 3)),
    st.just(("nest_raise",)),
    st.tuples(st.just("nest_to"), st.sampled_from(["abs", "td", "later", "at"]), st.sampled_from([-4, 0, 1, 2, 4])),
    st.just(("nest_af",)),
    st.tuples(st.just("rm"), st.integers(0, 7)), st.tuples(st.just("rm"), st.integers(0, 7)),
    st.tuples(st.just("busy"), st.sampled_from(["abs", "td", "later", "at"]), st.sampled_from([0, 1, 1, 2, 4]),
              st.sampled_from([1, 2, 4, 8, 8]), st.sampled_from(["abs", "td", "later", "at"]), st.sampled_from([1, 2, 2, 4, 6])),
    st.tuples(st.just("busy"), st.sampled_from(["abs", "td", "later", "at"]), st.sampled_from([0, 1, 1, 2, 4]),
              st.sampled_from([1, 2, 4, 8, 8]), st.sampled_from(["abs", "td", "later", "at"]), st.sampled_from([1, 2, 2, 4, 6])),
)
QS = st.sampled_from([-8, -1, 0, 0, 1, 2, 2, 4, 4, 8, 4000])
FORM = st.sampled_from(["abs", "td", "later", "at"])
TO = st.tuples(st.just("to"), FORM, QS, BEH)
OP = st.one_of(
    st.tuples(st.just("cb"), BEH), st.tuples(st.just("cb"), BEH), st.tuples(st.just("spawn"), BEH),
    TO, TO, TO,
    st.tuples(st.just("rm"), st.integers(0, 7)),
    st.tuples(st.just("adv"), st.sampled_from([1, 2, 3, 4, 8])),
    st.tuples(st.just("jump"), st.sampled_from([1, 2, 4, 8, 12])),
    st.just(("settle",)),
    st.tuples(st.just("af"), st.sampled_from(["aio", "aio", "cf"]), st.booleans()),
    st.tuples(st.just("fire"), st.integers(0, 3)),
)
PROGRAM = st.lists(OP, min_size=3, max_size=30)

PMODE = st.sampled_from(["plain", "asyncio", "asyncio", "ioloop"])
THREADS = st.one_of(
    st.fixed_dictionaries({"mode": st.just("busy"), "k": st.integers(2, 4), "m": st.integers(1, 40), "local": st.integers(0, 20),
                           "pmodes": st.lists(PMODE, min_size=4, max_size=4)}),
    st.fixed_dictionaries({"mode": st.just("idle"), "k": st.integers(1, 4), "m": st.integers(1, 25), "local": st.just(0),
                           "pmode": st.sampled_from(["plain", "asyncio", "asyncio", "ioloop", "ioloop"])}),
    st.fixed_dictionaries({"mode": st.just("idle"), "k": st.integers(1, 3), "m": st.integers(1, 25), "local": st.just(0),
                           "pmode": st.sampled_from(["asyncio", "ioloop"])}),
)

RUN_SYNC = st.fixed_dictionaries({
    "kind": st.sampled_from(["coro_value", "coro_value", "coro_raise", "coro_never", "sync_none", "sync_raise",
                             "future_never", "gen_value", "done_future", "coro_nowait", "stops_loop"]),
    "dur_q": st.sampled_from([0, 1, 2, 4, 8, 40]),
    # quarter seconds, or a boundary value: int 0 / float 0.0 / 1e-9 (below one ulp of the epoch-scale clock)
    "timeout_q": st.one_of(st.none(), st.sampled_from([1, 2, 3, 4, 8, 20, 400]), st.sampled_from([1, 2, 3, 4, 8, 20, 400]),
                           st.sampled_from(["int0", "float0", "tiny"])),
})

PARTS = {"main": run_main, "threads": run_threads, "run_sync": run_sync_case}


def main(ctx):
    ctx.run_replays(PARTS)
    ctx.explore(PROGRAM, run_main, ctx.n(1000, 60000), name="main")
    ctx.explore(RUN_SYNC, run_sync_case, ctx.n(250, 4000), name="run_sync")
    ctx.explore(THREADS, run_threads, ctx.n(60, 2400), name="threads")
