"""C12 — IOStream writes deliver every byte once, in order, and resolve in order.

Behavioural part ("main", Hypothesis).  A case is a program of <=10 writes (bytes / memoryview over
bytes, over a bytearray, a sliced view, an ``array('I')`` view and a slice of it; sizes around the
2 KiB coalescing threshold: 0, 1, 2047, 2048, 2049, 4096, 5000, random) interleaved with a
partial-send schedule owned by the harness (the in-memory transport accepts bytes only while it has
credit: ``grant`` n absolute or relative to the pending byte count -1/0/+1/half, 0 = EWOULDBLOCK;
``chunk`` k caps one write_to_fd call; ``flush`` = unlimited), an optional small
max_write_buffer_size, and optional later mutation of a caller's bytearray.  After every step the
loop runs to quiescence (virtual time) and the real BaseIOStream is compared with the model
``(expected byte string, queued, sent, end offset per write)``:

* the transport log (every byte accepted by write_to_fd) is byte-for-byte a prefix of the
  concatenation of the accepted writes, and at quiescence exactly min(queued, credit) bytes went out
  (nothing stuck while the transport is writable - the hang oracle; `writing()` agrees);
* write future k is done  <=>  bytes-sent >= end offset of write k (never early, never stuck;
  zero-length writes resolve with all earlier bytes), result None, done-callback fired exactly once,
  and futures resolve in write order;
* a non-empty write with pending + len(data) > max_write_buffer_size raises StreamBufferFullError and
  has no side effect (no bytes, no future, later writes/futures follow the unchanged model); any other
  write is accepted;
* optional concurrently pending read (``read`` op: read_bytes(4) / read_until(b"\n"); ``feed`` op delivers
  1-5 inbound bytes, so it stays blocked or completes mid-way; verified against the C11 model) and
  "no lost interest": at every quiescence a stream with unsent buffered bytes is registered for WRITE
  and one with a pending read for READ (the interest set recorded by the in-memory event-loop proxy);
* epilogue: with unlimited credit every future resolves and the log equals the whole concatenation.

Reuse: a ``rewrite`` op writes the data object of an earlier write again (same stream or a second stream
with an unlimited transport); each write is judged on its own against the bytes the object held at the
call.  ``bytearray`` objects are accepted although the signature says bytes | memoryview (labelled
`bytearray_object`).  write() copies data <= 2 KiB and keeps a view of larger data and the docs say
nothing about it, hence:
EITHER class `mutated_after_write_either`: a caller's bytearray is overwritten after write() while
bytes of it are unsent - every such byte on the wire may be the old or the new value (labelled; all
other clauses still asserted).

Implementation-level complement ("sweep", exhaustive): the private FIFO ``_StreamBuffer`` alone, every
sequence of length <=5 (quick) / <=6 (thorough) over 8 operations {append 3 B, append 2048 B, append
2049 B bytes, append 3000 B memoryview, advance 1, advance 2048, advance all-but-1, advance all} against a
bytearray model; after every operation ``len`` and ``peek(k)`` for k in {1, 2048, 10**6} are compared
(peek must be a non-empty prefix of the model of length <= k) and at the end the buffer is drained.

Sensitivity (quick tier, seed 1, scratch copies of tornado/iostream.py; all caught unless noted):
  M1 _StreamBuffer.advance: ``pos = 0`` dropped after ``del b[:pos]`` (bytearray path)   -> main C12.bytes_stuck_while_writable; sweep peek
  M2 write(): ``_total_write_index += len(data)`` moved before the buffer-full check      -> C12.future_not_resolved_after_bytes_sent
  M3 _handle_write: future loop ``index >`` -> ``index >=`` (last future never resolves)  -> C12.future_not_resolved_after_bytes_sent
  M4 _handle_write: ``index > done + 1`` (resolves one byte early)                        -> C12.future_resolved_before_bytes_sent
  M5 write(): ``.cast("B")`` dropped (array('I') views counted in items)                 -> C12.bytes_stuck_while_writable
  M6 _StreamBuffer.peek: memoryview path ignores ``pos`` (``b[:size]``)                  -> C12.wire_not_concatenation; sweep drain
  M8 _StreamBuffer.advance: large path ``pos += size`` -> ``pos = size``                 -> C12.wire_not_concatenation; sweep drain
  M12 _StreamBuffer.advance: ``b_remain <= 0`` -> ``< 0`` (empty head buffer kept)       -> C12.bytes_stuck_while_writable; sweep peek
  M13 _handle_events: ``if self.writing(): state |= WRITE`` -> ``elif`` chained to the reading() test (WRITE
      interest dropped after an event while a read is outstanding; the rest of a partial send is never
      flushed)                                   -> seeds 1,2,3: C12.lost_write_interest (needs the
      concurrently pending read ops ``read``/``feed`` added to the write programs; the recorded interest
      set is checked at every quiescence: unsent bytes => WRITE registered, pending read => READ registered)
  M14 write() queues the caller's own memoryview object when it already is a 1-D byte view and
      _StreamBuffer.advance releases a large chunk once it is sent (the SAME memoryview written twice ->
      ValueError on the released view, bytes never sent)   -> seeds 1,2,3: crash.ValueError@iostream.py:peek
      (``rewrite`` op: the data object of an earlier write - bytes, bytearray, 1-D 'B' memoryview, cast or
      sliced view - is written AGAIN to the same stream, behind a partial send of itself or after it
      completed, or to a second stream; payload = the object's bytes at call time)
  M15 write(): buffer-full test ``>`` -> ``>=`` (a write filling the buffer to EXACTLY max_write_buffer_size is
      refused)  -> every seed: part "limit", C12.refused_below_limit (84 enumerated cases: L in {100,2048,4096}
      x p pending in {0,1,L/2,L-1,L} x next write of L-p-1 / L-p / L-p+1 bytes x bytes/memoryview)
  (M7 append: ``new_buf = is_memview or len(b) >= T`` -> ``len(b) >= T`` survives: memoryview entries are
   always > T bytes long, so the mutant is equivalent.)
"""
import array
import itertools

from hypothesis import strategies as st

from tornado.iostream import StreamBufferFullError, _StreamBuffer

from vlib import iosmodel as M
from vlib import vtime
from vlib.memstream import READ, WRITE, MemoryIOStream

M.quiet_logs()
# inbound bytes for the optional concurrently pending read (read_bytes(4) / read_until(b"\n"))
IN_STREAM = b"xy\nzw" * 400
READ_SPECS = {"bytes": ("bytes", 4, False), "until": ("until", 0, None)}

PROPERTY = "C12"
READY = True
RULE = (
    "main: Hypothesis op lists (<=40 ops, <=10 writes of 6 buffer kinds with sizes from {0,1,2047,2048,2049,"
    "4096,5000,random}, grants abs {0,1,7,2048,...} / relative to pending {-1,0,+1,half}, per-call chunk caps, "
    "flush, mutate-after-write; max_write_buffer_size in {None,100,2048,4096,6000}; initial credit 0/some/"
    "unlimited); non-trivial = >=2 non-empty writes, some quiescent point where the sent offset lies strictly "
    "inside a write, and a write size >= 2047 (threshold region); distinct = SHA-1 of the case. "
    "sweep: every _StreamBuffer op sequence of length <=5 (quick) / <=6 (thorough) over 8 ops, exhaustive"
)
ASSUMPTIONS = [
    "MemoryIOStream.write_to_fd faithfully plays a non-blocking transport (accepts min(len, chunk, credit) "
    "bytes, raises BlockingIOError at zero credit) and readiness is level-triggered",
    "payloads are position-distinctive patterns (period 251), so loss, duplication and reordering of any "
    "byte range shorter than the period changes the transport log",
    "only C-contiguous memoryviews are in the domain (write() casts to 'B')",
    "the _StreamBuffer sweep addresses a private class: implementation-level evidence only",
]
TECHNIQUE = "property-based testing (Hypothesis) against a byte-string reference model + exhaustive bounded enumeration of the private FIFO buffer"
LEVEL_TEXT = (
    "bounded exploration of write programs x partial-send schedules over an in-memory transport; exhaustive "
    "only for the _StreamBuffer op sequences up to the stated length"
)
SHARDS = 16
P = "C12"

# position-distinctive payloads: PAT[s][i] = (i * s) % 251
_PAT = {s: bytes((i * s) % 251 for i in range(251)) * 26 for s in (1, 3, 5, 7, 11)}
_STEPS = (1, 3, 5, 7, 11)


def payload(tag, size):
    return _PAT[_STEPS[tag % 5]][tag % 251 : tag % 251 + size]


SIZES = st.one_of(
    st.sampled_from([0, 1, 2, 2047, 2048, 2049, 4096, 5000]),
    st.sampled_from([0, 1, 2047, 2048, 2049]),
    st.integers(1, 300),
    st.integers(1, 6000),
)
KINDS = ["bytes", "bytes", "mv", "mv_ba", "mv_slice", "mv_I", "mv_I_slice", "bytearray"]
op_s = st.one_of(
    st.tuples(st.just("write"), st.sampled_from(KINDS), SIZES, st.integers(0, 250)),
    st.tuples(st.just("write"), st.sampled_from(KINDS), SIZES, st.integers(0, 250)),
    st.tuples(st.just("grant"), st.just("abs"), st.sampled_from([0, 1, 1, 7, 100, 2047, 2048, 2049, 4096, 10000])),
    st.tuples(st.just("grant"), st.just("abs"), st.integers(0, 3000)),
    st.tuples(st.just("grant"), st.just("rel"), st.sampled_from([-1, 0, 1])),
    st.tuples(st.just("grant"), st.just("rel"), st.sampled_from([-1, 0, 1])),
    st.tuples(st.just("write"), st.sampled_from(KINDS), SIZES, st.integers(0, 250)),
    st.tuples(st.just("grant"), st.just("half"), st.just(0)),
    st.tuples(st.just("chunk"), st.sampled_from([None, 1, 7, 1000, 2047, 2048, 2049, 4096])),
    st.tuples(st.just("flush")),
    st.tuples(st.just("mutate"), st.integers(0, 9)),
    # REUSE of a caller's data object: the object of an earlier write is written again, to the same stream
    # (queued behind a partial send of itself, or after it completed) or to a second stream
    st.tuples(st.just("rewrite"), st.integers(0, 9), st.sampled_from(["same", "same", "other"])),
    st.tuples(st.just("rewrite"), st.integers(0, 9), st.sampled_from(["same", "same", "other"])),
    st.tuples(st.just("read"), st.sampled_from(["bytes", "until"])),
    st.tuples(st.just("feed"), st.sampled_from([1, 1, 2, 3, 5])),
)
case_s = st.fixed_dictionaries({
    "mwbs": st.sampled_from([None, None, None, 100, 2048, 4096, 6000]),
    "credit0": st.sampled_from([0, 0, 0, 1, 100, 2048, 3000, None]),
    "ops": st.lists(op_s, min_size=4, max_size=40),
})


def make_data(kind, size, tag):
    """-> (object passed to write(), bytes the model expects, underlying bytearray or None)"""
    if kind in ("mv_I", "mv_I_slice"):
        size -= size % 4
    pl = payload(tag, size)
    if kind == "bytes":
        return pl, pl, None
    if kind == "mv":
        return memoryview(pl), pl, None
    if kind == "mv_ba":
        ba = bytearray(pl)
        return memoryview(ba), pl, ba
    if kind == "bytearray":
        # not in write()'s signature (bytes | memoryview) but accepted like any buffer object
        ba = bytearray(pl)
        return ba, pl, ba
    if kind == "mv_slice":
        off = 1 + tag % 5
        whole = b"\xff" * off + pl + b"\xfe" * 3
        return memoryview(whole)[off : off + size], pl, None
    if kind == "mv_I":
        a = array.array("I")
        a.frombytes(pl)
        return memoryview(a), pl, None
    if kind == "mv_I_slice":
        a = array.array("I")
        a.frombytes(b"\xff" * 4 + pl + b"\xfe" * 4)
        mv = memoryview(a)[1:-1]
        return mv, pl, None
    raise AssertionError(kind)


class W:
    def __init__(self, idx, end, size):
        self.idx, self.end, self.size = idx, end, size
        self.fut = None
        self.calls = 0


async def scenario(ctx, case, labels, out):
    mwbs = case["mwbs"]
    s = MemoryIOStream(max_write_buffer_size=mwbs)
    s.write_credit = case["credit0"]
    E = bytearray()  # expected concatenation of accepted writes (old values)
    A = bytearray()  # same, with mutated-after-write bytes replaced by the new values
    either = False
    writes = []
    order = []  # indices in done-callback order
    ba_writes = []  # (W, underlying bytearray)
    objs = []  # (object handed to write(), underlying bytearray or None, kind) - candidates for reuse
    s2 = MemoryIOStream()  # second stream for "same object to two streams"
    E2, futs2 = bytearray(), []
    nwrites = 0
    split_seen = False

    def cb_for(w):
        def cb(f):
            w.calls += 1
            order.append(w.idx)
        return cb

    def sent():
        return len(s.wire)

    rs = {"rd": None, "fed": 0, "cursor": 0}  # the concurrently pending read and its (stream, cursor) model

    def check_read_and_interest(step, op):
        rd = rs["rd"]
        if rd is not None:
            status, k = M.verdict(ctx, P, rd, IN_STREAM[rs["cursor"]: rs["fed"]], False, [], s, detail={"step": step})
            if status == "ok":
                rs["cursor"] += k
                rs["rd"] = rd = None
                labels.add("concurrent_read_completed")
            elif status != "pending":
                rs["rd"] = rd = None
        # no lost interest: what the stream is registered for with the event loop, at quiescence
        ev = s.events if s.handler is not None else 0
        d = {"step": step, "op": op, "events": ev, "sent": sent(), "queued": len(E), "read_pending": rd is not None}
        if sent() < len(E):
            if not ev & WRITE:
                ctx.fail(P + ".lost_write_interest", d)
            if rd is not None:
                labels.add("read_pending_while_bytes_unsent")
        if rd is not None and not ev & READ:
            ctx.fail(P + ".lost_read_interest", d)

    def check(step, op):
        nonlocal split_seen
        n = sent()
        d = {"step": step, "op": op, "sent": n, "queued": len(E)}
        wire = bytes(s.wire)
        if n > len(E):
            ctx.fail(P + ".more_bytes_than_written", d)
        if wire != bytes(E[:n]):
            ok = either and all(wire[i] == E[i] or wire[i] == A[i] for i in range(n))
            if not ok:
                i = next(i for i in range(n) if wire[i] != E[i])
                ctx.fail(P + ".wire_not_concatenation", dict(d, first_diff=i, got=wire[i : i + 16], want=bytes(E[i : i + 16])))
        # liveness at quiescence: everything the transport could take has been handed over
        credit = s.write_credit
        if credit is None or credit > 0:
            if n != len(E):
                ctx.fail(P + ".bytes_stuck_while_writable", dict(d, credit=credit))
        if s.writing() != (n < len(E)):
            ctx.fail(P + ".writing_flag", dict(d, writing=s.writing()))
        for w in writes:
            done = w.fut.done()
            if done and n < w.end:
                ctx.fail(P + ".future_resolved_before_bytes_sent", dict(d, write=w.idx, end=w.end))
            if not done and n >= w.end:
                ctx.fail(P + ".future_not_resolved_after_bytes_sent", dict(d, write=w.idx, end=w.end))
            if done:
                if w.fut.cancelled() or w.fut.exception() is not None or w.fut.result() is not None:
                    ctx.fail(P + ".future_result", dict(d, write=w.idx, fut=repr(w.fut)))
                if w.calls != 1:
                    ctx.fail(P + ".future_callbacks_not_exactly_once", dict(d, write=w.idx, calls=w.calls))
            elif w.calls:
                ctx.fail(P + ".future_callbacks_not_exactly_once", dict(d, write=w.idx, calls=w.calls))
            if w.size and w.end - w.size < n < w.end:
                split_seen = True
                if w.size > 2048:
                    labels.add("split_large")
                else:
                    labels.add("split_small")
        if order != sorted(order):
            ctx.fail(P + ".futures_resolved_out_of_order", dict(d, order=list(order)))

    for step, op in enumerate(case["ops"]):
        kind = op[0]
        if kind in ("write", "rewrite"):
            if nwrites >= 10:
                continue
            if kind == "write":
                obj, pl, ba = make_data(op[1], op[2], op[3])
                okind = op[1]
            else:
                if not objs:
                    continue
                obj, ba, okind = objs[op[1] % len(objs)]
                # the bytes the object holds NOW (a caller's bytearray may have been overwritten meanwhile)
                pl = bytes(memoryview(obj).cast("B")) if isinstance(obj, memoryview) else bytes(obj)
                labels.add("same_object_written_again")
                if len(pl) > 2048:
                    labels.add("large_object_written_again")
                if op[2] == "other":
                    # second stream with a transport that takes everything at once
                    labels.add("same_object_to_second_stream")
                    f2 = s2.write(obj)
                    E2.extend(pl)
                    futs2.append(f2)
                    await vtime.settle(pump=s2.pump_once)
                    if bytes(s2.wire) != bytes(E2):
                        ctx.fail(P + ".second_stream_wire_not_concatenation", {"step": step, "sent": len(s2.wire), "want": len(E2)})
                    if not all(f.done() and f.exception() is None for f in futs2):
                        ctx.fail(P + ".second_stream_future_not_resolved", {"step": step})
                    await vtime.settle(pump=s.pump_once)
                    check(step, op)
                    check_read_and_interest(step, op)
                    continue
            nwrites += 1
            pending = len(E) - sent()
            must_refuse = mwbs is not None and len(pl) > 0 and pending + len(pl) > mwbs
            before = (sent(), [w.fut.done() for w in writes])
            try:
                fut = s.write(obj)
            except StreamBufferFullError:
                if not must_refuse:
                    ctx.fail(P + ".refused_below_limit", {"step": step, "pending": pending, "len": len(pl), "mwbs": mwbs})
                labels.add("buffer_full")
                after = (sent(), [w.fut.done() for w in writes])
                if after != before:
                    ctx.fail(P + ".refused_write_had_side_effects", {"step": step, "before": before, "after": after})
                if kind == "write":
                    objs.append((obj, ba, okind))
            else:
                if must_refuse:
                    ctx.fail(P + ".accepted_beyond_max_write_buffer_size",
                             {"step": step, "pending": pending, "len": len(pl), "mwbs": mwbs})
                prev_small = bool(writes) and 0 < writes[-1].size <= 2048 and sent() < writes[-1].end
                E += pl
                A += pl
                w = W(len(writes), len(E), len(pl))
                w.fut = fut
                fut.add_done_callback(cb_for(w))
                writes.append(w)
                if kind == "write":
                    objs.append((obj, ba, okind))
                if ba is not None:
                    ba_writes.append((w, ba))
                if okind != "bytes":
                    labels.add("memoryview" if okind != "bytearray" else "bytearray_object")
                    if okind.startswith("mv_I") and pl:
                        labels.add("memoryview_nonbyte_format")
                if len(pl) == 0:
                    labels.add("zero_length_write" + ("_with_pending" if pending else ""))
                if 2047 <= len(pl) <= 2049:
                    labels.add("size_at_threshold")
                if prev_small and 0 < len(pl) <= 2048:
                    labels.add("coalesced_small")
                if pending and len(pl) > 2048:
                    labels.add("large_behind_pending")
        elif kind == "grant":
            pending = len(E) - sent()
            if op[1] == "abs":
                g = op[2]
            elif op[1] == "rel":
                g = max(0, pending + op[2])
            else:
                g = pending // 2
            if s.write_credit is not None:
                s.write_credit += g
            if g == 0:
                labels.add("grant_zero")
            elif g == pending:
                labels.add("grant_exact")
        elif kind == "chunk":
            s.max_write_chunk = op[1]
        elif kind == "flush":
            s.write_credit = None
        elif kind == "read":
            if rs["rd"] is None:
                rs["rd"] = M.Read(READ_SPECS[op[1]]).issue(s, ())
                labels.add("concurrent_read_" + op[1])
        elif kind == "feed":
            chunk = IN_STREAM[rs["fed"]: rs["fed"] + op[1]]
            s.feed(chunk)
            rs["fed"] += len(chunk)
        elif kind == "mutate":
            if ba_writes:
                _, ba = ba_writes[op[1] % len(ba_writes)]
                n = sent()
                sharing = [w for w, b2 in ba_writes if b2 is ba and max(n, w.end - w.size) < w.end]
                if sharing:
                    for i in range(len(ba)):
                        ba[i] ^= 0xFF
                    for w in sharing:
                        off = w.end - w.size
                        for i in range(max(n, off), w.end):
                            A[i] = ba[i - off]
                    either = True
                    labels.add("mutated_after_write_either")
        await vtime.settle(pump=s.pump_once)
        check(step, op)
        check_read_and_interest(step, op)
        if kind == "flush":
            s.write_credit = 0

    # epilogue: unlimited credit, everything must drain and resolve
    s.write_credit = None
    s.max_write_chunk = None
    await vtime.settle(pump=s.pump_once)
    check("epilogue", None)
    check_read_and_interest("epilogue", None)
    if sent() != len(E) or any(not w.fut.done() for w in writes):
        ctx.fail(P + ".not_drained", {"sent": sent(), "queued": len(E)})
    nonempty = sum(1 for w in writes if w.size)
    out["nontrivial"] = nonempty >= 2 and split_seen and any(w.size >= 2047 for w in writes)
    if nonempty >= 2:
        labels.add("multi_write")
    s.close()
    s2.close()
    await vtime.settle(pump=s.pump_once)


def run_case(ctx, case):
    labels, out = set(), {}
    vtime.run(scenario, ctx, case, labels, out)
    ctx.note(case, labels, out.get("nontrivial", False))


# --------------------------------------------------------------------------- _StreamBuffer sweep
SWEEP_OPS = ["a3", "a2048", "a2049", "mv3000", "adv1", "adv2048", "adv_allbut1", "adv_all"]
_SW_DATA = {"a3": payload(7, 3), "a2048": payload(11, 2048), "a2049": payload(13, 2049), "mv3000": payload(17, 3000)}


def sweep_cases(maxlen):
    for n in range(1, maxlen + 1):
        for seq in itertools.product(range(len(SWEEP_OPS)), repeat=n):
            yield seq


def run_sweep_case(ctx, case):
    b = _StreamBuffer()
    m = bytearray()
    labels = set()
    for step, oi in enumerate(case):
        op = SWEEP_OPS[oi]
        if op.startswith("a") and not op.startswith("adv"):
            b.append(_SW_DATA[op])
            m += _SW_DATA[op]
        elif op == "mv3000":
            b.append(memoryview(_SW_DATA[op]))
            m += _SW_DATA[op]
        else:
            if not m:
                continue  # advance requires 0 < size <= len
            k = {"adv1": 1, "adv2048": 2048, "adv_allbut1": len(m) - 1, "adv_all": len(m)}[op]
            k = min(k, len(m))
            if k <= 0:
                continue
            b.advance(k)
            del m[:k]
        if len(b) != len(m):
            ctx.fail(P + ".streambuffer_len", {"seq": [SWEEP_OPS[i] for i in case], "step": step, "real": len(b), "model": len(m)})
        for k in (1, 2048, 10 ** 6):
            got = bytes(b.peek(k))
            if not m:
                ok = got == b""
            else:
                ok = 0 < len(got) <= k and got == bytes(m[: len(got)])
            if not ok:
                ctx.fail(P + ".streambuffer_peek", {"seq": [SWEEP_OPS[i] for i in case], "step": step, "k": k,
                                                    "got_len": len(got), "got": got[:12], "want": bytes(m[:12])})
    # drain
    outb = bytearray()
    guard = 0
    while len(b):
        v = bytes(b.peek(1000))
        if not v:
            ctx.fail(P + ".streambuffer_peek_empty_on_nonempty", {"seq": [SWEEP_OPS[i] for i in case]})
            break
        outb += v
        b.advance(len(v))
        guard += 1
        if guard > 100:
            break
    if bytes(outb) != bytes(m):
        ctx.fail(P + ".streambuffer_drain", {"seq": [SWEEP_OPS[i] for i in case], "got_len": len(outb), "want_len": len(m)})
    ctx.note(case, labels, False)


# ---- deterministic family: exact max_write_buffer_size.  With p bytes pending, a write of L - p - 1 and of
# exactly L - p bytes must be accepted, one of L - p + 1 refused without side effects (judged by the model).
def limit_cases():
    for L in (100, 2048, 4096):
        for p_ in sorted({0, 1, L // 2, L - 1, L}):
            for delta in (-1, 0, 1):
                size = L - p_ + delta
                if size < 0:
                    continue
                for kind in ("bytes", "mv"):
                    ops = ([("write", "bytes", p_, 3)] if p_ else []) + [("write", kind, size, 5), ("write", "bytes", 1, 7),
                                                                       ("grant", "rel", 0), ("write", kind, size, 9)]
                    yield {"mwbs": L, "credit0": 0, "ops": ops}


PARTS = {"main": run_case, "sweep": run_sweep_case, "limit": run_case}


def main(ctx):
    ctx.run_replays(PARTS)
    ctx.enumerate(limit_cases(), run_case, name="limit")
    ctx.explore(case_s, run_case, ctx.n(1500, 100000), name="main")
    ctx.enumerate(sweep_cases(6 if ctx.thorough else 5), run_sweep_case, name="sweep")
